#!/bin/bash
# Build the overlay venv offline (idempotent). Python 3.12 from /venv + verification wheels.
set -e
cd "$(dirname "$0")"
if [ -x .venv/bin/python ] && .venv/bin/python -c "import z3, cvc5, jsonschema, twisted, automat" 2>/dev/null; then
  exit 0
fi
rm -rf .venv
/venv/bin/python -m venv .venv
PIP_NO_INDEX=1 .venv/bin/python -m pip install -q --no-index --find-links /opt/veriftools/wheels \
   z3-solver cvc5 jsonschema hypothesis >/dev/null
SP=$(.venv/bin/python -c "import site; print(site.getsitepackages()[0])")
echo "import site; site.addsitedir('/venv/lib/python3.12/site-packages')" > "$SP/zz_repo_deps.pth"
.venv/bin/python -c "import z3, cvc5, jsonschema, twisted, automat; print('venv ok', z3.get_version_string())"
