"""Sidecar contracts for txtorcon/torcontrolprotocol.py (TorControlProtocol, Event) -- C01, C02, C03.

Abstract state (real fields unless marked ghost), see DESIGN A.1:
  command: Opt[Cmd]   commands: Seq[Cmd]   defer: Opt[D]   response: Str   code: Opt[Int]
  fsm.state in {IDLE, RECV, RECV_PLUS}     lost (= _when_disconnected fired)
  Cmd = (d: Deferred, bytes: Bytes, cb: Opt[line callback])
ghost:
  submitted, done, wcmds: Seq[Cmd]   (everything ever queued / resolved / written, in order)
  written: Bytes (all transport.write data, concatenated)
  fired: log of (d, ok|err, value)    percb: log of (cb, line)    delivered: log of (event, payload)
Inv (not lost):  submitted = done ++ opt(command) ++ commands     wcmds = done ++ opt(command)
                 command = None  =>  commands = []                  defer = command.d (or None)
                 fsm = IDLE  =>  response = '' and code = None       fsm != IDLE => code != None
Inv (lost):      command = None, commands = [], submitted = done
"""
import z3

from pyvc.exec import Unsupported, Raise
from pyvc.sym import (V, VInt, VBool, VStr, VBytes, VNone, NONE, VTuple, VList, VSeq, VMap, VConc, VInst,
                      VOpaque, VFunc, VBoundExt, VUnion, lift, concrete_of, zand, zor, znot, mk_str,
                      TInt, TStr, TBytes, TOpaque, TTuple, TOpt, TSeq, TMap)
from pyvc.models import WS_STR, re_ws, is_ws_char
from .common import CommonModels, F_tok, F_ntok, VTokens, no_ws_in

TD = TOpaque('Deferred')
TCB = TOpaque('linecb')
TCmd = TTuple('Cmd', [TD, TBytes(), TOpt(TCB, 'OptCb')])
TOptCmd = TOpt(TCmd, 'OptCmd')
TEvent = TOpaque('Event')
TL = TOpaque('listener')
F_join = z3.Function('str_join', z3.StringSort(), z3.SeqSort(z3.StringSort()), z3.StringSort())
TCmds = TSeq(TCmd)
CRLF = mk_str('\r\n')

_proto = [None]


def real_proto():
    """one real TorControlProtocol per process: its FSM tables are the extracted dispatch tables"""
    if _proto[0] is None:
        import txtorcon.torcontrolprotocol as tcp
        _proto[0] = tcp.TorControlProtocol()
    return _proto[0]


class ControlModels(CommonModels):
    def __init__(self):
        CommonModels.__init__(self)
        self.reentrancy = True

    def map_self(self, obj):
        return VConc(obj)

    def setattr_hook(self, ex, path, obj, name, v):
        # schema coercion: the queue is a symbolic-spine list
        if name == 'commands' and isinstance(obj, VConc) and obj.obj is real_proto() and isinstance(v, VList):
            path.heap[('f', ex.oid_of(obj), name)] = ex.seq_of(path, v, like=TCmds.empty())
            return [(path, NONE)]
        return None

    # ---- user callbacks may re-enter queue_command (DESIGN 2.4): summarised effect of k >= 0
    # re-entrant submissions, justified by the queue_command units (guarantee) + induction on k.
    def reenter(self, ex, path):
        if not self.reentrancy:
            return
        self.assumptions.add('A11 rely: user callbacks (Deferred callbacks, per-line callbacks, event listeners) may call '
                             'queue_command any number of times but do not re-enter lineReceived/connectionLost or touch private state')
        proto = real_proto()
        oid = ('c', id(proto))
        H = path.heap
        n = path.fresh()
        X = z3.Const('reent_X!%d' % n, TCmds.sort())
        cmds = H[('f', oid, 'commands')]
        cmd = H[('f', oid, 'command')]
        lost = H[('g', 'lost')]
        sub = H[('g', 'submitted')]
        H[('g', 'submitted')] = VSeq(z3.Concat(sub.t, X), TCmd)
        H[('g', 'reent')] = H.get(('g', 'reent'), ()) + (X,)
        # every re-entrantly submitted command is a fresh Deferred: nothing to state (A10)
        cur_none = ex.is_term(path, cmd, NONE)
        Q = z3.Concat(cmds.t, X)
        nonempty = z3.Length(X) > 0
        # case split as a symbolic ite on the real fields
        new_cmds_inflight = Q                                   # command in flight: append only
        head = Q[0]
        tail = z3.SubString(Q, 1, z3.Length(Q))
        issue = z3.And(cur_none, nonempty, z3.Not(lost.t))
        H[('f', oid, 'commands')] = VSeq(z3.If(issue, tail, z3.If(z3.And(cur_none, nonempty, lost.t), cmds.t, Q)), TCmd)
        if not z3.is_false(z3.simplify(cur_none)):
            # command may be None at call-back time: the first re-entrant submission is issued at once
            oldcmd_t = TOptCmd.unwrap(cmd)
            newcmd_t = z3.If(issue, TOptCmd.dt.constructor(1)(head), oldcmd_t)
            v = TOptCmd.wrap(newcmd_t)
            H[('f', oid, 'command')] = v
            w = H[('g', 'written')]
            H[('g', 'written')] = VBytes(z3.If(issue, z3.Concat(w.t, TCmd.dt.accessor(0, 1)(head), CRLF), w.t))
            wc = H[('g', 'wcmds')]
            H[('g', 'wcmds')] = VSeq(z3.If(issue, z3.Concat(wc.t, z3.Unit(head)), wc.t), TCmd)
            d = H[('f', oid, 'defer')]
            dt_ = TOpt(TD, 'OptD')
            H[('f', oid, 'defer')] = dt_.wrap(z3.If(issue, dt_.dt.constructor(1)(TCmd.dt.accessor(0, 0)(head)), dt_.unwrap(d)))
            # post-loss re-entrant submissions fail immediately: they join `done`
            dn = H[('g', 'done')]
            H[('g', 'done')] = VSeq(z3.If(z3.And(lost.t, nonempty), z3.Concat(dn.t, X), dn.t), TCmd)

    # ---- externals
    def join_hook(self, ex, path, sep, a):
        if isinstance(a, VMap) and a.keys is not None:
            a = a.keys              # iterating a dict iterates its keys, in insertion order
        if isinstance(a, VSeq) and isinstance(sep, VStr):
            self.assumptions.add("sep.join(list) is a function of (sep, list) (uninterpreted; A7); event names are ASCII (A9) so the joined text is")
            r = F_join(sep.t, a.t)
            path.assume(z3.InRe(r, z3.Star(z3.Range(mk_str('\x00'), mk_str('\x7f')))))
            return [(path, VStr(r))]
        return None

    def opaque_attr(self, ex, path, obj, name):
        if obj.kind == 'Event':
            if name == 'name':
                return [(path, VStr(z3.Select(path.heap[('g', 'ev_name')], obj.t)))]
            if name == 'callbacks':
                return [(path, VSeq(z3.Select(path.heap[('g', 'ev_cbs')], obj.t), TL))]
        if obj.kind == 'OnDisconnect':
            # the deprecated on_disconnect Deferred with nothing attached (trusted base)
            if name == 'called':
                return [(path, VBool(False))]
            if name == 'callbacks':
                return [(path, VTuple([]))]
        if obj.kind == 'Deferred' and name in ('called',):
            self.assumptions.add('a Deferred belonging to a pending (in-flight or queued) command has not fired: consequence of Inv + A10 '
                                 '(handlers fire only the in-flight Deferred, which then leaves the pending set); not machine-checked')
            return [(path, VBool(False))]
        return [(path, VBoundExt(obj, name))]

    # ---- loop over a symbolic sequence of commands: per-iteration contract + summary
    def loop(self, ex, path, fr, st, it, ordinal):
        q = fr.func.qualname if fr.func is not None else ''
        if q.endswith('connectionLost') and isinstance(it, VSeq) and it.elem is TCmd:
            return self.loop_fail_all(ex, path, fr, st, it)
        return None

    def loop_fail_all(self, ex, path, fr, st, seq):
        """for d, cmd, cmd_arg in outstanding: <body>   -- inductive summary.
        Step obligation (arbitrary index i): the body fires exactly seq[i].d with an error carrying
        TorDisconnectError, and changes nothing else (beyond re-entrant post-loss submissions).
        Summary: every element's Deferred fired exactly once, in order."""
        import txtorcon.torcontrolprotocol as tcp
        import twisted.python.failure as tf
        ctx = self.ctx
        body_path = path.fork()
        i = ex.fresh_int(body_path, 'loop_i')
        body_path.assume(z3.And(i >= 0, i < z3.Length(seq.t)))
        elem = TCmd.wrap(z3.simplify(seq.t[i]))
        # (no assumption on the command bytes: a command submitted as bytes need not be ASCII)
        before_logs = {k: body_path.heap.get(('g', k), ()) for k in ('fired', 'writes', 'percb')}
        snapshot = dict(body_path.heap)
        # user errbacks run inside this loop and may submit commands (A11): the state they find must be the 'lost' state
        # queue_command is verified from (connection marked lost, nothing in flight, nothing queued) - otherwise a command
        # submitted from an errback joins a queue that is about to be discarded and never gets its failure
        oid = ('c', id(real_proto()))
        H0 = body_path.heap
        cmds_now, cmd_now, lost_now = H0.get(('f', oid, 'commands')), H0.get(('f', oid, 'command')), H0.get(('g', 'lost'))
        ok0 = z3.BoolVal(False)
        if isinstance(cmds_now, VSeq) and lost_now is not None:
            ok0 = z3.And(z3.Length(cmds_now.t) == 0, ex.is_term(body_path, cmd_now, NONE), lost_now.t)
        ctx.oblige('loop.fail_outstanding.errbacks_find_the_lost_state', body_path, ok0,
                   clause='every command that has not received its reply - also one submitted from inside an errback during the loss - fails exactly once')
        for p2, r in ex.assign(st.target, elem, body_path, fr):
            if isinstance(r, Raise):
                ctx.oblige('loop.fail_outstanding.unpack', p2, z3.BoolVal(False))
                continue
            for p3, flow, v in ex.exec_block(st.body, p2, fr):
                ctx.oblige('loop.fail_outstanding.body_completes_normally', p3, z3.BoolVal(flow in ('next', 'continue')),
                           clause='every unanswered command is failed: the loop is not cut short')
                fired = p3.heap.get(('g', 'fired'), ())[len(before_logs['fired']):]
                ok = z3.BoolVal(False)
                if len(fired) == 1:
                    d, kind, val = fired[0]
                    is_disc = (isinstance(val, VInst) and val.cls is tf.Failure and
                               isinstance(p3.heap.get(('f', val.oid, 'value')), VInst) and
                               p3.heap.get(('f', val.oid, 'value')).cls is tcp.TorDisconnectError)
                    ok = z3.And(d.t == elem.items[0].t, z3.BoolVal(kind == 'err' and is_disc))
                ctx.oblige('loop.fail_outstanding.fires_this_command_once_with_disconnect_error', p3, ok,
                           clause='fails exactly once with a disconnect error')
                ctx.oblige('loop.fail_outstanding.writes_nothing', p3,
                           z3.BoolVal(len(p3.heap.get(('g', 'writes'), ())) == len(before_logs['writes'])),
                           clause='nothing is written to the transport after the loss')
        # continuation: summary
        path.heap[('g', 'failed_all')] = path.heap.get(('g', 'failed_all'), ()) + (seq,)
        self.reenter(ex, path)
        return [(path, 'next', None)]

    def method(self, ex, path, recv, name, args, kw):
        if isinstance(recv, VOpaque):
            if recv.kind == 'Deferred' and name in ('callback', 'errback'):
                self.assumptions.add('A3 Deferred: callback/errback run the user callbacks synchronously; a Deferred fires at most once')
                v = args[0] if args else NONE
                kind = 'ok' if name == 'callback' else 'err'
                import twisted.python.failure as tf
                if name == 'callback' and isinstance(v, VInst) and v.cls is tf.Failure:
                    kind = 'err'
                self.glog_add(path, 'fired', (recv, kind, v))
                self.reenter(ex, path)
                return [(path, NONE)]
            if recv.kind == 'Deferred' and name in ('addCallback', 'addErrback', 'addBoth', 'addCallbacks'):
                self.glog_add(path, 'chained', (recv, name, args))
                self.glog_add(path, 'chained_kw', dict(kw))
                return [(path, recv)]
            if recv.kind == 'reason' and name == 'check':
                # Failure.check(cls): whether the close was clean -- either answer
                return [(path, VBool(z3.Bool('clean_close')))]
            if recv.kind == 'transport' and name == 'write':
                self.assumptions.add('A4 transport.write(b) appends b to the outgoing stream, in call order, without raising')
                w = path.heap[('g', 'written')]
                path.heap[('g', 'written')] = VBytes(z3.simplify(z3.Concat(w.t, args[0].t)))
                self.glog_add(path, 'writes', args[0])
                return [(path, NONE)]
            if recv.kind == 'Event' and name == 'got_update':
                # contract of Event.got_update, proved in props/C02 (fan-out loop): every listener
                # registered at this moment is called once with the payload; listeners may
                # add/remove listeners and submit commands (rely A11)
                self.glog_add(path, 'delivered', (recv, args[0], z3.Select(path.heap[('g', 'ev_cbs')], recv.t)))
                self.reenter(ex, path)
                n = path.fresh()
                H = path.heap
                oid = ('c', id(real_proto()))
                H[('f', oid, 'events')] = TMap(TStr(), TEvent, ordered=True).fresh('events_h%d' % n)
                H[('g', 'ev_cbs')] = z3.Const('ev_cbs_h%d' % n, z3.ArraySort(z3.IntSort(), z3.SeqSort(z3.IntSort())))
                return [(path, NONE)]
            if recv.kind == 'Event' and name == 'listen':
                # contract of Event.listen (proved in props/C02): append
                H = path.heap
                cbs = z3.Select(H[('g', 'ev_cbs')], recv.t)
                H[('g', 'ev_cbs')] = z3.Store(H[('g', 'ev_cbs')], recv.t, z3.Concat(cbs, z3.Unit(TL.unwrap(args[0]))))
                return [(path, NONE)]
            if recv.kind == 'Event' and name == 'unlisten':
                H = path.heap
                cbs = z3.Select(H[('g', 'ev_cbs')], recv.t)
                u = z3.Unit(TL.unwrap(args[0]))
                out = []
                pt, pf = ex.branch(path, z3.Contains(cbs, u))
                if pt is not None:
                    i = z3.IndexOf(cbs, u, 0)
                    new = z3.Concat(z3.SubString(cbs, 0, i), z3.SubString(cbs, i + 1, z3.Length(cbs)))
                    pt.heap[('g', 'ev_cbs')] = z3.Store(pt.heap[('g', 'ev_cbs')], recv.t, new)
                    out.append((pt, NONE))
                if pf is not None:
                    out.extend(ex.raise_(pf, ValueError, 'list.remove(x): x not in list'))
                return out
        return CommonModels.method(self, ex, path, recv, name, args, kw)

    def opaque_call(self, ex, path, f, args, kw):
        if f.kind == 'linecb':
            self.glog_add(path, 'percb', (f, args[0]))
            self.reenter(ex, path)
            return [(path, NONE)]
        if f.kind == 'listener':
            self.glog_add(path, 'heard', (f, args[0]))
            return [(path, NONE)]
        return None

    def callable_(self, ex, path, obj, args, kw):
        import twisted.internet.defer as defer
        if obj is defer.Deferred:
            self.assumptions.add('A10 a newly constructed Deferred is distinct from every existing one')
            d = VOpaque('Deferred', ex.fresh_int(path, 'newd'))
            self.glog_add(path, 'allocated', d)
            return [(path, d)]
        if obj is defer.succeed:
            d = VOpaque('Deferred', ex.fresh_int(path, 'newd'))
            self.glog_add(path, 'allocated', d)
            self.glog_add(path, 'fired', (d, 'ok', args[0]))
            return [(path, d)]
        return CommonModels.callable_(self, ex, path, obj, args, kw)

    def on_already_fired(self, ex, path, inst, d):
        # SingleObserver.already_fired(d): d.callback(stored value); for _when_disconnected the
        # stored value is the Failure(TorDisconnectError) given to fire()
        val = path.heap.get(('f', ex.oid_of(inst), 'g_value'))
        self.glog_add(path, 'fired', (d, 'err' if path.heap.get(('g', 'lost_value_is_failure'), True) else 'ok', val))
        self.reenter(ex, path)

    def on_observer_fire(self, ex, path, inst, value):
        self.glog_add(path, 'observer_fired', (inst, value))
        path.heap[('g', 'lost')] = VBool(True)



# ------------------------------------------------------------------------------------------

FSM_STATES = ['IDLE', 'RECV', 'RECV_PLUS']


def fsm_state_obj(name):
    proto = real_proto()
    for st in proto.fsm.states:
        if st.name == name:
            return st
    raise KeyError(name)


def opt_cmd_term(v):
    return TOptCmd.unwrap(v)


def seq1(x_t):
    return z3.Unit(x_t)


def opt_as_seq(opt_t):
    """Opt[Cmd] term -> Seq[Cmd] term ([] or [c])"""
    return z3.If(TOptCmd.is_none(opt_t), z3.Empty(TCmds.sort()), z3.Unit(TOptCmd.dt.accessor(1, 0)(opt_t)))


def cmd_d(c_t):
    return TCmd.dt.accessor(0, 0)(c_t)


def cmd_bytes(c_t):
    return TCmd.dt.accessor(0, 1)(c_t)


def cmd_cb(c_t):
    return TCmd.dt.accessor(0, 2)(c_t)


def make_proto(ctx, path, fsm_state, lost=None, cmd_kind=None):
    """symbolic TorControlProtocol satisfying Inv.
    cmd_kind: None = any; 'none' / 'plain' / 'percb' restrict the in-flight command."""
    ex = ctx.ex
    proto = real_proto()
    SELF = VConc(proto)
    oid = ('c', id(proto))
    H = path.heap
    command0 = z3.Const('command0', TOptCmd.sort())
    commands0 = z3.Const('commands0', TCmds.sort())
    response0 = z3.String('response0')
    code0 = z3.Int('code0')
    lost0 = z3.Bool('lost0')
    submitted0 = z3.Const('submitted0', TCmds.sort())
    done0 = z3.Const('done0', TCmds.sort())
    wcmds0 = z3.Const('wcmds0', TCmds.sort())
    written0 = z3.String('written0')
    for k, v in [('command0', command0), ('commands0', commands0), ('response0', response0), ('code0', code0),
                 ('lost0', lost0)]:
        ctx.input(k, v)
    is_none = TOptCmd.is_none(command0)
    c0 = TOptCmd.dt.accessor(1, 0)(command0)
    if cmd_kind == 'none':
        path.assume(is_none)
    elif cmd_kind == 'plain':
        path.assume(z3.And(z3.Not(is_none), TOpt(TCB, 'OptCb').is_none(cmd_cb(c0))))
    elif cmd_kind == 'percb':
        path.assume(z3.And(z3.Not(is_none), z3.Not(TOpt(TCB, 'OptCb').is_none(cmd_cb(c0)))))
    if lost is not None:
        path.assume(lost0 == lost)
    H[('f', oid, 'command')] = TOptCmd.wrap(command0)
    H[('f', oid, 'commands')] = VSeq(commands0, TCmd)
    optd = TOpt(TD, 'OptD')
    H[('f', oid, 'defer')] = optd.wrap(z3.If(is_none, optd.dt.constructor(0)(), optd.dt.constructor(1)(cmd_d(c0))))
    H[('f', oid, 'response')] = VStr(response0)
    if fsm_state == 'IDLE':
        H[('f', oid, 'code')] = NONE
        path.assume(z3.Length(response0) == 0)
    else:
        H[('f', oid, 'code')] = VInt(code0)
        path.assume(z3.And(code0 >= 200, code0 < 700))
    H[('f', ('c', id(proto.fsm)), 'state')] = VConc(fsm_state_obj(fsm_state))
    H[('f', oid, 'transport')] = VOpaque('transport', 9001)
    H[('f', oid, 'on_disconnect')] = VOpaque('OnDisconnect', 9002)
    wd = VConc(proto._when_disconnected)
    H[('f', ex.oid_of(wd), 'g_fired')] = VBool(lost0)
    # events: name -> Event (identity = Int); per-Event abstract state in arrays
    ev = TMap(TStr(), TEvent, ordered=True).fresh('events0')
    H[('f', oid, 'events')] = ev
    H[('f', oid, 'valid_events')] = TMap(TStr(), TEvent).fresh('valid_events0')
    H[('g', 'ev_cbs')] = z3.Const('ev_cbs0', z3.ArraySort(z3.IntSort(), z3.SeqSort(z3.IntSort())))
    H[('g', 'ev_name')] = z3.Const('ev_name0', z3.ArraySort(z3.IntSort(), z3.StringSort()))
    H[('g', 'lost')] = VBool(lost0)
    H[('g', 'submitted')] = VSeq(submitted0, TCmd)
    H[('g', 'done')] = VSeq(done0, TCmd)
    H[('g', 'wcmds')] = VSeq(wcmds0, TCmd)
    H[('g', 'written')] = VBytes(written0)
    # ---- Inv
    pend = z3.Concat(opt_as_seq(command0), commands0)
    path.assume(z3.Implies(z3.Not(lost0), z3.And(submitted0 == z3.Concat(done0, pend),
                                                 wcmds0 == z3.Concat(done0, opt_as_seq(command0)))))
    path.assume(z3.Implies(lost0, z3.And(is_none, z3.Length(commands0) == 0, submitted0 == done0)))
    path.assume(z3.Implies(is_none, z3.Length(commands0) == 0))
    pre = dict(command0=command0, commands0=commands0, response0=response0, code0=code0, lost0=lost0,
               submitted0=submitted0, done0=done0, wcmds0=wcmds0, written0=written0, c0=c0, is_none=is_none,
               oid=oid, SELF=SELF)
    return SELF, pre


def post_terms(ctx, path, pre):
    """the post-state as z3 terms"""
    H = path.heap
    oid = pre['oid']
    proto = real_proto()
    optd = TOpt(TD, 'OptD')
    code = H[('f', oid, 'code')]
    st = H[('f', ('c', id(proto.fsm)), 'state')]
    return dict(
        command=TOptCmd.unwrap(H[('f', oid, 'command')]),
        commands=H[('f', oid, 'commands')].t if isinstance(H[('f', oid, 'commands')], VSeq) else None,
        commands_v=H[('f', oid, 'commands')],
        defer=optd.unwrap(H[('f', oid, 'defer')]),
        response=H[('f', oid, 'response')],
        code=code,
        fsm=st.obj.name if isinstance(st, VConc) else None,
        lost=H[('g', 'lost')].t,
        submitted=H[('g', 'submitted')].t, done=H[('g', 'done')].t, wcmds=H[('g', 'wcmds')].t,
        written=H[('g', 'written')].t,
        fired=ctx.models.glog(path, 'fired'), percb=ctx.models.glog(path, 'percb'),
        delivered=ctx.models.glog(path, 'delivered'), writes=ctx.models.glog(path, 'writes'),
        reent=H.get(('g', 'reent'), ()),
    )


def inv_clauses(ctx, path, pre, post):
    """Inv over the post-state -> [(name, z3 Bool)]"""
    ex = ctx.ex
    cl = []
    cmd, cmds = post['command'], post['commands']
    if cmds is None:
        return [('commands_is_a_sequence', z3.BoolVal(False))]
    isn = TOptCmd.is_none(cmd)
    pend = z3.Concat(opt_as_seq(cmd), cmds)
    lost = post['lost']
    cl.append(('fifo_submitted_eq_done_inflight_queued',
               z3.Implies(z3.Not(lost), post['submitted'] == z3.Concat(post['done'], pend))))
    cl.append(('written_cmds_eq_done_plus_inflight',
               z3.Implies(z3.Not(lost), post['wcmds'] == z3.Concat(post['done'], opt_as_seq(cmd)))))
    cl.append(('idle_queue_implies_nothing_queued', z3.Implies(isn, z3.Length(cmds) == 0)))
    cl.append(('lost_implies_nothing_pending', z3.Implies(lost, z3.And(isn, z3.Length(cmds) == 0,
                                                                        post['submitted'] == post['done']))))
    optd = TOpt(TD, 'OptD')
    cl.append(('defer_is_inflight_deferred',
               z3.If(isn, optd.is_none(post['defer']),
                     z3.And(z3.Not(optd.is_none(post['defer'])),
                            optd.dt.accessor(1, 0)(post['defer']) == cmd_d(TOptCmd.dt.accessor(1, 0)(cmd))))))
    fsm = post['fsm']
    code_none = ex.is_term(path, post['code'], NONE)
    resp = post['response']
    if fsm == 'IDLE':
        cl.append(('idle_has_no_partial_reply', z3.And(code_none, z3.Length(resp.t) == 0)
                   if isinstance(resp, VStr) else z3.BoolVal(False)))
    else:
        cl.append(('in_reply_has_code', z3.Not(code_none)))
    return cl
