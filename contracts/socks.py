"""Sidecar contracts for txtorcon/socks.py (_SocksMachine): schema, invariant, externals.

Abstract state of a _SocksMachine (real fields unless marked ghost):
  _state (automat state name; lives in automat's transitioner on the real object)
  _data: bytes   _req_type   _addr   _sender: Opt[sender]   _when_done: SingleObserver
  _on_disconnect / _on_data / _create_connection : Opt[callback]
ghost:
  created   : log of (addr, port) given to _create_connection
  delivered : bytes handed to sender.dataReceived, concatenated
  sent      : log of byte strings handed to _on_data / _outgoing_data
  done      : log of values the when_done observer was fired with (first fire only)
  lost      : log of sender.connectionLost calls;  closed: log of _on_disconnect calls
"""
import socket
import ipaddress
import z3

from pyvc.exec import Unsupported, Raise
from pyvc.sym import (V, VInt, VBool, VStr, VBytes, VNone, NONE, VTuple, VList, VSeq, VConc, VInst,
                      VOpaque, VFunc, VBoundExt, VUnion, lift, concrete_of, zand, zor, znot, mk_str)
from .common import CommonModels

S = z3.StringSort()
F_ntoa = z3.Function('inet_ntoa', S, S)
F_pton4 = z3.Function('inet_pton4', S, S)
F_pton6 = z3.Function('inet_pton6', S, S)
# address family classifier of ipaddress.ip_address: 4, 6 or 0 (not an address)
F_family = z3.Function('ip_family', S, z3.IntSort())
F_ntop16 = z3.Function('inet_ntop16', S, S)
F_ntop4 = z3.Function('inet_ntop4', S, S)


class SocksModels(CommonModels):
    def __init__(self):
        CommonModels.__init__(self)

    # ---------------- externals
    def callable_(self, ex, path, obj, args, kw):
        if obj is socket.inet_ntoa:
            self.assumptions.add('socket.inet_ntoa: total on 4-byte input (OSError otherwise), a function of its input')
            a = args[0]
            if not isinstance(a, VBytes):
                return ex.raise_(path, TypeError, 'inet_ntoa')
            out = []
            pt, pf = ex.branch(path, z3.Length(a.t) == 4)
            if pt is not None:
                out.append((pt, VStr(F_ntoa(a.t))))
            if pf is not None:
                out.extend(ex.raise_(pf, OSError, 'packed IP wrong length for inet_ntoa'))
            return out
        if obj is socket.inet_aton:
            self.assumptions.add('socket.inet_aton(s): 4 bytes = inet_pton(AF_INET, s) when s is an IPv4 literal; '
                                 'OSError when s is an IPv6 literal')
            a = args[0]
            if not isinstance(a, VStr):
                return ex.raise_(path, TypeError, 'inet_aton')
            fam = F_family(a.t)
            out = []
            pt, pf = ex.branch(path, fam == 4)
            if pt is not None:
                r = F_pton4(a.t)
                pt.assume(z3.Length(r) == 4)
                out.append((pt, VBytes(r)))
            if pf is not None:
                p6, pn = ex.branch(pf, fam == 6)
                if p6 is not None:
                    out.extend(ex.raise_(p6, OSError, 'illegal IP address string passed to inet_aton'))
                if pn is not None:
                    # not an address by ipaddress' rules: inet_aton raises OSError, except for the
                    # legacy short forms ('1', '1.2', '0x7f.1') which it still packs into 4 bytes
                    pa = pn.fork()
                    acc = ex.fresh_bool(pa, 'aton_legacy_form')
                    pa.assume(acc)
                    pn.assume(z3.Not(acc))
                    r = ex.fresh_str(pa, 'aton')
                    pa.assume(z3.Length(r) == 4)
                    out.append((pa, VBytes(r)))
                    out.extend(ex.raise_(pn, OSError, 'illegal IP address string passed to inet_aton'))
            return out
        if obj is socket.inet_pton:
            self.assumptions.add('socket.inet_pton(AF_INET, v4 literal) is 4 bytes, (AF_INET6, v6 literal) is 16 bytes, '
                                 'OSError on family mismatch')
            ok, fam = concrete_of(args[0])
            a = args[1]
            if not ok or not isinstance(a, VStr):
                raise Unsupported('inet_pton args')
            want = 4 if fam == socket.AF_INET else 6
            out = []
            pt, pf = ex.branch(path, F_family(a.t) == want)
            if pt is not None:
                r = (F_pton4 if want == 4 else F_pton6)(a.t)
                pt.assume(z3.Length(r) == (4 if want == 4 else 16))
                out.append((pt, VBytes(r)))
            if pf is not None:
                out.extend(ex.raise_(pf, OSError, 'illegal IP address string passed to inet_pton'))
            return out
        if obj is socket.inet_ntop:
            ok, fam = concrete_of(args[0])
            a = args[1]
            if not ok or not isinstance(a, VBytes):
                raise Unsupported('inet_ntop args')
            n = 4 if fam == socket.AF_INET else 16
            out = []
            pt, pf = ex.branch(path, z3.Length(a.t) == n)
            if pt is not None:
                out.append((pt, VStr((F_ntop4 if n == 4 else F_ntop16)(a.t))))
            if pf is not None:
                out.extend(ex.raise_(pf, ValueError, 'invalid length of packed IP address string'))
            return out
        if obj is str and len(args) == 1 and isinstance(args[0], VOpaque) and args[0].kind == 'ipattr':
            return [(path, VStr(ex.fresh_str(path, 'str_of_ipattr')))]
        if obj is ipaddress.ip_address:
            self.assumptions.add('ipaddress.ip_address(s): IPv4Address / IPv6Address / ValueError according to a '
                                 'fixed classifier ip_family(s) in {4, 6, 0}')
            a = args[0]
            if not isinstance(a, VStr):
                raise Unsupported('ip_address of non-str')
            fam = F_family(a.t)
            out = []
            p4, rest = ex.branch(path, fam == 4)
            if p4 is not None:
                inst = ex.new_inst(p4, ipaddress.IPv4Address)
                out.append((p4, inst))
            if rest is not None:
                p6, pn = ex.branch(rest, fam == 6)
                if p6 is not None:
                    out.append((p6, ex.new_inst(p6, ipaddress.IPv6Address)))
                if pn is not None:
                    pn.assume(z3.And(fam != 4, fam != 6))
                    out.extend(ex.raise_(pn, ValueError, 'does not appear to be an IPv4 or IPv6 address'))
            return out
        from twisted.internet.address import IPv4Address, IPv6Address, HostnameAddress
        if obj in (IPv4Address, IPv6Address, HostnameAddress):
            self.assumptions.add('twisted address objects are plain records (type, host, port)')
            inst = ex.new_inst(path, obj)
            vals = list(args)
            names = ['type', 'host', 'port'] if obj is not HostnameAddress else ['hostname', 'port']
            for n, v in zip(names, vals):
                path.heap[('f', inst.oid, n)] = v
            return [(path, inst)]
        return CommonModels.callable_(self, ex, path, obj, args, kw)

    def instantiable(self, cls):
        return False

    def attr_hook(self, ex, path, obj, name):
        if isinstance(obj, VInst) and obj.cls in (ipaddress.IPv4Address, ipaddress.IPv6Address) and not name.startswith('__'):
            # attributes of an ipaddress object (ipv4_mapped, is_private, packed, exploded ...): nothing is known about them
            self.assumptions.add('attributes of ipaddress objects are unconstrained values (None or some object)')
            b = ex.fresh_bool(path, 'ipattr_is_none')
            return [(path, VUnion([(b, NONE), (z3.Not(b), VOpaque('ipattr', ex.fresh_int(path, 'ipattr')))]))]
        return CommonModels.attr_hook(self, ex, path, obj, name)

    def opaque_attr(self, ex, path, obj, name):
        return [(path, VBoundExt(obj, name))]

    def opaque_call(self, ex, path, f, args, kw):
        if f.kind == 'create_connection':
            self.assumptions.add('create_connection callback returns a protocol object and does not raise or re-enter the machine')
            sender = VOpaque('sender', ex.fresh_int(path, 'sender'))
            self.glog_add(path, 'created', (args[0], args[1], sender))
            return [(path, sender)]
        if f.kind == 'on_data':
            self.assumptions.add('on_data callback (transport.write) does not raise or re-enter the machine')
            self.glog_add(path, 'sent', args[0])
            return [(path, NONE)]
        if f.kind == 'on_disconnect':
            self.glog_add(path, 'closed', args[0])
            return [(path, NONE)]
        return None

    def method(self, ex, path, recv, name, args, kw):
        if isinstance(recv, VOpaque) and recv.kind == 'sender':
            self.assumptions.add('application protocol callbacks (dataReceived, connectionLost) do not re-enter the machine or raise')
            if name == 'dataReceived':
                cur = path.heap.get(('g', 'delivered'))
                path.heap[('g', 'delivered')] = VBytes(z3.simplify(z3.Concat(cur.t, args[0].t)))
                self.glog_add(path, 'deliveries', (recv, args[0]))
                return [(path, NONE)]
            if name == 'connectionLost':
                self.glog_add(path, 'lost', (recv, args[0]))
                return [(path, NONE)]
        return CommonModels.method(self, ex, path, recv, name, args, kw)

    def on_observer_fire(self, ex, path, inst, value):
        self.glog_add(path, 'done', value)


# ------------------------------------------------------------------------------------------
# symbolic pre-state

STATES = ['unconnected', 'sent_version', 'sent_request', 'relaying', 'abort', 'done']


def byte_at(t, i):
    return z3.StrToCode(z3.SubString(t, i, 1))


def all_bytes(t):
    """well-typedness of a bytes-valued z3 string: every char < 256"""
    return z3.InRe(t, z3.Star(z3.Range(mk_str('\x00'), mk_str('\xff'))))


def make_addr(ctx, path, kind):
    """the _addr a constructor-built machine holds: _create_ip_address(str(host), port)"""
    from twisted.internet.address import IPv4Address, IPv6Address, HostnameAddress
    ex = ctx.ex
    host = z3.String('host')
    port = z3.Int('port')
    ctx.input('host', VStr(host))
    ctx.input('port', port)
    cls = {'v4': IPv4Address, 'v6': IPv6Address, 'name': HostnameAddress}[kind]
    a = ex.new_inst(path, cls)
    path.heap[('f', a.oid, 'host')] = VStr(host)
    path.heap[('f', a.oid, 'port')] = VInt(port)
    fam = {'v4': 4, 'v6': 6, 'name': 0}[kind]
    if kind == 'name':
        path.assume(z3.And(F_family(host) != 4, F_family(host) != 6))
    else:
        path.assume(F_family(host) == fam)
        # A7: an IP literal is short ASCII text
        path.assume(z3.And(z3.Length(host) >= 2, z3.Length(host) <= 45,
                           z3.InRe(host, z3.Star(z3.Range(mk_str('\x00'), mk_str('\x7f'))))))
    return a, host, port


def make_machine(ctx, path, state, req_type, addr=None):
    """symbolic _SocksMachine in automat state `state` satisfying Inv"""
    import txtorcon.socks as socks
    import txtorcon.util as util
    ex = ctx.ex
    m = ex.new_inst(path, socks._SocksMachine)
    oid = m.oid
    H = path.heap
    data0 = z3.String('data0')
    ctx.lazy_assume(all_bytes(data0))
    ctx.input('data0', VBytes(data0))
    H[('f', oid, '_state')] = VStr(state)
    H[('f', oid, '_data')] = VBytes(data0)
    H[('f', oid, '_req_type')] = VStr(req_type)
    H[('f', oid, '_outgoing_data')] = ex.new_list(path, [])
    H[('f', oid, '_on_data')] = VOpaque('on_data', 7001)
    has_disc = z3.Bool('has_on_disconnect')
    ctx.input('has_on_disconnect', has_disc)
    H[('f', oid, '_on_disconnect')] = VUnion([(has_disc, VOpaque('on_disconnect', 7002)), (z3.Not(has_disc), NONE)])
    if req_type == 'CONNECT':
        H[('f', oid, '_create_connection')] = VOpaque('create_connection', 7003)
    else:
        H[('f', oid, '_create_connection')] = NONE
    wd = ex.new_inst(path, util.SingleObserver)
    H[('f', oid, '_when_done')] = wd
    fired0 = z3.Bool('fired0')
    ctx.input('fired0', fired0)
    H[('f', wd.oid, 'g_fired')] = VBool(fired0)
    delivered0 = z3.String('delivered0')
    ctx.lazy_assume(all_bytes(delivered0))
    ctx.input('delivered0', VBytes(delivered0))
    H[('g', 'delivered')] = VBytes(delivered0)
    created0 = z3.Int('created0')
    ctx.input('created0', created0)
    sender0 = VOpaque('sender', 7100)
    if addr is not None:
        H[('f', oid, '_addr')] = addr
    else:
        # an encodable target (C06 covers the encoders for every target)
        a, host, port = make_addr(ctx, path, 'v4' if req_type == 'RESOLVE_PTR' else 'name')
        path.assume(z3.And(port >= 0, port <= 65535, z3.Length(host) <= 255,
                           z3.InRe(host, z3.Star(z3.Range(mk_str('\x00'), mk_str('\x7f'))))))
        H[('f', oid, '_addr')] = a
    # ---- Inv (see DESIGN A.2), instantiated for the concrete automat state
    path.assume(z3.And(created0 >= 0, created0 <= 1))
    if state in ('unconnected', 'sent_version', 'sent_request'):
        path.assume(created0 == 0)
        H[('f', oid, '_sender')] = NONE
        path.assume(z3.Length(delivered0) == 0)
        if state != 'unconnected':
            path.assume(z3.Not(fired0))
    elif state == 'relaying':
        path.assume(created0 == 1)
        path.assume(fired0)
        path.assume(z3.Length(data0) == 0)
        H[('f', oid, '_sender')] = sender0
    else:   # abort / done
        path.assume(fired0)
        has_sender = z3.Bool('has_sender0')
        ctx.input('has_sender0', has_sender)
        path.assume(has_sender == (created0 == 1))
        H[('f', oid, '_sender')] = VUnion([(has_sender, sender0), (z3.Not(has_sender), NONE)])
        path.assume(z3.Implies(created0 == 0, z3.Length(delivered0) == 0))
    if state == 'sent_version':
        path.assume(z3.Length(data0) < 2)
    if state == 'sent_request':
        path.assume(z3.Not(must_decide(data0)))
    return m, dict(data0=data0, fired0=fired0, delivered0=delivered0, created0=created0, sender0=sender0)


# ------------------------------------------------------------------------------------------
# RFC 1928 section 6 reply spec (written from the RFC, not from the code)

def reply_len_ok(r):
    """the reply `r` (a byte string) contains a complete success-shaped reply"""
    n = z3.Length(r)
    atyp = byte_at(r, 3)
    return z3.And(n >= 4,
                  z3.Or(z3.And(atyp == 1, n >= 10),
                        z3.And(atyp == 4, n >= 22),
                        z3.And(atyp == 3, n >= 5, n >= 7 + byte_at(r, 4))))


def reply_total_len(r):
    atyp = byte_at(r, 3)
    return z3.If(atyp == 1, z3.IntVal(10), z3.If(atyp == 4, z3.IntVal(22), 7 + byte_at(r, 4)))


def determined_failure(r):
    n = z3.Length(r)
    return z3.Or(z3.And(n >= 1, byte_at(r, 0) != 5),
                 z3.And(n >= 2, byte_at(r, 1) != 0),
                 z3.And(n >= 4, z3.Not(z3.Or(byte_at(r, 3) == 1, byte_at(r, 3) == 3, byte_at(r, 3) == 4))))


def is_success(r):
    return z3.And(z3.Not(determined_failure(r)), reply_len_ok(r))


def must_decide(r):
    """a correct client has acted on buffer r: a complete success reply, or a reply whose
    failure is determined and that is at least as long as the 10-byte IPv4 form Tor sends"""
    return z3.Or(is_success(r), z3.And(determined_failure(r), z3.Length(r) >= 10))


def inv_post(ctx, path, m, pre):
    """Inv over the post-state: list of (name, z3 Bool)"""
    ex = ctx.ex
    H = path.heap
    oid = m.oid
    ok, st = concrete_of(H[('f', oid, '_state')])
    assert ok
    data = H[('f', oid, '_data')]
    models = ctx.models
    created = len(models.glog(path, 'created'))
    done = models.glog(path, 'done')
    wd = H[('f', oid, '_when_done')]
    fired = H[('f', wd.oid, 'g_fired')].t
    delivered = H[('g', 'delivered')].t
    sender = H[('f', oid, '_sender')]
    total_created = pre['created0'] + created
    cl = []
    cl.append(('created_le_1', total_created <= 1))
    sender_none = ex.is_term(path, sender, NONE)
    if st in ('unconnected', 'sent_version', 'sent_request'):
        cl.append(('pre_success_no_protocol', z3.And(total_created == 0, sender_none)))
        cl.append(('pre_success_nothing_delivered', z3.Length(delivered) == 0))
        if st != 'unconnected':
            cl.append(('pre_success_not_fired', z3.Not(fired)))
    elif st == 'relaying':
        cl.append(('relaying_protocol_created', z3.And(total_created == 1, z3.Not(sender_none))))
        cl.append(('relaying_buffer_empty', z3.Length(data.t) == 0))
        cl.append(('relaying_resolved', fired))
    else:
        cl.append(('terminal_fired', fired))
        cl.append(('no_data_without_protocol', z3.Implies(total_created == 0, z3.Length(delivered) == 0)))
    if st == 'sent_version':
        cl.append(('sent_version_no_complete_reply_buffered', z3.Length(data.t) < 2))
    if st == 'sent_request':
        cl.append(('sent_request_no_decidable_reply_buffered', z3.Not(must_decide(data.t))))
    return st, cl
