"""Sidecar contracts for txtorcon/torstate.py, circuit.py, stream.py, attacher.py -- C07, C08, C09.

Externals: the control protocol (queue_command / set_conf are logged: C01 carries the text to the wire),
Deferreds built by defer.maybeDeferred / defer.Deferred (callback chains are logged, not run: A3),
zope.interface adaptation (identity on providers), the reactor's system-event triggers."""
import z3

from pyvc.exec import Unsupported, Raise
from pyvc.sym import (V, VInt, VBool, VStr, VBytes, VNone, NONE, VTuple, VList, VSeq, VMap, VSet, VConc, VInst,
                      VOpaque, VFunc, VBoundExt, VUnion, lift, concrete_of, zand, zor, znot, mk_str)
from .common import CommonModels


class StopUnit(Exception):
    pass


class StateModels(CommonModels):
    def __init__(self):
        CommonModels.__init__(self)

    def callable_(self, ex, path, obj, args, kw):
        import twisted.internet.defer as defer
        if obj is defer.maybeDeferred:
            self.assumptions.add('A3 defer.maybeDeferred(f, *a) calls f(*a) once and wraps result / exception / Deferred in a Deferred')
            d = VOpaque('Deferred', ex.fresh_int(path, 'mayd'))
            self.glog_add(path, 'maybeDeferred', (d, args[0], tuple(args[1:])))
            return [(path, d)]
        if obj is defer.Deferred:
            d = VOpaque('Deferred', ex.fresh_int(path, 'newd'))
            self.glog_add(path, 'allocated', d)
            return [(path, d)]
        if obj is defer.succeed:
            d = VOpaque('Deferred', ex.fresh_int(path, 'succd'))
            self.glog_add(path, 'succeeded', (d, args[0]))
            return [(path, d)]
        if obj is defer.fail:
            d = VOpaque('Deferred', ex.fresh_int(path, 'faild'))
            self.glog_add(path, 'failed', (d, args[0] if args else NONE))
            return [(path, d)]
        if type(obj).__name__ == 'InterfaceClass' and len(args) == 1:
            self.assumptions.add('zope.interface adaptation Ixxx(obj) returns obj itself for a provider')
            return [(path, args[0])]
        if obj is print:
            return [(path, NONE)]
        return CommonModels.callable_(self, ex, path, obj, args, kw)

    def opaque_attr(self, ex, path, obj, name):
        return [(path, VBoundExt(obj, name))]

    def method(self, ex, path, recv, name, args, kw):
        if isinstance(recv, VOpaque):
            if recv.kind == 'Deferred' and name in ('addCallback', 'addErrback', 'addBoth', 'addCallbacks'):
                self.glog_add(path, 'chain', (recv, name, tuple(args)))
                return [(path, recv)]
            if recv.kind == 'Deferred' and name in ('callback', 'errback'):
                self.glog_add(path, 'fired', (recv, 'ok' if name == 'callback' else 'err', args[0] if args else NONE))
                return [(path, NONE)]
            if recv.kind == 'proto' and name in ('queue_command', 'set_conf', 'get_info', 'get_info_raw', 'get_conf',
                                                 'add_event_listener', 'remove_event_listener'):
                self.glog_add(path, 'proto_calls', (name, tuple(args)))
                return [(path, VOpaque('Deferred', ex.fresh_int(path, 'cmdd')))]
            if recv.kind == 'reactor' and name in ('addSystemEventTrigger', 'removeSystemEventTrigger'):
                self.glog_add(path, 'reactor_calls', (name, tuple(args)))
                return [(path, VOpaque('trigger', ex.fresh_int(path, 'trig')) if name.startswith('add') else NONE)]
        return CommonModels.method(self, ex, path, recv, name, args, kw)
