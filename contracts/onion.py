"""Sidecar contracts for txtorcon/onion.py -- C15 (descriptor-upload wait), C14 (ADD_ONION)."""
import z3

from pyvc.exec import Unsupported, Raise
from pyvc.sym import (V, VInt, VBool, VStr, VBytes, VFloat, VNone, NONE, VTuple, VList, VSeq, VMap, VSet, VConc, VInst,
                      VOpaque, VFunc, VBoundExt, VUnion, lift, concrete_of, zand, zor, znot, mk_str)
from .common import CommonModels


class StopUnit(Exception):
    pass


class OnionModels(CommonModels):
    """externals of _await_descriptor_upload: the control protocol (add/remove_event_listener),
    the `uploaded` Deferred, the onion object, the progress callback"""
    def __init__(self):
        CommonModels.__init__(self)
        self.first_await = None
        self.await_outcomes = None

    def callable_(self, ex, path, obj, args, kw):
        import twisted.internet.defer as defer
        if obj is defer.Deferred:
            d = VOpaque('Deferred', ex.fresh_int(path, 'newd'))
            self.glog_add(path, 'allocated', d)
            return [(path, d)]
        if obj is defer.succeed:
            d = VOpaque('Deferred', ex.fresh_int(path, 'succd'))
            self.glog_add(path, 'succeeded', (d, args[0] if args else NONE))
            return [(path, d)]
        if obj is float:
            return [(path, VFloat(z3.ToReal(args[0].t) if isinstance(args[0], VInt) else args[0].t))]
        return CommonModels.callable_(self, ex, path, obj, args, kw)

    def opaque_attr(self, ex, path, obj, name):
        if obj.kind == 'Deferred' and name == 'called':
            return [(path, VBool(path.heap.get(('g', 'called', str(obj.t)), z3.BoolVal(False))))]
        if obj.kind == 'onion' and name == 'hostname':
            return [(path, path.heap[('g', 'onion_hostname')])]
        return [(path, VBoundExt(obj, name))]

    def method(self, ex, path, recv, name, args, kw):
        if isinstance(recv, VOpaque):
            if recv.kind == 'Deferred' and name in ('callback', 'errback'):
                self.assumptions.add('A3 Deferred: fires at most once (a second callback raises AlreadyCalledError)')
                called = path.heap.get(('g', 'called', str(recv.t)), z3.BoolVal(False))
                out = []
                pt, pf = ex.branch(path, called)
                if pt is not None:
                    from twisted.internet import defer
                    out.extend(ex.raise_(pt, defer.AlreadyCalledError, 'already called'))
                if pf is not None:
                    pf.heap[('g', 'called', str(recv.t))] = z3.BoolVal(True)
                    self.glog_add(pf, 'fired', (recv, 'ok' if name == 'callback' else 'err', args[0] if args else NONE))
                    out.append((pf, NONE))
                return out
            if recv.kind == 'proto' and name in ('add_event_listener', 'remove_event_listener'):
                self.glog_add(path, 'proto_calls', (name, tuple(args)))
                return [(path, VOpaque('Deferred', ex.fresh_int(path, 'cmdd')))]
            if recv.kind == 'onion' and name == 'get_permanent_id':
                return [(path, VStr(z3.String('permanent_id')))]
        if isinstance(recv, VConc) and getattr(recv.obj, '__name__', '') == 'IAuthenticatedOnionClients' and name == 'providedBy':
            return [(path, VBool(z3.Bool('onion_is_authenticated')))]
        return CommonModels.method(self, ex, path, recv, name, args, kw)

    def attr_hook(self, ex, path, obj, name):
        if isinstance(obj, VConc) and getattr(obj.obj, '__name__', '') == 'IAuthenticatedOnionClients' and name == 'providedBy':
            return [(path, VBoundExt(obj, name))]
        return CommonModels.attr_hook(self, ex, path, obj, name)

    def opaque_call(self, ex, path, f, args, kw):
        if f.kind == 'progress_cb':
            self.glog_add(path, 'progress', tuple(args))
            pr = path.fork()
            b = ex.fresh_bool(pr, 'progress_raises')
            pr.assume(b)
            path.assume(z3.Not(b))
            return [(path, NONE)] + ex.raise_(pr, Exception, 'progress callback failed')
        return None

    def binop(self, ex, path, op, a, b):
        import ast
        if isinstance(a, (VFloat, VInt)) and isinstance(b, (VFloat, VInt)) and (isinstance(a, VFloat) or isinstance(b, VFloat)):
            # progress percentages: values irrelevant to the property; unconstrained real
            return [(path, VFloat(z3.Real('pct!%d' % path.fresh())))]
        if isinstance(a, VInt) and isinstance(b, VInt) and isinstance(op, ast.Div):
            return [(path, VFloat(z3.Real('pct!%d' % path.fresh())))]
        return None

    def await_(self, ex, path, fr, v, node):
        n = len(self.glog(path, 'awaited'))
        self.glog_add(path, 'awaited', (v, tuple(self.glog(path, 'proto_calls'))))
        if n == 0 and self.first_await is not None:
            self.first_await(ex, path, fr, v, node)
            raise StopUnit()
        self.assumptions.add('A3 inlineCallbacks: a yield resumes with the Deferred result or throws its failure into the generator')
        pr = path.fork()
        b = ex.fresh_bool(pr, 'await_fails')
        pr.assume(b)
        path.assume(z3.Not(b))
        exc = ex.new_inst(pr, Exception, args=VTuple([VStr('awaited deferred failed')]))
        pr.heap[('f', exc.oid, '__unknown_class__')] = VBool(True)
        return [(path, VOpaque('result', ex.fresh_int(path, 'res'))), (pr, Raise(exc))]
