"""Sidecar contracts for txtorcon/torconfig.py (TorConfig) -- C10, C11.

Abstract state: config / unsaved: dicts with a concrete spine (ordered, symbolic keys and values);
parsers: dict name -> TorConfigType instance (real objects); list_parsers: set of names;
a tracked list (_ListWrapper) is a list value + the name it reports modifications for.
ghost: set_conf calls (argument lists, in order)."""
import functools
import z3

from pyvc.exec import Unsupported, Raise
from pyvc.sym import (V, VInt, VBool, VStr, VBytes, VNone, NONE, VTuple, VList, VSeq, VMap, VSet, VConc, VInst, VDictLit,
                      VOpaque, VFunc, VBoundExt, VUnion, lift, concrete_of, zand, zor, znot, mk_str)
from .common import CommonModels

F_lower = z3.Function('str_lower', z3.StringSort(), z3.StringSort())


class ConfigModels(CommonModels):
    def __init__(self):
        CommonModels.__init__(self)
        self.find_real_name_contract = True

    def callable_(self, ex, path, obj, args, kw):
        import txtorcon.torconfig as tc
        import twisted.internet.defer as defer
        if obj is tc._ListWrapper:
            # a tracked list: a fresh list with the same items + who to tell about modifications
            items = ex.iter_concrete(path, args[0])
            lv = ex.new_list(path, items)
            path.heap[('g', 'tracked', lv.lid)] = args[1]
            return [(path, lv)]
        if obj is functools.partial:
            return [(path, VTuple([VConc('partial')] + list(args)))]
        if obj is defer.succeed:
            d = VOpaque('Deferred', ex.fresh_int(path, 'newd'))
            return [(path, d)]
        return CommonModels.callable_(self, ex, path, obj, args, kw)

    def pytype_of(self, ex, path, v):
        import txtorcon.torconfig as tc
        if isinstance(v, VList) and ('g', 'tracked', v.lid) in path.heap:
            return tc._ListWrapper      # (a list subclass)
        return CommonModels.pytype_of(self, ex, path, v)

    def contract_for(self, ex, path, f, args, kw):
        if f.qualname == 'TorConfig._find_real_name' and self.find_real_name_contract:
            # contract (proved in C11/_find_real_name): the unique key of parsers/config equal to the
            # name up to case, else the name itself.  Units pass real names, for which it is the identity.
            alias = path.heap.get(('g', 'real_name_alias'))
            if alias is not None and isinstance(args[0], VStr) and args[0].t.eq(alias[0]):
                # (a name that differs from the canonical one in case only: the canonical key, by the proved contract)
                return [(path, VStr(alias[1]))]
            self.assumptions.add('option names handed to TorConfig internals in these units are already the real (canonical) names')
            return [(path, args[0])]
        if f.qualname == 'parse_keywords':
            v = path.heap.get(('g', 'parse_keywords_result'))
            if v is None:
                raise Unsupported('parse_keywords without a scripted result')
            return [(path, v)]
        return CommonModels.contract_for(self, ex, path, f, args, kw)

    def str_method(self, ex, path, s, name, args, kw):
        if name == 'lower' and not args and not concrete_of(s)[0]:
            return [(path, type(s)(F_lower(s.t)))]
        return CommonModels.str_method(self, ex, path, s, name, args, kw)

    def opaque_attr(self, ex, path, obj, name):
        return [(path, VBoundExt(obj, name))]

    def split_hook(self, ex, path, s, args, kw):
        if len(args) == 1 and concrete_of(args[0]) == (True, '\n') and isinstance(s, VStr):
            # a value without a line-break is one line
            pt, pf = ex.branch(path, z3.Not(z3.Contains(s.t, mk_str('\n'))))
            out = []
            if pt is not None:
                out.append((pt, ex.new_list(pt, [s])))
            if pf is not None:
                raise Unsupported('split of a multi-line value')
            return out
        return CommonModels.split_hook(self, ex, path, s, args, kw)

    def method(self, ex, path, recv, name, args, kw):
        if isinstance(recv, VOpaque) and recv.kind == 'proto' and name == 'set_conf':
            self.glog_add(path, 'set_conf', tuple(args))
            return [(path, VOpaque('Deferred', ex.fresh_int(path, 'setd')))]
        if isinstance(recv, VOpaque) and recv.kind == 'Deferred' and name in ('addCallback', 'addErrback', 'addBoth'):
            self.glog_add(path, 'chained', (recv, name, tuple(args)))
            return [(path, recv)]
        return CommonModels.method(self, ex, path, recv, name, args, kw)

    def contains(self, ex, path, c, item):
        if isinstance(c, VConc) and isinstance(c.obj, (set, frozenset)):
            return None
        return None
