"""Sidecar contracts for txtorcon/addrmap.py (Addr, AddrMap) -- C20.

Time is integer seconds (A7): datetime.strptime(text) = F_strptime(text) (uninterpreted),
datetime.utcnow() = ghost `now`; timedelta = integer total with .seconds = total mod 86400 and
.days = total div 86400 exactly as CPython normalises; total_seconds() = total.
Scheduler (A6): callLater(dt, f) creates an active call due at now+dt; delay(dt) moves it by dt;
reset(dt) makes it due at now+dt; cancel() deactivates; active() reports."""
import datetime
import z3

from pyvc.exec import Unsupported, Raise
from pyvc.sym import (V, VInt, VBool, VStr, VBytes, VFloat, VNone, NONE, VTuple, VList, VSeq, VMap, VConc, VInst,
                      VOpaque, VFunc, VBoundExt, VUnion, lift, concrete_of, zand, zor, znot, mk_str,
                      TStr, TOpaque, TMap, TOpt)
from .socks import SocksModels, F_family

F_strptime = z3.Function('strptime_seconds', z3.StringSort(), z3.IntSort())
TAddr = TOpaque('Addr')


class VDateTime(V):
    def __init__(self, t):
        self.t = t


class VDelta(V):
    def __init__(self, t):
        self.t = t


def num(v):
    if isinstance(v, VInt):
        return v.t
    if isinstance(v, VFloat):
        return z3.ToInt(v.t) if v.t.sort() == z3.RealSort() else v.t
    raise Unsupported('number %r' % (v,))


class AddrModels(SocksModels):
    def attr_hook(self, ex, path, obj, name):
        if isinstance(obj, VConc) and obj.obj is datetime.datetime and name in ('strptime', 'utcnow', 'now'):
            return [(path, VBoundExt(obj, name))]
        return SocksModels.attr_hook(self, ex, path, obj, name)

    def value_attr(self, ex, path, obj, name):
        if isinstance(obj, VDelta):
            if name == 'seconds':
                return [(path, VInt(obj.t % 86400))]
            if name == 'days':
                return [(path, VInt(obj.t / 86400))]
            if name == 'total_seconds':
                return [(path, VBoundExt(obj, 'total_seconds'))]
        return None

    def callable_(self, ex, path, obj, args, kw):
        if obj is datetime.timedelta:
            self.assumptions.add('A7 time is integer seconds; timedelta.seconds/.days as CPython normalises; strptime/utcnow uninterpreted/ghost clock')
            tot = z3.IntVal(0)
            for k, mult in (('days', 86400), ('seconds', 1), ('minutes', 60), ('hours', 3600)):
                if k in kw:
                    tot = tot + num(kw[k]) * mult
            if args:
                tot = tot + num(args[0]) * 86400
            return [(path, VDelta(z3.simplify(tot)))]
        if obj is str and len(args) == 1 and isinstance(args[0], VBoundExt) and isinstance(args[0].recv, VOpaque) and args[0].recv.kind == "Addr":
            # the text of a field of an existing entry (its previous address, name ...): some text, nothing known about it
            return [(path, VStr(ex.fresh_str(path, 'str_of_addr_field')))]
        import shlex
        if obj is shlex.split:
            self.assumptions.add('shlex.split yields the tokens of the ADDRMAP line (uninterpreted: units take the token list as given)')
            toks = path.heap.get(('g', 'shlex_tokens'))
            if toks is None:
                raise Unsupported('shlex.split without token list')
            return [(path, ex.new_list(path, list(toks)))]
        if obj is max or obj is min:
            if len(args) == 2 and all(isinstance(a, (VInt, VFloat)) for a in args):
                a, b = num(args[0]), num(args[1])
                c = (a >= b) if obj is max else (a <= b)
                return [(path, VInt(z3.simplify(z3.If(c, a, b))))]
        return SocksModels.callable_(self, ex, path, obj, args, kw)

    def method(self, ex, path, recv, name, args, kw):
        if isinstance(recv, VConc) and recv.obj is datetime.datetime:
            self.assumptions.add('A7 time is integer seconds; timedelta.seconds/.days as CPython normalises; strptime/utcnow uninterpreted/ghost clock')
            if name == 'strptime':
                if not isinstance(args[0], VStr):
                    return ex.raise_(path, TypeError, 'strptime')
                self.assumptions.add('A9 expiry texts are well-formed dates (strptime does not raise)')
                return [(path, VDateTime(F_strptime(args[0].t)))]
            if name in ('utcnow', 'now'):
                return [(path, VDateTime(path.heap[('g', 'now')]))]
        if isinstance(recv, VOpaque) and recv.kind == 'Addr' and name == 'update':
            # Addr.update contract (proved by the Addr.update units): recorded call
            self.glog_add(path, 'addr_update_calls', (recv, tuple(args)))
            return [(path, NONE)]
        if isinstance(recv, VDelta) and name == 'total_seconds':
            return [(path, VInt(recv.t))]
        if isinstance(recv, VOpaque) and recv.kind == 'scheduler' and name == 'callLater':
            self.assumptions.add('A6 IReactorTime.callLater / DelayedCall.delay, reset, cancel, active as documented')
            delay = num(args[0])
            call = VOpaque('DelayedCall', ex.fresh_int(path, 'call'))
            now = path.heap[('g', 'now')]
            out = []
            pt, pf = ex.branch(path, delay >= 0)
            if pt is not None:
                timers = dict(pt.heap.get(('g', 'timers'), ()))
                timers[len(timers)] = (call, z3.simplify(now + delay), z3.BoolVal(True), args[1])
                pt.heap[('g', 'timers')] = tuple(timers.items())
                out.append((pt, call))
            if pf is not None:
                out.extend(ex.raise_(pf, AssertionError, 'callLater with negative delay'))
            return out
        if isinstance(recv, VOpaque) and recv.kind == 'DelayedCall':
            timers = list(path.heap.get(('g', 'timers'), ()))
            idx = None
            for i, (k, (c, due, active, fn)) in enumerate(timers):
                if z3.is_true(z3.simplify(c.t == recv.t)):
                    idx = i
            if idx is None:
                raise Unsupported('unknown DelayedCall')
            k, (c, due, active, fn) = timers[idx]
            now = path.heap[('g', 'now')]
            if name == 'active':
                return [(path, VBool(active))]
            out = []
            pt, pf = ex.branch(path, active)
            if pf is not None:
                from twisted.internet import error
                out.extend(ex.raise_(pf, error.AlreadyCalled, 'call no longer active'))
            if pt is not None:
                if name == 'delay':
                    timers[idx] = (k, (c, z3.simplify(due + num(args[0])), active, fn))
                elif name == 'reset':
                    timers[idx] = (k, (c, z3.simplify(now + num(args[0])), active, fn))
                elif name == 'cancel':
                    timers[idx] = (k, (c, due, z3.BoolVal(False), fn))
                elif name == 'getTime':
                    return [(pt, VInt(due))]
                else:
                    raise Unsupported('DelayedCall.%s' % name)
                pt.heap[('g', 'timers')] = tuple(timers)
                out.append((pt, NONE))
            return out
        return SocksModels.method(self, ex, path, recv, name, args, kw)

    def opaque_attr(self, ex, path, obj, name):
        return [(path, VBoundExt(obj, name))]

    def binop(self, ex, path, op, a, b):
        import ast
        if isinstance(a, VDateTime) and isinstance(b, VDateTime) and isinstance(op, ast.Sub):
            return [(path, VDelta(z3.simplify(a.t - b.t)))]
        if isinstance(a, VDateTime) and isinstance(b, VDelta) and isinstance(op, (ast.Add, ast.Sub)):
            return [(path, VDateTime(z3.simplify(a.t + b.t if isinstance(op, ast.Add) else a.t - b.t)))]
        return None

    def compare(self, ex, path, op, a, b):
        import ast
        if isinstance(a, (VDateTime, VDelta)) and type(a) is type(b):
            x, y = a.t, b.t
            return [(path, {ast.Lt: x < y, ast.LtE: x <= y, ast.Gt: x > y, ast.GtE: x >= y}[type(op)])]
        return None

    def contract_for(self, ex, path, f, args, kw):
        if f.qualname == 'AddrMap.notify':
            # contract: every listener hears the call once (fan-out as in C02's Event.got_update; not re-proved here)
            self.glog_add(path, 'heard', tuple(args))
            return [(path, NONE)]
        return SocksModels.contract_for(self, ex, path, f, args, kw)


class VKeysWhere(V):
    """[k for (k, v) in d.items() if v is X]: the keys of map `m` whose value is `val` (z3 term)"""
    def __init__(self, m, val, origin_expr):
        self.m = m
        self.val = val


def _install_keys_where():
    import ast

    def map_method(self, ex, path, mv, name, args, kw):
        if name == 'items':
            v = VBoundExt(mv, '__items_view__')
            return [(path, v)]
        return SocksModels.map_method(self, ex, path, mv, name, args, kw)

    def comprehension(self, ex, path, fr, node, it):
        if isinstance(it, VBoundExt) and it.name == '__items_view__' and isinstance(it.recv, VMap):
            gen = node.generators[0]
            ok = (isinstance(gen.target, ast.Tuple) and len(gen.target.elts) == 2 and
                  all(isinstance(e, ast.Name) for e in gen.target.elts) and len(gen.ifs) == 1 and
                  isinstance(node.elt, ast.Name) and node.elt.id == gen.target.elts[0].id)
            if ok:
                c = gen.ifs[0]
                if (isinstance(c, ast.Compare) and len(c.ops) == 1 and isinstance(c.ops[0], ast.Is) and
                        isinstance(c.left, ast.Name) and c.left.id == gen.target.elts[1].id):
                    outs = ex.eval(c.comparators[0], path, fr)
                    res = []
                    for p, x in outs:
                        if isinstance(x, Raise):
                            res.append((p, x))
                        else:
                            res.append((p, VKeysWhere(it.recv, it.recv.vt.unwrap(x), None)))
                    return res
            raise Unsupported('comprehension over dict items of this shape')
        return None

    def loop(self, ex, path, fr, st, it, ordinal):
        if isinstance(it, VKeysWhere):
            # for key in <keys whose value is X>: <body>   -- inductive summary:
            # step (arbitrary key k with m[k] = X): the body deletes exactly m[k]; summary: every such key is gone
            ctx = self.ctx
            opt = TOpt(it.m.vt)
            if not (isinstance(st.target, ast.Name)):
                raise Unsupported('loop target')
            # where does the map live?  find the heap cell holding this map term
            cell = None
            for key, v in path.heap.items():
                if key[0] == 'f' and isinstance(v, VMap) and v.t is it.m.t:
                    cell = key
            if cell is None:
                raise Unsupported('map being filtered is not a field')
            bp = path.fork()
            k = z3.String('loop_key!%d' % bp.fresh())
            cur = z3.Const('map_cur!%d' % bp.fresh(), it.m.t.sort())
            bp.heap[cell] = VMap(cur, it.m.kt, it.m.vt)
            # locals that alias the same dict object (e.g. `registry = self.map.addr`) see the same current content
            aliases = [key for key, v in path.heap.items() if key[0] == 'l' and isinstance(v, VMap) and v.t is it.m.t]
            for key in aliases:
                nv = VMap(cur, it.m.kt, it.m.vt)
                nv.origin = getattr(path.heap[key], 'origin', None) or cell
                bp.heap[key] = nv
            bp.assume(z3.Select(cur, k) == opt.dt.constructor(1)(it.val))
            for p2, r in ex.assign(st.target, VStr(k), bp, fr):
                for p3, flow, v in ex.exec_block(st.body, p2, fr):
                    after = p3.heap[cell]
                    ctx.oblige('loop.drop_keys.body_deletes_exactly_this_key', p3,
                               zand(z3.BoolVal(flow in ('next', 'continue')),
                                    after.t == z3.Store(cur, k, opt.dt.constructor(0)()) if isinstance(after, VMap) else z3.BoolVal(False)),
                               clause='the entry is removed under every key it is registered under')
            n = path.fresh()
            new = z3.Const('map_after!%d' % n, it.m.t.sort())
            kk = z3.String('qk!%d' % n)
            path.assume(z3.ForAll([kk], z3.Select(new, kk) == z3.If(z3.Select(it.m.t, kk) == opt.dt.constructor(1)(it.val),
                                                                 opt.dt.constructor(0)(), z3.Select(it.m.t, kk))))
            path.heap[cell] = VMap(new, it.m.kt, it.m.vt)
            for key in aliases:
                nv = VMap(new, it.m.kt, it.m.vt)
                nv.origin = getattr(path.heap[key], 'origin', None) or cell
                path.heap[key] = nv
            return [(path, 'next', None)]
        return SocksModels.loop(self, ex, path, fr, st, it, ordinal)
    AddrModels.map_method = map_method
    AddrModels.comprehension = comprehension
    AddrModels.loop = loop


_install_keys_where()
