"""Shared sidecar pieces: automat dispatch (A5), SingleObserver contract, Failure, super(),
logging no-ops (A12), str.split() axioms.  Everything here is either a model of something
outside /repo (listed as assumption) or a contract whose proof lives in props/C03.py."""
import inspect
import types
import z3

from pyvc.models import Models, WS_STR, re_ws, is_ws_char
from pyvc.exec import Unsupported, Raise, is_exc_class
from pyvc import extract
from pyvc.sym import (V, VInt, VBool, VStr, VBytes, VNone, NONE, VTuple, VList, VSeq, VConc, VInst,
                      VOpaque, VFunc, VBoundExt, VUnion, lift, concrete_of, zand, zor, znot, mk_str)


class SuperMarker(object):
    def __init__(self, cls, inst):
        self.cls = cls
        self.inst = inst


class CommonModels(Models):
    NOOP_CALLABLES = ()

    def __init__(self):
        Models.__init__(self)
        self.self_map = {}

    # ---- ghost log helpers (python lists in the heap, concrete spine)
    def glog(self, path, name):
        return list(path.heap.get(('g', name), ()))

    def glog_add(self, path, name, item):
        path.heap[('g', name)] = tuple(self.glog(path, name)) + (item,)

    # ---- super()
    def callable_(self, ex, path, obj, args, kw):
        if obj is super:
            if len(args) == 2 and isinstance(args[0], VConc) and isinstance(args[1], (VInst, VConc)):
                return [(path, VConc(SuperMarker(args[0].obj, args[1])))]
            raise Unsupported('zero-argument super()')
        import twisted.python.failure as tf
        if obj is tf.Failure:
            self.assumptions.add('twisted.python.failure.Failure(e) wraps e (value = e)')
            inst = ex.new_inst(path, tf.Failure)
            path.heap[('f', inst.oid, 'value')] = args[0] if args else NONE
            return [(path, inst)]
        if type(obj).__name__ == 'MethodicalOutput':
            # MethodicalOutput.__call__(oself, *a) calls the underlying method
            fv = ex.lift_obj(obj.method)
            if isinstance(fv, VFunc):
                return ex.call_func(path, fv, list(args), kw)
        if self.is_logging(obj):
            self.assumptions.add('logging calls (txtorlog.msg, log.msg, log.err, warnings.warn) have no effect and do not raise')
            return [(path, NONE)]
        return Models.callable_(self, ex, path, obj, args, kw)

    def is_logging(self, obj):
        import warnings
        if obj is warnings.warn:
            return True
        mod = getattr(obj, '__module__', '') or ''
        name = getattr(obj, '__name__', '')
        if mod.startswith('twisted.python.log') or mod.startswith('twisted.logger') or mod == 'twisted.python.threadable':
            return True
        slf = getattr(obj, '__self__', None)
        if slf is not None and type(slf).__module__.startswith('twisted.python.log'):
            return True
        return False

    def attr_hook(self, ex, path, obj, name):
        if isinstance(obj, VConc) and isinstance(obj.obj, SuperMarker):
            sm = obj.obj
            inst = sm.inst
            icls = inst.cls if isinstance(inst, VInst) else type(inst.obj)
            mro = list(icls.__mro__)
            start = mro.index(sm.cls) + 1 if sm.cls in mro else 0
            for c in mro[start:]:
                if name in c.__dict__:
                    raw = c.__dict__[name]
                    if isinstance(raw, types.FunctionType):
                        r = extract.node_of_function(raw)
                        if r is not None:
                            mi, node = r
                            return [(path, VFunc(node, mi.modname, raw.__qualname__, bound=inst, pyfunc=raw))]
                    # builtin base (object / Exception ...): __init__ is a no-op on our model
                    return [(path, VBoundExt(inst, 'builtin_base:' + name))]
            return ex.raise_(path, AttributeError, name)
        if isinstance(obj, VConc) and isinstance(obj.obj, types.ModuleType):
            return None
        return None

    def method(self, ex, path, recv, name, args, kw):
        if name.startswith('builtin_base:'):
            return [(path, NONE)]
        if name.startswith('automat:'):
            return self.automat_input(ex, path, recv, name[len('automat:'):], args, kw)
        if isinstance(recv, VConc) and type(recv.obj).__module__.startswith(('twisted.python.log', 'twisted.logger')):
            self.assumptions.add('logging calls (txtorlog.msg, log.msg, log.err, warnings.warn) have no effect and do not raise')
            return [(path, NONE)]
        return Models.method(self, ex, path, recv, name, args, kw)

    # ---- automat (A5)
    def class_attr(self, ex, path, obj, cls, name, raw):
        tname = type(raw).__name__
        if tname == 'MethodicalInput':
            return [(path, VBoundExt(obj, 'automat:' + name))]
        if tname == 'MethodicalOutput':
            # outputs are private: automat raises AttributeError on attribute access
            return ex.raise_(path, AttributeError, name)
        if tname == 'MethodicalState':
            raise Unsupported('automat state accessed as attribute')
        return None

    _tables = {}

    def automat_table(self, cls):
        if cls in self._tables:
            return self._tables[cls]
        machine = None
        for k, v in vars(cls).items():
            if type(v).__name__ == 'MethodicalMachine':
                machine = v
        if machine is None:
            raise Unsupported('no MethodicalMachine on %s' % cls)
        table = {}
        for (ins, inp, outs, outputs) in machine._automaton._transitions:
            table[(ins.method.__name__, inp.method.__name__)] = (
                outs.method.__name__, [o.method for o in outputs])
        initial = machine._automaton.initialState.method.__name__
        states = sorted(set(k[0] for k in table) | set(v[0] for v in table.values()))
        self._tables[cls] = (table, initial, states)
        return self._tables[cls]

    def automat_input(self, ex, path, recv, input_name, args, kw):
        """doInput of automat._methodical: run the (empty) input body, look up
        (state, input), set the new state, run the outputs in order with the input's args."""
        self.assumptions.add('automat MethodicalMachine semantics (A5): input -> lookup (state,input) in the '
                             'extracted table, set new state, run outputs in declaration order; '
                             'missing pair raises NoTransition; inputs called from outputs run synchronously')
        cls = recv.cls if isinstance(recv, VInst) else type(recv.obj)
        table, initial, states = self.automat_table(cls)
        oid = ex.oid_of(recv)
        stv = path.heap.get(('f', oid, '_state'))
        if stv is None:
            stv = VStr(initial)
        out = []
        for p, sv in ex.split(path, stv):
            ok, sname = concrete_of(sv)
            if not ok:
                raise Unsupported('symbolic automat state')
            key = (sname, input_name)
            if key not in table:
                import automat
                out.extend(ex.raise_(p, automat.NoTransition, '%s/%s' % key))
                continue
            new_state, outputs = table[key]
            p.heap[('f', oid, '_state')] = VStr(new_state)
            states_ = [(p, None)]
            for om in outputs:
                nxt = []
                for p2, r in states_:
                    if isinstance(r, Raise):
                        nxt.append((p2, r))
                        continue
                    rr = extract.node_of_function(om)
                    if rr is None:
                        raise Unsupported('output without source')
                    mi, node = rr
                    nparams = len(node.args.args) - 1
                    if nparams != len(args) or kw:
                        raise Unsupported('automat argument filtering (%s gets %d args)' % (om.__name__, len(args)))
                    fv = VFunc(node, mi.modname, om.__qualname__, bound=recv, pyfunc=om)
                    nxt.extend(ex.call(p2, fv, list(args), {}))
                states_ = nxt
            for p2, r in states_:
                out.append((p2, r if isinstance(r, Raise) else NONE))
        return out

    # ---- SingleObserver contract (proved in props/C03.py against util.SingleObserver)
    # abstract state per observer object oid: g_fired (z3 Bool), g_value (V), ghost log of
    # (value) delivered to the observers = one entry per fire that took effect.
    def so_fields(self, ex, path, inst):
        oid = ex.oid_of(inst)
        fired = path.heap.get(('f', oid, 'g_fired'))
        if fired is None:
            fired = VBool(False)
            path.heap[('f', oid, 'g_fired')] = fired
        return oid, fired

    def contract_for(self, ex, path, f, args, kw):
        q = f.qualname
        if q.startswith('SingleObserver.') and f.modname == 'txtorcon.util' and f.bound is not None:
            return self.single_observer(ex, path, f.bound, q.split('.', 1)[1], args)
        return None

    def single_observer(self, ex, path, inst, meth, args):
        self.used.add('contract:SingleObserver.' + meth)
        oid, fired = self.so_fields(ex, path, inst)
        if meth == '__init__':
            return [(path, NONE)]
        if meth == 'fire':
            out = []
            pt, pf = ex.branch(path, fired.t)
            if pt is not None:       # already fired: no-op, returns None
                out.append((pt, NONE))
            if pf is not None:
                pf.heap[('f', oid, 'g_fired')] = VBool(True)
                pf.heap[('f', oid, 'g_value')] = args[0]
                self.glog_add(pf, 'so_fire:%s' % (oid,), args[0])
                self.on_observer_fire(ex, pf, inst, args[0])
                out.append((pf, args[0]))
            return out
        if meth == 'has_fired':
            return [(path, VBool(fired.t))]
        if meth == 'when_fired':
            d = VOpaque('Deferred', ex.fresh_int(path, 'd'))
            self.glog_add(path, 'so_handed:%s' % (oid,), d)
            return [(path, d)]
        if meth == 'already_fired':
            out = []
            pt, pf = ex.branch(path, fired.t)
            if pt is not None:
                self.glog_add(pt, 'so_immediate:%s' % (oid,), (args[0], pt.heap.get(('f', oid, 'g_value'))))
                self.on_already_fired(ex, pt, inst, args[0])
                out.append((pt, VBool(True)))
            if pf is not None:
                out.append((pf, VBool(False)))
            return out
        raise Unsupported('SingleObserver.%s' % meth)

    def on_observer_fire(self, ex, path, inst, value):
        pass

    def join_hook(self, ex, path, sep, a):
        from pyvc.sym import VSet
        if isinstance(a, VSet) and isinstance(sep, VStr):
            # message text only: some string
            return [(path, VStr(ex.fresh_str(path, 'joined')))]
        return None

    # str.split() on a symbolic string (A7): an uninterpreted function whose first token is
    # characterised exactly (maximal whitespace-free run after leading whitespace)
    def split_hook(self, ex, path, s, args, kw):
        if args or kw or not isinstance(s, VStr):
            return None
        self.assumptions.add('str.split(): tokens are the maximal whitespace-free runs; first token characterised exactly')
        n = path.fresh()
        lead = z3.String('split_lead!%d' % n)
        rest = z3.String('split_rest!%d' % n)
        ws = z3.Star(re_ws())
        allws = z3.InRe(s.t, ws)
        t0 = F_tok(s.t, 0)
        ntok = F_ntok(s.t)
        path.assume_def([lead, rest], [
            ntok >= 0,
            z3.Implies(allws, ntok == 0),
            z3.Implies(z3.Not(allws), z3.And(
                ntok >= 1,
                s.t == z3.Concat(lead, t0, rest), z3.InRe(lead, ws), z3.Length(t0) > 0, no_ws_in(t0),
                z3.Or(z3.Length(rest) == 0, is_ws_char(z3.SubString(rest, 0, 1))),
                z3.Implies(z3.Length(rest) == 0, ntok == 1)))])
        # the axioms are about the applications F_tok(s, .), F_ntok(s): reachable from those symbols
        path.defs[-1] = (path.defs[-1][0] | frozenset(['str_split_tok', 'str_split_ntok']), path.defs[-1][1])
        return [(path, VTokens(s.t))]

    def index(self, ex, path, o, i):
        if isinstance(o, VTokens) and isinstance(i, VInt):
            n = F_ntok(o.s)
            out = []
            ok, ci = concrete_of(i)
            inb = z3.And(i.t < n, i.t >= -n)
            pt, pf = ex.branch(path, inb)
            if pt is not None:
                idx = i.t if (ok and ci >= 0) else z3.If(i.t < 0, i.t + n, i.t)
                out.append((pt, VStr(F_tok(o.s, idx))))
            if pf is not None:
                out.extend(ex.raise_(pf, IndexError, 'list index out of range'))
            return out
        return Models.index(self, ex, path, o, i)

    def len_hook(self, ex, path, v):
        if isinstance(v, VTokens):
            return [(path, VInt(F_ntok(v.s)))]
        return None

    def str_format(self, ex, path, fmt, arg):
        ok, c = concrete_of(fmt)
        if ok and c.count('%') == c.count('%s') and c.count('%s') >= 1:
            items = arg.items if isinstance(arg, VTuple) else [arg]
            if len(items) == c.count('%s') and all(isinstance(a, VStr) for a in items):
                parts = c.split('%s')
                t = mk_str(parts[0])
                for a, lit in zip(items, parts[1:]):
                    t = z3.Concat(t, a.t, mk_str(lit))
                return [(path, VStr(z3.simplify(t)))]
        if ok and c.count('%') == c.count('%s') + c.count('%d') and c.count('%') >= 1:
            import re as _re
            items = arg.items if isinstance(arg, VTuple) else [arg]
            specs = _re.findall(r'%[sd]', c)
            if len(items) == len(specs) and all((sp == '%s' and isinstance(a, VStr)) or (sp == '%d' and isinstance(a, VInt))
                                                 for sp, a in zip(specs, items)):
                parts = _re.split(r'%[sd]', c)
                t = mk_str(parts[0])
                for sp, a, lit in zip(specs, items, parts[1:]):
                    if sp == '%s':
                        piece = a.t
                    else:
                        okc, cv = concrete_of(a)
                        if okc:
                            piece = mk_str(str(cv))
                        else:
                            piece = ex.fresh_str(path, 'fmt_d')
                            path.assume_def([piece], [z3.Implies(a.t >= 0, piece == z3.IntToStr(a.t)),
                                                      z3.Implies(a.t < 0, piece == z3.Concat(mk_str('-'), z3.IntToStr(-a.t)))])
                    t = z3.Concat(t, piece, mk_str(lit))
                return [(path, VStr(z3.simplify(t)))]
        return Models.str_format(self, ex, path, fmt, arg)



    def on_already_fired(self, ex, path, inst, d):
        pass


F_tok = z3.Function('str_split_tok', z3.StringSort(), z3.IntSort(), z3.StringSort())
F_ntok = z3.Function('str_split_ntok', z3.StringSort(), z3.IntSort())


_ax_n = [0]


def split_axioms(s_t):
    """A7 characterisation of the first token of s.split(), as constraints (fresh witnesses)"""
    _ax_n[0] += 1
    lead = z3.String('ax_lead!%d' % _ax_n[0])
    rest = z3.String('ax_rest!%d' % _ax_n[0])
    ws = z3.Star(re_ws())
    allws = z3.InRe(s_t, ws)
    t0 = F_tok(s_t, 0)
    ntok = F_ntok(s_t)
    return [ntok >= 0, z3.Implies(allws, ntok == 0),
            z3.Implies(z3.Not(allws), z3.And(
                ntok >= 1, s_t == z3.Concat(lead, t0, rest), z3.InRe(lead, ws), z3.Length(t0) > 0, no_ws_in(t0),
                z3.Or(z3.Length(rest) == 0, is_ws_char(z3.SubString(rest, 0, 1))),
                z3.Implies(z3.Length(rest) == 0, ntok == 1)))]


class VTokens(V):
    """result of s.split(): tokens given by uninterpreted F_tok(s, k), k < F_ntok(s)"""
    def __init__(self, s):
        self.s = s



def no_ws_in(t):
    return z3.And(*[z3.Not(z3.Contains(t, mk_str(c))) for c in WS_STR])


