"""Sidecar contracts for txtorcon/controller.py TorProcessProtocol -- C19.

Abstract state: _connected_listeners: None | Seq[Deferred]   (None once the launch outcome is known)
                _connected_result (the stored outcome, for late when_connected())
                _timeout_delayed_call: None | DelayedCall      to_delete: list of paths
ghost: fired log (d, ok|err, value); signals log; deleted log; calls to the control protocol (in order)."""
import z3

from pyvc.exec import Unsupported, Raise
from pyvc.sym import (V, VInt, VBool, VStr, VBytes, VNone, NONE, VTuple, VList, VSeq, VMap, VConc, VInst,
                      VOpaque, VFunc, VBoundExt, VUnion, lift, concrete_of, zand, zor, znot, mk_str, TOpaque, TSeq)
from .common import CommonModels

TD = TOpaque('Deferred')


class ProcessModels(CommonModels):
    def opaque_attr(self, ex, path, obj, name):
        if obj.kind == 'transport' and name == 'pid':
            return [(path, VInt(4242))]
        if obj.kind == 'proto' and name == 'post_bootstrap':
            d = VOpaque('Deferred', 7700)
            return [(path, d)]
        if obj.kind == 'status' and name == 'value':
            return [(path, VOpaque('status_value', 7800))]
        if obj.kind == 'status_value' and name == 'exitCode':
            has = z3.Bool('exit_has_code')
            return [(path, VUnion([(has, VInt(z3.Int('exit_code'))), (z3.Not(has), NONE)]))]
        if obj.kind == 'status_value' and name == 'signal':
            return [(path, VInt(z3.Int('exit_signal')))]
        if obj.kind == 'config' and name == 'protocol':
            return [(path, VOpaque('proto', 7900))]
        return [(path, VBoundExt(obj, name))]

    def setattr_hook(self, ex, path, obj, name, v):
        if isinstance(obj, VOpaque):
            self.glog_add(path, 'set', (obj, name, v))
            return [(path, NONE)]
        return None

    def callable_(self, ex, path, obj, args, kw):
        import twisted.internet.defer as defer
        import shlex
        import txtorcon.util as util
        if obj is defer.Deferred:
            d = VOpaque('Deferred', ex.fresh_int(path, 'newd'))
            self.glog_add(path, 'allocated', d)
            return [(path, d)]
        if obj is defer.succeed:
            d = VOpaque('Deferred', ex.fresh_int(path, 'newd'))
            self.glog_add(path, 'allocated', d)
            self.glog_add(path, 'fired', (d, 'ok', args[0]))
            return [(path, d)]
        if obj is shlex.split:
            self.assumptions.add('shlex.split / find_keywords on the STATUS_CLIENT event text are uninterpreted (A7): event kind token and PROGRESS/TAG/SUMMARY values are taken as given')
            return [(path, VTuple([VStr(z3.String('tok0')), VStr(z3.String('event_kind'))]))]
        if obj is util.delete_file_or_tree:
            self.assumptions.add('A8 delete_file_or_tree removes the given path')
            self.glog_add(path, 'deleted', args[0])
            return [(path, NONE)]
        if obj is all:
            return [(path, VBool(True))]
        return CommonModels.callable_(self, ex, path, obj, args, kw)

    def contract_for(self, ex, path, f, args, kw):
        if f.qualname == 'find_keywords' and f.modname == 'txtorcon.util':
            return [(path, VOpaque('kw', 7600))]
        if f.qualname == 'delete_file_or_tree' and f.modname == 'txtorcon.util':
            self.assumptions.add('A8 delete_file_or_tree removes the given paths')
            for a in args:
                self.glog_add(path, 'deleted', a)
            return [(path, NONE)]
        if path.heap.get(('g', 'summarise_steps')) and f.qualname in ('TorProcessProtocol._tor_connected', 'TorProcessProtocol._tor_connection_failed'):
            # next step of the launch sequence (a unit of its own): logged with its argument
            self.glog_add(path, 'steps', (f.qualname.split('.')[-1], args[0] if args else NONE))
            return [(path, NONE)]
        return CommonModels.contract_for(self, ex, path, f, args, kw)

    def index(self, ex, path, o, i):
        if isinstance(o, VOpaque) and o.kind == 'kw':
            ok, k = concrete_of(i)
            if ok and k == 'PROGRESS':
                return [(path, VStr(z3.String('progress_text')))]
            if ok:
                return [(path, VStr(z3.String('kw_' + str(k))))]
        return None

    def method(self, ex, path, recv, name, args, kw):
        if isinstance(recv, VOpaque):
            k = recv.kind
            if k == 'Deferred' and name in ('callback', 'errback'):
                self.assumptions.add('A3 Deferred semantics: callback(Failure) runs the errback chain; a Deferred fires at most once')
                v = args[0] if args else NONE
                kind = 'ok' if name == 'callback' else 'err'
                import twisted.python.failure as tf
                if name == 'callback' and isinstance(v, VInst) and v.cls is tf.Failure:
                    kind = 'err'
                self.glog_add(path, 'fired', (recv, kind, v))
                return [(path, NONE)]
            if k == 'Deferred' and name in ('addCallback', 'addErrback', 'addBoth'):
                self.glog_add(path, 'chained', (recv, name, args))
                return [(path, recv)]
            if k == 'transport' and name == 'signalProcess':
                from twisted.internet import error
                self.glog_add(path, 'signals', args[0])
                pr = path.fork()
                b = ex.fresh_bool(pr, 'already_exited')
                pr.assume(b)
                path.assume(z3.Not(b))
                return [(path, NONE)] + ex.raise_(pr, error.ProcessExitedAlready, 'gone')
            if k == 'transport' and name == 'loseConnection':
                self.glog_add(path, 'lose', NONE)
                return [(path, NONE)]
            if k == 'DelayedCall' and name == 'cancel':
                self.assumptions.add('A6 DelayedCall.cancel on an active call deactivates it')
                self.glog_add(path, 'cancelled', recv)
                return [(path, NONE)]
            if k == 'DelayedCall' and name == 'active':
                return [(path, VBool(z3.Bool('timer_active')))]
            if k == 'proto' and name in ('add_event_listener', 'queue_command'):
                self.glog_add(path, 'proto_calls', (name, tuple(args)))
                d = VOpaque('Deferred', ex.fresh_int(path, 'cmdd'))
                return [(path, d)]
            if k == 'config' and name == 'attach_protocol':
                self.glog_add(path, 'proto_calls', (name, tuple(args)))
                return [(path, VOpaque('Deferred', ex.fresh_int(path, 'cmdd')))]
            if k == 'progress_cb':
                return None
            if k in ('stdout', 'stderr') and name == 'write':
                return [(path, NONE)]
        return CommonModels.method(self, ex, path, recv, name, args, kw)

    def str_method(self, ex, path, s, name, args, kw):
        if name == 'decode' and not concrete_of(s)[0]:
            # process output as text: only ever written to a log / an exception message
            return [(path, VStr(ex.fresh_str(path, 'decoded')))]
        return CommonModels.str_method(self, ex, path, s, name, args, kw)

    def opaque_call(self, ex, path, f, args, kw):
        if f.kind == 'progress_cb':
            self.glog_add(path, 'progress', tuple(args))
            return [(path, NONE)]
        if f.kind == 'connection_creator':
            self.glog_add(path, 'connects', NONE)
            return [(path, VOpaque('Deferred', ex.fresh_int(path, 'connd')))]
        return None

    def await_(self, ex, path, fr, v, node):
        """yield d in an inlineCallbacks coroutine: resumes with a result, or raises (A3)"""
        self.assumptions.add('A3 inlineCallbacks: a yield resumes with the Deferred result or throws its failure into the generator')
        self.glog_add(path, 'awaited', (v, len(self.glog(path, 'proto_calls'))))
        pr = path.fork()
        b = ex.fresh_bool(pr, 'await_fails')
        pr.assume(b)
        path.assume(z3.Not(b))
        exc = ex.new_inst(pr, Exception, args=VTuple([VStr('awaited deferred failed')]))
        pr.heap[('f', exc.oid, '__unknown_class__')] = VBool(True)
        return [(path, VOpaque('result', ex.fresh_int(path, 'res'))), (pr, Raise(exc))]

    # loop over the pending listeners: per-iteration contract + summary
    def loop(self, ex, path, fr, st, it, ordinal):
        q = fr.func.qualname if fr.func is not None else ''
        if q.endswith('_maybe_notify_connected') and isinstance(it, VSeq):
            ctx = self.ctx
            bp = path.fork()
            i = ex.fresh_int(bp, 'loop_i')
            bp.assume(z3.And(i >= 0, i < z3.Length(it.t)))
            elem = it.elem.wrap(z3.simplify(it.t[i]))
            n0 = len(bp.heap.get(('g', 'fired'), ()))
            arg = bp.heap.get(('g', 'notify_arg'))
            for p2, r in ex.assign(st.target, elem, bp, fr):
                for p3, flow, v in ex.exec_block(st.body, p2, fr):
                    fired = p3.heap.get(('g', 'fired'), ())[n0:]
                    ok = z3.BoolVal(False)
                    if len(fired) == 1 and flow in ('next', 'continue'):
                        ok = z3.And(fired[0][0].t == elem.t, z3.BoolVal(arg is None or fired[0][2] is arg))
                    ctx.oblige('loop.notify.each_pending_wait_fired_once_with_the_outcome', p3, ok,
                               clause='the launch result fires at most once; every waiter gets the same outcome')
            # a wait requested from inside one of these callbacks must not be lost: either the loop walks the live list
            # (the newcomer is appended to it and reached), or the list was retired before the loop and the outcome is
            # already stored (the newcomer is answered at once by when_connected)
            slf = path.heap.get(('l', fr.fid, 'self'))
            if isinstance(slf, VInst):
                cur = path.heap.get(('f', slf.oid, '_connected_listeners'))
                res = path.heap.get(('f', slf.oid, '_connected_result'))
                live = getattr(it, 'origin', None) == ('f', slf.oid, '_connected_listeners') and isinstance(cur, VSeq) and cur.t.eq(it.t)
                ok = live or (isinstance(cur, VNone) and arg is not None and res is arg)
                ctx.oblige('loop.notify.wait_requested_during_notification_is_not_lost', path, z3.BoolVal(bool(ok)),
                           clause='every wait handed out fires exactly once - also one requested from inside a callback of another wait')
            path.heap[('g', 'notified_all')] = path.heap.get(('g', 'notified_all'), ()) + (it,)
            return [(path, 'next', None)]
        return None
