"""C01 -- control replies resolve commands FIFO, exactly once, one command in flight.

Proof units (real code: queue_command, _maybe_issue_command, lineReceived and, through the FSM
tables extracted from a real TorControlProtocol, the ten _is_* / _start_command / _accumulate_* /
_broadcast_response functions plus spaghetti's FSM/State/Transition.process):
  queue_command@<fsm state>              submission discipline from every state (incl. after loss)
  lineReceived@<fsm state>/<command kind>  per line kind of control-spec 2.3, for every line text
Inv (contracts/control.py) is an obligation at every exit."""
import z3

from pyvc.exec import Raise, Unsupported
from pyvc.sym import (VInt, VBool, VStr, VBytes, VNone, NONE, VTuple, VInst, VOpaque, VUnion, VConc, VFunc, VSeq,
                      concrete_of, mk_str, zand, zor, TOpt)
from pyvc import extract
from contracts import control as K

PROP = 'C01'
MODULE = 'txtorcon.torcontrolprotocol'
FUNCS = ['TorControlProtocol.queue_command', 'TorControlProtocol._maybe_issue_command', 'TorControlProtocol.lineReceived',
         'TorControlProtocol._is_end_line', 'TorControlProtocol._is_not_end_line',
         'TorControlProtocol._is_single_line_response', 'TorControlProtocol._start_command',
         'TorControlProtocol._is_continuation_line', 'TorControlProtocol._is_multi_line',
         'TorControlProtocol._accumulate_multi_response', 'TorControlProtocol._accumulate_response',
         'TorControlProtocol._is_finish_line', 'TorControlProtocol._broadcast_response',
         'TorProtocolError.__init__']
SPAG = ['FSM.process', 'State.process', 'Transition.process', 'Transition.match', 'Transition.handle']

TRUSTED = [
    'A1 LineOnlyReceiver.dataReceived: one lineReceived per CRLF-terminated line, in order, delimiter removed, independent of chunking (bounded conformance check in the twin)',
    'A2 Twisted protocol life cycle; no re-entrant delivery of lineReceived / connectionLost from user callbacks',
    'A9 session grammar (the property\'s own domain): every line is ddd + one of SP - + and text, or a data line / "." inside a data block; a non-6xx reply answers the oldest unanswered command; events are not nested in replies',
    'A10 allocation freshness; pending Deferreds are unfired and pairwise distinct (consequence of Inv + A10, argued in DESIGN, not machine-checked)',
    'induction over handler sequences (DESIGN 3.4)',
    'dispatch tables are extracted from a real TorControlProtocol instance each run (FSM states/transitions), not re-typed',
    'pyvc symbolic semantics of the Python subset (DESIGN 2.2), z3 / cvc5',
]
LEVEL = 'proof'
MANIFEST = {
    'category': 'proof',
    'technique': 'contract-based deductive verification: queue invariant + per-line-kind postconditions on the real lineReceived/queue_command bodies through the extracted FSM tables (pyvc VCs, z3/cvc5); bounded CPython twin for transport segmentation and end-to-end sessions',
    'text': 'The FIFO invariant submitted = done ++ in-flight ++ queued (and written-commands = done ++ in-flight) is proved preserved by '
            'queue_command from every state and by lineReceived for every FSM state and every line of the control-spec grammar (symbolic line '
            'text, symbolic queue contents of any length), together with the per-kind effects: mid/data lines accumulate (or go to the per-line '
            'callback), a final 2xx line fires the in-flight Deferred with the assembled text, 5xx fails it with code and text, the next queued '
            'command is then written verbatim + CRLF. Exactly-once and n-th-reply/n-th-command follow from the invariant by induction on the '
            'history. No bound on queue depth, reply length or line contents.',
    'level_note': 'Assumed (A): Twisted line framing (A1, with a bounded conformance check), life cycle, Deferred semantics, the rely on user callbacks '
                  '(may re-enter queue_command; summarised effect proved for one call, composed by induction), session grammar A9. '
                  'Bounded (B): segmentation independence and whole sessions in the twin.',
}


def make_models():
    return K.ControlModels()


def B(x):
    return z3.BoolVal(bool(x))


def _register(ctx):
    for q in FUNCS:
        try:
            ctx.fn(MODULE, q)
        except KeyError:
            ctx.notes.append('function %s not found (renamed?)' % q)
    for q in SPAG:
        try:
            ctx.fn('txtorcon.spaghetti', q)
        except KeyError:
            ctx.notes.append('function %s not found (renamed?)' % q)


def ghost_exit(ctx, path, pre, new_cmds=()):
    """history ghosts at exit: wcmds grows by the commands whose bytes were written (in order);
    checked against the bytes actually written in write_obligations."""
    H = path.heap
    writes = ctx.models.glog(path, 'writes')
    return writes


RE_DIGIT = z3.Range('0', '9')


def ascii_re():
    return z3.Star(z3.Range(mk_str('\x00'), mk_str('\x7f')))


def strip_ok(full):
    """spec: final text of a 2xx reply: trailing '\\nOK' removed (control-spec: the final OK
    status line carries no payload) -- a reply that is only OK resolves to 'OK' (documented API)"""
    n = z3.Length(full)
    return z3.If(z3.SuffixOf(mk_str('\nOK'), full), z3.SubString(full, 0, n - 3), full)


def unstuff(line):
    """control-spec 2.3 CmdData: a data line starting with '.' had that dot added by the sender"""
    return z3.If(z3.PrefixOf(mk_str('.'), line), z3.SubString(line, 1, z3.Length(line)), line)


def issue_next_posts(ctx, p, pre, post, done_inc):
    """after the in-flight command finished: FIFO hand-over + what is written.
    Q = commands0 ++ X (X = re-entrant submissions); next in flight = Q[0] if any."""
    out = []
    X = z3.Empty(K.TCmds.sort())
    for x in post['reent']:
        X = z3.Concat(X, x)
    Q = z3.Concat(pre['commands0'], X)
    cmd = post['command']
    isn = K.TOptCmd.is_none(cmd)
    c1 = K.TOptCmd.dt.accessor(1, 0)(cmd)
    out.append(('next_in_flight_is_oldest_queued',
                z3.If(z3.Length(Q) == 0, isn, z3.And(z3.Not(isn), c1 == Q[0],
                                                      post['commands'] == z3.SubString(Q, 1, z3.Length(Q))))))
    writes = post['writes']
    out.append(('next_command_written_verbatim_plus_crlf_exactly_once',
                z3.If(z3.Length(Q) == 0, B(len(writes) == 0),
                      z3.And(B(len(writes) == 1),
                             (writes[0].t == z3.Concat(K.cmd_bytes(Q[0]), K.CRLF)) if len(writes) == 1 else B(False)))))
    return out


def set_ghosts(p, pre, post, submitted=None, done=None, wcmds=None):
    H = p.heap
    if submitted is not None:
        H[('g', 'submitted')] = VSeq(submitted, K.TCmd)
    if done is not None:
        H[('g', 'done')] = VSeq(done, K.TCmd)
    if wcmds is not None:
        H[('g', 'wcmds')] = VSeq(wcmds, K.TCmd)


def unit_queue_command(fsm_state, argkind, lost=False):
    def run(ctx):
        _register(ctx)
        ex = ctx.ex
        path = ctx.new_path()
        SELF, pre = K.make_proto(ctx, path, fsm_state, lost=lost)
        if argkind == 'str':
            s = z3.String('cmdtext')
            path.assume(z3.InRe(s, ascii_re()))
            arg_cmd = VStr(s)
            cmdbytes = s
        else:
            s = z3.String('cmdbytes')
            arg_cmd = VBytes(s)
            cmdbytes = s
        ctx.input('cmd', arg_cmd)
        has_cb = z3.Bool('has_cb')
        ctx.input('has_cb', has_cb)
        cbv = VUnion([(has_cb, VOpaque('linecb', 9100)), (z3.Not(has_cb), NONE)])
        ctx.cover('pre_satisfiable', path)
        if not lost:
            ctx.cover('pre_satisfiable_busy', path, z3.And(z3.Not(pre['lost0']), z3.Not(pre['is_none'])))
        outs = ex.getattr_v(path, SELF, 'queue_command')
        outs = ex.call(outs[0][0], outs[0][1], [arg_cmd, cbv], {})
        for p, r in outs:
            if isinstance(r, Raise):
                ctx.oblige('no_exception', p, B(False), clause='submission never raises')
                continue
            alloc = ctx.models.glog(p, 'allocated')
            ok_ret = isinstance(r, VOpaque) and len(alloc) == 1 and r is alloc[0] or (
                isinstance(r, VOpaque) and len(alloc) == 1 and z3.is_true(z3.simplify(r.t == alloc[0].t)))
            ctx.oblige('post.returns_fresh_deferred', p, B(ok_ret))
            if not ok_ret:
                continue
            optcb = TOpt(K.TCB, 'OptCb')
            c = K.TCmd.dt.constructor(0)(r.t, cmdbytes, optcb.unwrap(cbv))
            post = K.post_terms(ctx, p, pre)
            lost0, isn0 = pre['lost0'], pre['is_none']
            fired = post['fired']
            writes = post['writes']
            # ghost exit
            X = z3.Empty(K.TCmds.sort())
            for x in post['reent']:
                X = z3.Concat(X, x)
            wrote = len(writes) > 0
            newc = K.TOptCmd.dt.accessor(1, 0)(post['command'])
            set_ghosts(p, pre, post,
                       submitted=z3.Concat(pre['submitted0'], z3.Unit(c), X),
                       done=z3.If(lost0, z3.Concat(pre['done0'], z3.Unit(c), X), pre['done0']),
                       wcmds=z3.Concat(pre['wcmds0'], z3.Unit(newc)) if wrote else pre['wcmds0'])
            post = K.post_terms(ctx, p, pre)
            for name, g in K.inv_clauses(ctx, p, pre, post):
                ctx.oblige('inv.' + name, p, g, clause='Inv preserved')
            idle = z3.And(z3.Not(lost0), isn0)
            busy = z3.And(z3.Not(lost0), z3.Not(isn0))
            ctx.oblige('post.idle_submission_written_verbatim_plus_crlf', p,
                       z3.Implies(idle, zand(B(len(writes) == 1),
                                             (writes[0].t == z3.Concat(cmdbytes, K.CRLF)) if len(writes) == 1 else B(False),
                                             z3.Not(K.TOptCmd.is_none(post['command'])), newc == c,
                                             z3.Length(post['commands']) == 0, B(len(fired) == 0))),
                       clause='written exactly once, verbatim plus CRLF')
            ctx.oblige('post.busy_submission_queued_not_written', p,
                       z3.Implies(busy, zand(B(len(writes) == 0), post['command'] == pre['command0'],
                                             post['commands'] == z3.Concat(pre['commands0'], z3.Unit(c)),
                                             B(len(fired) == 0))),
                       clause='never written while an earlier command\'s reply is outstanding; FIFO')
            disc = z3.And(B(fired[0][1] == 'err'), fired[0][0].t == r.t) if len(fired) == 1 else B(False)
            ctx.oblige('post.post_loss_submission_fails_once_nothing_written', p,
                       z3.Implies(lost0, zand(B(len(writes) == 0), disc, K.TOptCmd.is_none(post['command']),
                                              z3.Length(post['commands']) == 0)),
                       clause='C03: a command submitted after the loss fails exactly once; nothing written after the loss')
            ctx.oblige('frame.reply_state_untouched', p,
                       zand(post['response'].t == pre['response0'] if isinstance(post['response'], VStr) else B(False),
                            B(post['fsm'] == fsm_state)))
    return run


def line_parts(line):
    """well-formed status line: ddd sep text"""
    ddd = z3.SubString(line, 0, 3)
    sep = z3.SubString(line, 3, 1)
    text = z3.SubString(line, 4, z3.Length(line))
    return ddd, sep, text


def unit_line(fsm_state, cmdkind, cls='reply'):
    """lineReceived for one FSM state / in-flight command kind; line symbolic within the grammar"""
    def run(ctx):
        _register(ctx)
        ex = ctx.ex
        path = ctx.new_path()
        SELF, pre = K.make_proto(ctx, path, fsm_state, lost=False, cmd_kind=cmdkind)
        line = z3.String('line')
        ctx.input('line', VStr(line))
        path.assume(z3.InRe(line, ascii_re()))
        ddd, sep, text = line_parts(line)
        code = z3.StrToInt(ddd)
        if fsm_state in ('IDLE', 'RECV'):
            path.assume(z3.Length(line) >= 4)
            path.assume(z3.InRe(ddd, z3.Concat(RE_DIGIT, RE_DIGIT, RE_DIGIT)))
            path.assume(z3.Or(sep == mk_str(' '), sep == mk_str('-'), sep == mk_str('+')))
            if cls == 'reply':
                path.assume(z3.Or(z3.And(code >= 200, code < 300), z3.And(code >= 500, code < 600)))
            else:
                path.assume(z3.And(code >= 600, code < 700))
        if fsm_state != 'IDLE':
            if cls == 'reply':
                path.assume(z3.Or(z3.And(pre['code0'] >= 200, pre['code0'] < 300),
                                  z3.And(pre['code0'] >= 500, pre['code0'] < 600)))
            else:
                path.assume(z3.And(pre['code0'] >= 600, pre['code0'] < 700))
        if fsm_state == 'RECV':
            path.assume(code == pre['code0'])
        # per-line-callback commands do not accumulate: response stays '' (part of Inv for that kind)
        if cmdkind == 'percb' and cls == 'reply':
            path.assume(z3.Length(pre['response0']) == 0)
        ctx.cover('pre_satisfiable', path)
        outs = ex.getattr_v(path, SELF, 'lineReceived')
        outs = ex.call(outs[0][0], outs[0][1], [VBytes(line)], {})
        c0 = pre['c0']
        optcb = TOpt(K.TCB, 'OptCb')
        cb0 = optcb.dt.accessor(1, 0)(K.cmd_cb(c0))
        the_code = code if fsm_state == 'IDLE' else pre['code0']
        for p, r in outs:
            if isinstance(r, Raise):
                cname = r.exc.cls.__name__ if isinstance(r.exc, VInst) else '?'
                ctx.oblige('no_exception[%s]' % cname, p, B(False),
                           clause='a well-formed line never raises out of lineReceived')
                continue
            post = K.post_terms(ctx, p, pre)
            fired, percb, writes = post['fired'], post['percb'], post['writes']
            X = z3.Empty(K.TCmds.sort())
            for x in post['reent']:
                X = z3.Concat(X, x)
            resolved = len(fired) > 0
            newc = K.TOptCmd.dt.accessor(1, 0)(post['command'])
            set_ghosts(p, pre, post,
                       submitted=z3.Concat(pre['submitted0'], X),
                       done=z3.Concat(pre['done0'], z3.Unit(c0)) if resolved else pre['done0'],
                       wcmds=z3.Concat(pre['wcmds0'], z3.Unit(newc)) if len(writes) > 0 else pre['wcmds0'])
            post = K.post_terms(ctx, p, pre)
            for name, g in K.inv_clauses(ctx, p, pre, post):
                ctx.oblige('inv.' + name, p, g, clause='Inv preserved')
            resp1 = post['response'].t if isinstance(post['response'], VStr) else None
            code1 = post['code']
            posts = []
            if fsm_state in ('IDLE', 'RECV'):
                is_mid = z3.Or(sep == mk_str('-'), sep == mk_str('+'))
                want_fsm = z3.If(sep == mk_str('-'), 0, z3.If(sep == mk_str('+'), 1, 2))
                got_fsm = {'RECV': 0, 'RECV_PLUS': 1, 'IDLE': 2}.get(post['fsm'], 9)
                posts.append(('next_state_follows_separator', want_fsm == got_fsm))
                unchanged_queue = zand(post['command'] == pre['command0'],
                                       post['commands'] == z3.Concat(pre['commands0'], X), B(len(writes) == 0))
                if cmdkind == 'plain':
                    posts.append(('mid_line_accumulates_payload',
                                  z3.Implies(is_mid, zand(resp1 == z3.Concat(pre['response0'], text, mk_str('\n')),
                                                          B(len(fired) == 0), B(len(percb) == 0), unchanged_queue,
                                                          ex.eq_term(p, code1, VInt(the_code))))))
                else:
                    one_cb = B(len(percb) == 1) if len(percb) != 1 else z3.And(percb[0][0].t == cb0, percb[0][1].t == text)
                    posts.append(('mid_line_goes_to_per_line_callback',
                                  z3.Implies(is_mid, zand(one_cb, resp1 == pre['response0'], B(len(fired) == 0),
                                                          unchanged_queue, ex.eq_term(p, code1, VInt(the_code))))))
                is_final = sep == mk_str(' ')
                ok2 = z3.And(the_code >= 200, the_code < 300)
                full = z3.Concat(pre['response0'], text)
                if len(fired) == 1:
                    fd, fkind, fval = fired[0]
                    same_d = fd.t == K.cmd_d(c0)
                    if cmdkind == 'plain':
                        val_ok = B(isinstance(fval, VStr)) if not isinstance(fval, VStr) else (fval.t == strip_ok(full))
                        posts.append(('final_2xx_succeeds_with_reply_text',
                                      z3.Implies(z3.And(is_final, ok2), zand(same_d, B(fkind == 'ok'), val_ok, B(len(percb) == 0)))))
                    else:
                        one_cb = B(False) if len(percb) != 1 else z3.And(percb[0][0].t == cb0, percb[0][1].t == text)
                        val_ok = B(False) if not isinstance(fval, VStr) else (z3.Length(fval.t) == 0)
                        posts.append(('final_2xx_line_goes_to_callback_deferred_gets_empty',
                                      z3.Implies(z3.And(is_final, ok2), zand(same_d, B(fkind == 'ok'), one_cb, val_ok))))
                    import txtorcon.torcontrolprotocol as tcp
                    err_ok = B(False)
                    if fkind == 'err' and isinstance(fval, VInst) and fval.cls is tcp.TorProtocolError:
                        ecode = p.heap.get(('f', fval.oid, 'code'))
                        etext = p.heap.get(('f', fval.oid, 'text'))
                        if isinstance(etext, VStr) and ecode is not None:
                            err_ok = z3.And(ex.eq_term(p, ecode, VInt(the_code)), etext.t == full)
                    posts.append(('final_5xx_fails_with_code_and_text',
                                  z3.Implies(z3.And(is_final, z3.Not(ok2)), zand(same_d, err_ok))))
                    for name, g in issue_next_posts(ctx, p, pre, post, True):
                        posts.append((name, z3.Implies(is_final, g)))
                    posts.append(('only_final_line_resolves', is_final))
                else:
                    posts.append(('final_line_resolves_exactly_once', z3.Implies(is_final, B(len(fired) == 1))))
            else:   # RECV_PLUS
                is_term = line == mk_str('.')
                posts.append(('dot_line_ends_data_block',
                              z3.Implies(is_term, zand(B(post['fsm'] == 'RECV'), resp1 == pre['response0'], B(len(fired) == 0),
                                                       B(len(percb) == 0), post['command'] == pre['command0'],
                                                       post['commands'] == z3.Concat(pre['commands0'], X)))))
                payload = unstuff(line)
                stays = zand(B(post['fsm'] == 'RECV_PLUS'), B(len(fired) == 0), post['command'] == pre['command0'],
                             post['commands'] == z3.Concat(pre['commands0'], X), B(len(writes) == 0))
                if cmdkind == 'plain':
                    posts.append(('data_line_is_never_taken_for_terminator_and_accumulates_unstuffed',
                                  z3.Implies(z3.Not(is_term), zand(stays, resp1 == z3.Concat(pre['response0'], payload, mk_str('\n')),
                                                                   B(len(percb) == 0)))))
                else:
                    one_cb = B(False) if len(percb) != 1 else z3.And(percb[0][0].t == cb0, percb[0][1].t == payload)
                    posts.append(('data_line_goes_to_per_line_callback_unstuffed',
                                  z3.Implies(z3.Not(is_term), zand(stays, one_cb, resp1 == pre['response0']))))
            for name, g in posts:
                ctx.oblige('post.' + name, p, g, clause=name)
    return run


def units():
    out = []
    for st in K.FSM_STATES:
        for ak in ('bytes', 'str'):
            out.append(('C01/queue_command@%s/%s' % (st, ak), unit_queue_command(st, ak)))
    for st in K.FSM_STATES:
        for ck in ('plain', 'percb'):
            out.append(('C01/lineReceived@%s/%s' % (st, ck), unit_line(st, ck)))
    return out


# ==========================================================================================
# bounded twin (B): whole sessions on the real protocol; reference encoder from control-spec

REPLY_POOL = [
    (250, [('end', 'OK')]),
    (250, [('end', 'version=0.4.8.9')]),
    (250, [('mid', 'a=1'), ('mid', 'b=2'), ('end', 'OK')]),
    (250, [('data', 'k=', ['line one', '250 OK', '.', '..two', ' .', '. ', '250-x=y', '']), ('end', 'OK')]),
    (250, [('mid', 'x=1'), ('data', 'y=', ['650 FAKE', '.leading']), ('mid', 'z=3'), ('end', 'OK')]),
    (250, [('data', 'empty=', []), ('end', 'OK')]),
    (552, [('end', 'Unrecognized key "foo"')]),
    (551, [('mid', 'first'), ('end', 'second')]),
    (510, [('end', 'OK')]),
]


def run_session(cmds, replies, submit_at, cuts, children=None):
    """cmds: [(bytes-or-str, percb)], replies: [(code, parts)], submit_at: offsets, cuts: stream offsets.
    children: {i: [j, ...]}: command j (index into cmds, with submit_at[j] = None) is submitted
    re-entrantly from inside command i's result callback (or first per-line callback)."""
    children = children or {}
    children = {int(k): v for k, v in children.items()}
    from twin import control_session as CS
    proto, t = CS.make_proto()
    stream = b''
    ends = []
    for code, parts in replies:
        stream += CS.encode_reply(code, parts)
        ends.append(len(stream))
    starts = [0] + ends[:-1]
    viol = []
    hist = {'cmds': [(c if isinstance(c, str) else c.decode('latin-1'), p) for c, p in cmds],
            'replies': replies, 'submit_at': list(submit_at), 'cuts': list(cuts), 'children': children}

    def bad(clause, what):
        viol.append({'key': 'C01:%s' % clause, 'clause': clause, 'what': what, 'history': hist})
    recs = [None] * len(cmds)
    lines_seen = [[] for _ in cmds]
    delivered = [0]
    write_log = []
    orig_write = t.write

    def write(data):
        write_log.append((delivered[0], data))
        orig_write(data)
    t.write = write

    spawned = set()

    def spawn(i):
        if i not in spawned:
            spawned.add(i)
            for j in children.get(i, []):
                submit(j)

    def submit(i):
        c, percb = cmds[i]

        def linecb(line, i=i):
            lines_seen[i].append(line)
            spawn(i)
        try:
            d = proto.queue_command(c, linecb) if percb else proto.queue_command(c)
        except Exception as e:
            bad('submission_never_raises', 'command %d: %r' % (i, e))
            return
        recs[i] = CS.Recorder(d)
        d.addBoth(lambda v, i=i: spawn(i))
    bounds = sorted(set(list(cuts) + [x for x in submit_at if x is not None] + [len(stream)]))
    pos = 0
    todo = sorted([i for i in range(len(cmds)) if submit_at[i] is not None], key=lambda i: (submit_at[i], i))
    for b in [0] + bounds:
        if b > pos:
            delivered[0] = b      # bytes up to b are being delivered while the call runs
            try:
                proto.dataReceived(stream[pos:b])
            except Exception as e:
                bad('no_exception_from_dataReceived', 'bytes %d..%d: %r' % (pos, b, e))
                return viol
            pos = b
            delivered[0] = b
        while todo and submit_at[todo[0]] <= pos:
            submit(todo.pop(0))
    # 1. written exactly once, verbatim + CRLF, in order
    want = b''.join((c.encode('ascii') if isinstance(c, str) else c) + b'\r\n' for c, _ in cmds)
    if t.value() != want:
        bad('written_once_verbatim_in_order', 'transport has %r expected %r' % (t.value(), want))
    # 2. never while an earlier reply is outstanding
    if len(write_log) == len(cmds):
        for i, (off, data) in enumerate(write_log):
            if i > 0 and off < ends[i - 1]:
                bad('one_command_in_flight', 'command %d written at stream offset %d before reply %d ended at %d' % (i, off, i - 1, ends[i - 1]))
    # 3. outcomes
    for i, ((c, percb), (code, parts)) in enumerate(zip(cmds, replies)):
        r = recs[i].results if recs[i] is not None else None
        if r is None:
            continue
        if len(r) != 1:
            bad('resolved_exactly_once', 'command %d (%s, reply %d): results %r' % (i, 'percb' if percb else 'plain', code, r))
            continue
        kind, val = r[0]
        if 200 <= code < 300:
            if kind != 'ok':
                bad('2xx_succeeds', 'command %d: %r' % (i, r))
            elif percb:
                if val != '':
                    bad('percb_deferred_gets_empty', 'command %d: %r' % (i, val))
                if lines_seen[i] != CS.reply_lines(parts):
                    bad('percb_gets_every_line_in_order', 'command %d: callback saw %r expected %r' % (i, lines_seen[i], CS.reply_lines(parts)))
            elif val != CS.expected_text(parts):
                bad('reply_text', 'command %d: got %r expected %r' % (i, val, CS.expected_text(parts)))
        else:
            import txtorcon
            if kind != 'err' or not isinstance(val, txtorcon.TorProtocolError):
                bad('5xx_fails_with_protocol_error', 'command %d: %r' % (i, r))
            else:
                if val.code != code:
                    bad('5xx_code', 'command %d: code %r expected %r' % (i, val.code, code))
                if not percb and val.text != '\n'.join(CS.reply_lines(parts)):
                    bad('5xx_text', 'command %d: text %r expected %r' % (i, val.text, '\n'.join(CS.reply_lines(parts))))
    return viol


def line_framing_conformance(rnd, tier):
    """A1 conformance: twisted's LineOnlyReceiver delivers the same lines under every segmentation"""
    from twisted.protocols.basic import LineOnlyReceiver
    from twisted.test.proto_helpers import StringTransport
    import itertools
    n_eval = 0
    viol = []
    streams = [b'250 OK\r\n', b'250-a\r\n250 OK\r\n', b'a\r\n\r\nb\r\r\n', b'x\ny\r\nz\r\n']
    for s in streams:
        expected = s.split(b'\r\n')[:-1]
        n = len(s)
        for k in range(0, 4 if tier == 'quick' else 6):
            for cuts in itertools.combinations(range(1, n), k):
                got = []

                class R(LineOnlyReceiver):
                    MAX_LENGTH = 2 ** 20

                    def lineReceived(self, line):
                        got.append(line)
                r = R()
                r.makeConnection(StringTransport())
                prev = 0
                for c in list(cuts) + [n]:
                    r.dataReceived(s[prev:c])
                    prev = c
                n_eval += 1
                if got != expected:
                    viol.append({'key': 'C01:A1_line_framing', 'what': 'stream %r cuts %r -> %r' % (s, cuts, got),
                                 'history': {'stream': s.hex(), 'cuts': list(cuts)}})
    return viol, n_eval


def twin(tier, seed):
    import random
    import itertools
    from twin import control_session as CS
    rnd = random.Random(seed)
    violations = []
    evaluations = 0
    distinct = set()
    samples = []
    v, n = line_framing_conformance(rnd, tier)
    violations.extend(v)
    evaluations += n
    import txtorcon.torcontrolprotocol as tcp
    if tcp.TorControlProtocol.MAX_LENGTH != 2 ** 20:
        violations.append({'key': 'C01:max_length', 'what': 'MAX_LENGTH changed', 'history': {}})
    maxk = 3 if tier == 'quick' else 4
    nsess = 250 if tier == 'quick' else 3000
    sessions = []
    # every single reply shape, plain and percb, all segmentation modes
    for ri in range(len(REPLY_POOL)):
        for percb in (False, True):
            sessions.append(([('GETINFO k%d' % ri, percb)], [REPLY_POOL[ri]]))
    for _ in range(nsess):
        k = rnd.randint(2, maxk)
        cmds = [(rnd.choice(['GETINFO version', b'GETCONF ORPort', 'SIGNAL NEWNYM', 'X' * rnd.randint(1, 40)]) , rnd.random() < 0.35)
                for _ in range(k)]
        reps = [rnd.choice(REPLY_POOL) for _ in range(k)]
        sessions.append((cmds, reps))
    # re-entrant submissions: a command's callback submits further commands while others are queued
    for _ in range(40 if tier == 'quick' else 400):
        k = rnd.randint(2, maxk)
        cmds = [('CMD%d' % i, rnd.random() < 0.3) for i in range(k)]
        reps = [rnd.choice(REPLY_POOL) for _ in range(k)]
        nchild = rnd.randint(1, 2)
        parent = rnd.randrange(k)
        kids = []
        for j in range(nchild):
            cmds.append(('CHILD%d' % j, rnd.random() < 0.3))
            reps.append(rnd.choice(REPLY_POOL))
            kids.append(len(cmds) - 1)
        stream = b''.join(CS.encode_reply(c, p) for c, p in reps)
        for mode in ('whole', 'lines', 'bytes'):
            for chunks in CS.segmentations(stream, mode, rnd, 1):
                cuts = list(itertools.accumulate(len(c) for c in chunks))[:-1]
                v = run_session(cmds, reps, [0] * k + [None] * nchild, cuts, {parent: kids})
                evaluations += 1
                distinct.add((tuple(cmds), tuple(map(repr, reps)), 'reentrant', parent, tuple(cuts)))
                violations.extend(v)
    for cmds, reps in sessions:
        stream = b''.join(CS.encode_reply(c, p) for c, p in reps)
        ends = list(itertools.accumulate(len(CS.encode_reply(c, p)) for c, p in reps))
        starts = [0] + ends[:-1]
        plans = [[0] * len(cmds), list(starts)]
        plan = []
        lo = 0
        for i in range(len(cmds)):
            lo = rnd.randint(lo, starts[i])
            plan.append(lo)
        plans.append(plan)
        for plan in plans:
            for mode in ('whole', 'lines', 'bytes', 'crlf_split', 'random'):
                for chunks in CS.segmentations(stream, mode, rnd, 2):
                    cuts = list(itertools.accumulate(len(c) for c in chunks))[:-1]
                    v = run_session(cmds, reps, plan, cuts)
                    evaluations += 1
                    distinct.add((tuple(cmds), tuple(map(repr, reps)), tuple(plan), tuple(cuts)))
                    violations.extend(v)
                    if len(samples) < 3 and len(cmds) > 1 and mode == 'random':
                        samples.append({'cmds': [repr(c) for c in cmds], 'reply_codes': [c for c, _ in reps], 'submit_at': plan, 'cuts': cuts})
    return {'evaluations': evaluations, 'distinct_nontrivial': len(distinct), 'samples': samples, 'violations': violations,
            'rule': 'one evaluation = one session (1..%d commands plain/per-line-callback, replies from a pool of 9 shapes incl. data blocks with '
                    'status look-alike and dot-stuffed lines, 2xx/5xx) x submission plan x segmentation, on the real TorControlProtocol; '
                    'all are non-trivial; distinct by (commands, replies, plan, cuts); plus the A1 conformance runs of LineOnlyReceiver' % maxk,
            'bounds': '<= %d commands per session, %d seeded sessions + all single-reply shapes; segmentations whole/lines/bytes/CR|LF split/seeded random; '
                      'submission plans: all upfront, each just before its reply, seeded random' % (maxk, nsess)}


def replay(unit, name, model):
    """replay a counterexample of a lineReceived / queue_command unit on the real protocol:
    reach the FSM state through the public API with a scripted prefix, then deliver the line."""
    from twin import control_session as CS
    if 'lineReceived' not in unit:
        return {'reproduced': False, 'what': 'no native replay for this unit'}
    st, kind = unit.split('@')[1].split('/')
    line = model.get('line')
    if not isinstance(line, str):
        return {'reproduced': False, 'what': 'no line in model'}
    resp0 = model.get('response0') if isinstance(model.get('response0'), str) else ''
    proto, t = CS.make_proto()
    seen = []
    d = proto.queue_command('GETINFO x', seen.append) if kind == 'percb' else proto.queue_command('GETINFO x')
    rec = CS.Recorder(d)
    code0 = model.get('code0') if isinstance(model.get('code0'), int) and 200 <= model.get('code0') < 600 else 250
    prefix = []
    if st == 'RECV':
        prefix = ['%d-first' % code0]
    elif st == 'RECV_PLUS':
        prefix = ['%d+k=' % code0]
    try:
        for l in prefix:
            proto.dataReceived(l.encode('ascii') + b'\r\n')
        proto.dataReceived(line.encode('ascii') + b'\r\n')
        tail = []
        if st == 'RECV_PLUS' or line[3:4] == '+':
            tail = ['after', '.', '%d OK' % code0]
        elif line[3:4] == '-' or st == 'RECV' and line[3:4] != ' ':
            tail = ['%d OK' % code0]
        if st == 'RECV_PLUS' and line == '.':
            tail = ['%d OK' % code0]
        for l in tail:
            proto.dataReceived(l.encode('ascii') + b'\r\n')
    except Exception as e:
        return {'reproduced': True, 'what': 'exception out of dataReceived: %r' % (e,), 'history': {'lines': prefix + [line]}}
    # reference: what should have come out
    if st == 'RECV_PLUS':
        if line == '.':
            exp_lines = ['k=']
        else:
            exp_lines = ['k=', line[1:] if line.startswith('.') else line, 'after']
        expected = '\n'.join(exp_lines)
        got = rec.results
        if kind == 'percb':
            ok = seen == exp_lines + ['OK']
            return {'reproduced': not ok, 'what': 'per-line callback saw %r expected %r' % (seen, exp_lines + ['OK']),
                    'history': {'lines': prefix + [line] + tail}}
        ok = got == [('ok', expected)]
        return {'reproduced': not ok, 'what': 'reply resolved as %r expected %r' % (got, expected),
                'history': {'lines': prefix + [line] + tail}}
    return {'reproduced': False, 'what': 'replay only implemented for data-block lines', 'history': {'lines': prefix + [line]}}


def replay_file(doc):
    if doc.get('kind') == 'twin':
        h = doc['violation']['history']
        if 'stream' in h:
            return {'reproduced': False}
        cmds = [(c, p) for c, p in h['cmds']]
        reps = [(c, [tuple(x if not isinstance(x, list) else x for x in p) for p in parts]) for c, parts in h['replies']]
        v = run_session(cmds, reps, h['submit_at'], h['cuts'], h.get('children'))
        return {'reproduced': bool(v), 'native_violations': v[:3]}
    unit, name = doc['obligation'].split('::')
    return replay(unit, name, doc['model'])
