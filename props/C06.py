"""C06 -- SOCKS5 requests are RFC 1928 well-formed for every target and port.

Proof units: the three request encoders (reached through the real automat input
version_reply from state sent_version) against rfc_request(cmd, atyp, addr, port), for
symbolic host / port; the version message; nothing is sent from any other state."""
import z3

from pyvc.exec import Raise, Unsupported
from pyvc.sym import (VInt, VBool, VStr, VBytes, VNone, NONE, VTuple, VInst, VOpaque, VUnion, VConc, VFunc,
                      concrete_of, mk_str, zand, zor)
from pyvc import extract
from contracts import socks as C
from props import C05 as P5

PROP = 'C06'
MODULE = 'txtorcon.socks'
REQ_TYPES = ['CONNECT', 'RESOLVE', 'RESOLVE_PTR']
KINDS = ['v4', 'v6', 'name']
CMD = {'CONNECT': 1, 'RESOLVE': 0xF0, 'RESOLVE_PTR': 0xF1}
FUNCS = ['_SocksMachine._send_version', '_SocksMachine._send_request', '_SocksMachine._send_connect_request',
         '_SocksMachine._send_resolve_request', '_SocksMachine._send_resolve_ptr_request',
         '_SocksMachine._data_to_send', '_create_ip_address', '_SocksMachine.__init__']

F_CONNECT_V6 = 'connect-ipv6-truncated-address'

TRUSTED = P5.TRUSTED + [
    'ipaddress.ip_address / inet_pton / inet_aton: classifier into v4 / v6 / not-an-address giving 4 / 16 bytes (uninterpreted, A7)',
    'struct.pack exact for B, H, Ns incl. truncation/padding of Ns; native byte order little-endian',
]
LEVEL = 'proof'
MANIFEST = {
    'category': 'proof',
    'technique': 'contract-based deductive verification: postconditions of the real request encoders against an RFC 1928 spec function (pyvc VCs from the /repo AST, z3/cvc5); bounded CPython twin with an independent request parser',
    'text': 'For symbolic host string and port in 0..65535 the bytes handed to the transport by _send_connect_request / '
            '_send_resolve_request / _send_resolve_ptr_request (reached through the real automat dispatch) are proved equal to '
            'rfc_request(cmd, atyp, addr, port), or an exception is raised with nothing sent when the name is over-long or non-ASCII; '
            'the version message is proved to be exactly 05 01 00 and no handler sends anything in any other state. '
            'Unbounded in host length and port; that is the quantifier of the property.',
    'level_note': 'Assumed (A): ipaddress/inet_pton classifier (uninterpreted), automat dispatch, struct native order. Bounded (B): twin over boundary '
                  'and seeded hosts/ports decoded by an independent RFC 1928 parser. Known finding: IPv6 CONNECT packs 4 of 16 address bytes '
                  '(pinned by test_socks_ipv6), region excluded and reported as KNOWN-FINDING.',
}


def make_models():
    return C.SocksModels()


def make_models_for(unit_name):
    if unit_name.endswith('TorClientEndpoint.connect'):
        from props import C18
        return C18.Models18()
    return C.SocksModels()


def unit_socks_endpoint_init():
    """TorSocksEndpoint(proxy, host, port): the host the machine will be asked to encode is the caller's host - a bytes host is
    decoded as ASCII or refused, never silently altered"""
    def run(ctx):
        ctx.fn(MODULE, 'TorSocksEndpoint.__init__')
        import txtorcon.socks as socks
        from pyvc.sym import VInst
        ex = ctx.ex
        path = ctx.new_path()
        e = ex.new_inst(path, socks.TorSocksEndpoint)
        host = z3.String('host')
        as_bytes = z3.Bool('host_given_as_bytes')
        ctx.input('host', VStr(host))
        ctx.input('host_given_as_bytes', as_bytes)
        port = z3.Int('port')
        arg = VUnion([(as_bytes, VBytes(host)), (z3.Not(as_bytes), VStr(host))])
        ascii_ok = z3.InRe(host, z3.Star(z3.Range(mk_str('\x00'), mk_str('\x7f'))))
        ctx.cover('pre_satisfiable', path)
        g = ex.getattr_v(path, e, '__init__')
        n_ok = 0
        for p, r in ex.call(g[0][0], g[0][1], [VOpaque('proxy_endpoint', 1), arg, VInt(port)], {}):
            if isinstance(r, Raise):
                ctx.oblige('post.refused_only_for_a_bytes_host_that_is_not_ascii', p, z3.And(as_bytes, z3.Not(ascii_ok)),
                           clause='targets that cannot be encoded are refused with an error rather than sent mangled')
                continue
            n_ok += 1
            h = p.heap.get(('f', e.oid, '_host'))
            po = p.heap.get(('f', e.oid, '_port'))
            ok = isinstance(h, VStr) and isinstance(po, VInt)
            ctx.oblige('post.machine_is_given_the_callers_host_text_and_port', p,
                       zand(B(ok), h.t == host, po.t == port, z3.Implies(as_bytes, ascii_ok)) if ok else B(False),
                       clause='non-ASCII names are refused with an error rather than sent mangled')
        if not n_ok:
            ctx.oblige('some_normal_exit', path, B(False))
    return run


def B(x):
    return z3.BoolVal(bool(x))


def ch(n):
    return z3.StrFromCode(n) if not isinstance(n, int) else mk_str(chr(n))


def rfc_request(cmd, atyp, addr, port):
    return z3.Concat(ch(5), ch(cmd), ch(0), ch(atyp), addr, ch(port / 256), ch(port % 256))


def unit_request(req_type, kind):
    def run(ctx):
        for q in FUNCS:
            try:
                ctx.fn(MODULE, q)
            except KeyError:
                ctx.notes.append('function %s not found' % q)
        ex = ctx.ex
        path = ctx.new_path()
        addr, host, port = C.make_addr(ctx, path, kind)
        path.assume(z3.And(port >= 0, port <= 65535))
        m, pre = C.make_machine(ctx, path, 'sent_version', req_type, addr=addr)
        path.assume(z3.Length(pre['data0']) == 0)
        ctx.cover('pre_satisfiable', path)
        if req_type == 'CONNECT' and kind == 'v6':
            ctx.region(F_CONNECT_V6, z3.BoolVal(True))
        outs = ex.getattr_v(path, m, 'version_reply')
        outs = ex.call(outs[0][0], outs[0][1], [VInt(0)], {})
        ascii_ok = z3.InRe(host, z3.Star(z3.Range(mk_str('\x00'), mk_str('\x7f'))))
        n = z3.Length(host)
        name_addr = z3.Concat(z3.StrFromCode(n), host)
        if req_type == 'CONNECT':
            if kind == 'v4':
                encodable, want = B(True), rfc_request(1, 1, C.F_pton4(host), port)
            elif kind == 'v6':
                encodable, want = B(True), rfc_request(1, 4, C.F_pton6(host), port)
            else:
                encodable, want = z3.And(ascii_ok, n <= 255), rfc_request(1, 3, name_addr, port)
        elif req_type == 'RESOLVE':
            encodable, want = z3.And(ascii_ok, n <= 255), rfc_request(0xF0, 3, name_addr, z3.IntVal(0))
        else:
            if kind == 'v4':
                encodable, want = B(True), rfc_request(0xF1, 1, C.F_pton4(host), z3.IntVal(0))
            elif kind == 'v6':
                encodable, want = B(True), rfc_request(0xF1, 4, C.F_pton6(host), z3.IntVal(0))
            else:
                encodable, want = B(False), None
        any_normal = False
        for p, r in outs:
            sent = ctx.models.glog(p, 'sent')
            ok, st = concrete_of(p.heap[('f', m.oid, '_state')])
            if isinstance(r, Raise):
                ctx.oblige('post.refusal_only_for_unencodable_target', p, z3.Not(encodable),
                           clause='every encodable target is sent')
                ctx.oblige('post.refused_target_sends_nothing', p, B(len(sent) == 0),
                           clause='unencodable targets are refused with an error rather than sent mangled')
                continue
            any_normal = True
            ctx.oblige('post.unencodable_target_is_refused', p, encodable,
                       clause='over-long or non-ASCII names are refused with an error')
            ctx.oblige('post.exactly_one_request', p, B(len(sent) == 1), clause='exactly one request')
            if len(sent) == 1 and want is not None and isinstance(sent[0], VBytes):
                ctx.oblige('post.request_bytes_are_rfc1928', p, z3.Implies(encodable, sent[0].t == want),
                           clause='right command code, address type, full-length address, port in network byte order')
            else:
                ctx.oblige('post.request_bytes_are_rfc1928', p, z3.Not(encodable))
            ctx.oblige('post.state_sent_request', p, B(st == 'sent_request'))
        if not outs:
            ctx.oblige('some_exit', path, B(False))
    return run


def unit_create_ip_address(kind):
    """_create_ip_address(host, port): the address object the machine is built around names exactly the host text the caller
    gave (make_addr, used by the request units, assumes this shape)"""
    def run(ctx):
        ctx.fn(MODULE, '_create_ip_address')
        from twisted.internet.address import IPv4Address, IPv6Address, HostnameAddress
        from pyvc import extract
        from pyvc.sym import VFunc, VInst, VStr as _VStr
        ex = ctx.ex
        path = ctx.new_path()
        host, port = z3.String('host'), z3.Int('port')
        ctx.input('host', VStr(host))
        ctx.input('port', port)
        fam = {'v4': 4, 'v6': 6, 'name': 0}[kind]
        if kind == 'name':
            path.assume(z3.And(C.F_family(host) != 4, C.F_family(host) != 6))
        else:
            path.assume(C.F_family(host) == fam)
        ctx.cover('pre_satisfiable', path)
        mi, node = extract.find(MODULE, '_create_ip_address')
        f = VFunc(node, MODULE, '_create_ip_address')
        want = {'v4': IPv4Address, 'v6': IPv6Address, 'name': HostnameAddress}[kind]
        n_ok = 0
        for p, r in ex.call(path, f, [VStr(host), VInt(port)], {}):
            if isinstance(r, Raise):
                ctx.oblige('no_exception', p, B(False), clause='every encodable target is sent')
                continue
            n_ok += 1
            ok = isinstance(r, VInst) and r.cls is want
            h = p.heap.get(('f', r.oid, 'host')) if ok else None
            pt = p.heap.get(('f', r.oid, 'port')) if ok else None
            ctx.oblige('post.address_object_of_the_literal_family_with_the_host_text_verbatim', p,
                       zand(B(ok and isinstance(h, _VStr) and isinstance(pt, VInt)), h.t == host, pt.t == port) if ok and isinstance(h, _VStr) and isinstance(pt, VInt) else B(False),
                       clause='right address type, full-length address: an IPv4 literal is sent as IPv4, an IPv6 literal as IPv6, anything else as a name')
        if not n_ok:
            ctx.oblige('some_normal_exit', path, B(False))
    return run


def unit_connection(req_type):
    def run(ctx):
        ctx.fn(MODULE, '_SocksMachine._send_version')
        ex = ctx.ex
        path = ctx.new_path()
        m, pre = C.make_machine(ctx, path, 'unconnected', req_type)
        path.assume(z3.Length(pre['data0']) == 0)
        path.assume(z3.Not(pre['fired0']))
        ctx.cover('pre_satisfiable', path)
        outs = ex.getattr_v(path, m, 'connection')
        outs = ex.call(outs[0][0], outs[0][1], [], {})
        for p, r in outs:
            if isinstance(r, Raise):
                ctx.oblige('no_exception', p, B(False))
                continue
            sent = ctx.models.glog(p, 'sent')
            ok, st = concrete_of(p.heap[('f', m.oid, '_state')])
            ctx.oblige('post.version_message_is_05_01_00', p,
                       B(len(sent) == 1 and isinstance(sent[0], VBytes) and concrete_of(sent[0]) == (True, b'\x05\x01\x00')),
                       clause="exactly the method-selection message offering 'no authentication'")
            ctx.oblige('post.state_sent_version', p, B(st == 'sent_version'))
    return run


def unit_no_send(handler, state, req_type):
    """nothing is written by feed_data / disconnected outside sent_version"""
    def run(ctx):
        ctx.fn(MODULE, '_SocksMachine.feed_data')
        ex = ctx.ex
        path = ctx.new_path()
        m, pre = C.make_machine(ctx, path, state, req_type)
        ctx.cover('pre_satisfiable', path)
        if handler == 'feed_data':
            chunk = z3.String('chunk')
            path.assume(z3.Length(chunk) > 0)
            ctx.lazy_assume(C.all_bytes(chunk))
            ctx.input('chunk', VBytes(chunk))
            outs = ex.getattr_v(path, m, 'feed_data')
            outs = ex.call(outs[0][0], outs[0][1], [VBytes(chunk)], {})
        else:
            import txtorcon.socks as socks
            err = ex.new_inst(path, socks.SocksError, args=VTuple([VStr('lost')]))
            outs = ex.getattr_v(path, m, 'disconnected')
            outs = ex.call(outs[0][0], outs[0][1], [err], {})
        for p, r in outs:
            sent = ctx.models.glog(p, 'sent')
            ctx.oblige('post.nothing_sent', p, B(len(sent) == 0),
                       clause='the request is sent only after the server selects the method, exactly once')
    return run


def unit_method_gate(req_type):
    """from sent_version: a request is written only when the buffered method reply is 05 00"""
    def run(ctx):
        ctx.fn(MODULE, '_SocksMachine._parse_version_reply')
        ctx.fn(MODULE, '_SocksMachine._send_request')
        ex = ctx.ex
        path = ctx.new_path()
        m, pre = C.make_machine(ctx, path, 'sent_version', req_type)
        chunk = z3.String('chunk')
        path.assume(z3.Length(chunk) > 0)
        ctx.lazy_assume(C.all_bytes(chunk))
        ctx.input('chunk', VBytes(chunk))
        ctx.cover('pre_satisfiable', path)
        D = z3.Concat(pre['data0'], chunk)
        selected = z3.And(z3.Length(D) >= 2, C.byte_at(D, 0) == 5, C.byte_at(D, 1) == 0)
        outs = ex.getattr_v(path, m, 'feed_data')
        outs = ex.call(outs[0][0], outs[0][1], [VBytes(chunk)], {})
        for p, r in outs:
            sent = ctx.models.glog(p, 'sent')
            ctx.oblige('post.request_only_after_method_0_selected', p, z3.Implies(B(len(sent) > 0), selected),
                       clause='the request is sent only after the server selects "no authentication"')
            ctx.oblige('post.at_most_one_request', p, B(len(sent) <= 1), clause='exactly one request')
            if not isinstance(r, Raise):
                ctx.oblige('post.selected_method_sends_request', p, z3.Implies(selected, B(len(sent) == 1)),
                           clause='exactly one request')
    return run


def units():
    out = []
    for rt in REQ_TYPES:
        out.append(('C06/connection@unconnected/%s' % rt, unit_connection(rt)))
        out.append(('C06/method_gate@sent_version/%s' % rt, unit_method_gate(rt)))
        for k in KINDS:
            out.append(('C06/request/%s/%s' % (rt, k), unit_request(rt, k)))
        for st in ['sent_request', 'relaying', 'abort']:
            if st == 'relaying' and rt != 'CONNECT':
                continue
            out.append(('C06/feed_data_sends_nothing@%s/%s' % (st, rt), unit_no_send('feed_data', st, rt)))
        for st in ['sent_version', 'sent_request', 'relaying', 'abort', 'done']:
            if st == 'relaying' and rt != 'CONNECT':
                continue
            out.append(('C06/disconnected_sends_nothing@%s/%s' % (st, rt), unit_no_send('disconnected', st, rt)))
    for k in KINDS:
        out.append(('C06/_create_ip_address/%s' % k, unit_create_ip_address(k)))
    # the endpoint that feeds the machine its target: the caller's host and port, not the proxy's (contract shared with C18)
    from props import C18
    out.append(('C06/TorClientEndpoint.connect', C18.unit_connect()))
    out.append(('C06/TorSocksEndpoint.__init__', unit_socks_endpoint_init()))
    return out


# ==========================================================================================
# bounded twin: independent RFC 1928 request parser over hosts x ports x request types

def parse_request(b):
    """independent decoder of a SOCKS5 request -> dict or raises ValueError"""
    import socket
    if len(b) < 4:
        raise ValueError('short request')
    ver, cmd, rsv, atyp = b[0], b[1], b[2], b[3]
    if ver != 5 or rsv != 0:
        raise ValueError('bad version/reserved')
    if atyp == 1:
        a, rest = b[4:8], b[8:]
        if len(a) != 4:
            raise ValueError('short v4')
        addr = ('v4', socket.inet_ntop(socket.AF_INET, a))
    elif atyp == 4:
        a, rest = b[4:20], b[20:]
        if len(a) != 16:
            raise ValueError('short v6')
        addr = ('v6', socket.inet_ntop(socket.AF_INET6, a))
    elif atyp == 3:
        if len(b) < 5:
            raise ValueError('short name')
        n = b[4]
        a, rest = b[5:5 + n], b[5 + n:]
        if len(a) != n:
            raise ValueError('short name')
        addr = ('name', a)
    else:
        raise ValueError('bad atyp')
    if len(rest) != 2:
        raise ValueError('request has %d bytes after the address, expected 2' % len(rest))
    return {'cmd': cmd, 'addr': addr, 'port': rest[0] * 256 + rest[1]}


class _Sink(object):
    def dataReceived(self, d):
        pass

    def connectionLost(self, r):
        pass


def kind_of(host):
    import ipaddress
    try:
        a = ipaddress.ip_address(host)
    except ValueError:
        return 'name'
    return 'v4' if a.version == 4 else 'v6'


def run_request(req_type, host, port):
    """-> violations for one (type, target, port)"""
    import socket
    import txtorcon.socks as socks
    sent = []
    viol = []
    kind = kind_of(host)
    hist = {'req_type': req_type, 'host': host, 'port': port}

    def bad(clause, what):
        v = {'key': 'C06:%s:%s:%s' % (clause, req_type, kind), 'clause': clause, 'what': what, 'history': hist}
        if req_type == 'CONNECT' and kind == 'v6':
            v['finding'] = F_CONNECT_V6
        viol.append(v)
    try:
        m = socks._SocksMachine(req_type, host, port, on_data=sent.append, create_connection=lambda a, p: _Sink())
    except Exception as e:
        # refusing at construction is a refusal too
        m = None
        refused = e
    encodable = True
    if kind == 'name':
        try:
            hb = host.encode('ascii')
        except UnicodeError:
            encodable = False
            hb = None
        if hb is not None and len(hb) > 255:
            encodable = False
        if req_type == 'RESOLVE_PTR':
            encodable = False
    elif req_type == 'RESOLVE':
        hb = host.encode('ascii')
    if m is None:
        if encodable:
            bad('encodable_target_refused', 'constructor raised %r' % (refused,))
        return viol
    m.connection()
    if sent != [b'\x05\x01\x00']:
        bad('version_message', 'sent %r' % (sent,))
    del sent[:]
    for bad_reply in (b'\x05\x02', b'\x05\xff', b'\x05\x01', b'\x04\x00'):
        sent2 = []
        try:
            m2 = socks._SocksMachine(req_type, host, port, on_data=sent2.append, create_connection=lambda a, p: _Sink())
            m2.connection()
            del sent2[:]
            try:
                m2.feed_data(bad_reply)
            except Exception:
                pass
            if sent2:
                bad('request_without_method_0_selected', 'method reply %s: sent %s' % (bad_reply.hex(), b''.join(sent2).hex()))
        except Exception:
            pass
    m.feed_data(b'\x05')
    if sent:
        bad('request_before_method_selected', 'sent %r after one byte of the method reply' % (sent,))
    try:
        m.feed_data(b'\x00')
        raised = None
    except Exception as e:
        raised = e
    if not encodable:
        if sent:
            bad('unencodable_target_sent', 'sent %s for target %r' % (b''.join(sent).hex(), host))
        elif raised is None:
            bad('unencodable_target_not_refused', 'no error for target %r' % (host,))
        return viol
    if raised is not None:
        bad('encodable_target_refused', '%r' % (raised,))
        return viol
    if len(sent) != 1:
        bad('exactly_one_request', 'sent %r' % (sent,))
        return viol
    try:
        req = parse_request(sent[0])
    except ValueError as e:
        bad('request_well_formed', '%s: %s' % (e, sent[0].hex()))
        return viol
    if req['cmd'] != CMD[req_type]:
        bad('command_code', '%r' % req)
    if req_type == 'RESOLVE' or kind == 'name':
        want = ('name', hb)
    elif kind == 'v4':
        want = ('v4', socket.inet_ntop(socket.AF_INET, socket.inet_pton(socket.AF_INET, host)))
    else:
        want = ('v6', socket.inet_ntop(socket.AF_INET6, socket.inet_pton(socket.AF_INET6, host)))
    if req['addr'] != want:
        bad('address', 'decoded %r expected %r' % (req['addr'], want))
    wport = port if req_type == 'CONNECT' else 0
    if req['port'] != wport:
        bad('port_network_order', 'decoded port %d expected %d' % (req['port'], wport))
    # nothing more is ever sent
    del sent[:]
    m.feed_data(b'\x05\x00\x00\x01' + b'\x00' * 6 + b'x')
    if sent:
        bad('request_sent_twice', 'sent %r after the reply' % (sent,))
    return viol


def twin(tier, seed):
    import random
    rnd = random.Random(seed)
    hosts = ['a', 'example.com', 'x' * 255, 'x' * 256, 'y' * 300, 'café.example', '例え.jp', 'a b', '',
             '1.2.3.4', '0.0.0.0', '255.255.255.255', '127.0.0.1', '10.0.0.256', '1.2.3',
             '::1', '::', '2001:db8::1', 'fe80::1234:5678:9abc:def0', 'ffff:ffff:ffff:ffff:ffff:ffff:ffff:ffff',
             '::ffff:1.2.3.4', 'timaq4ygg2iegci7.onion']
    for _ in range(10 if tier == 'quick' else 100):
        n = rnd.choice([1, 2, 63, 64, 200, 254, 255, 256, 257])
        hosts.append(''.join(rnd.choice('abcdefghijklmnopqrstuvwxyz0123456789-.') for _ in range(n)))
        hosts.append('.'.join(str(rnd.randrange(256)) for _ in range(4)))
        hosts.append(':'.join('%x' % rnd.randrange(65536) for _ in range(8)))
    hosts = [h for h in hosts if h != '']   # empty host: constructor-level concern, not an encodable target
    ports = [0, 1, 80, 255, 256, 443, 1024, 9050, 32767, 32768, 65280, 65535]
    ports += [rnd.randrange(65536) for _ in range(20 if tier == 'quick' else 0)]
    evaluations = 0
    distinct = set()
    violations = []
    samples = []
    for rt in REQ_TYPES:
        for h in hosts:
            ps = ports if tier == 'quick' else (range(65536) if h in ('example.com', '1.2.3.4', '2001:db8::1') else ports)
            for p in ps:
                if rt != 'CONNECT' and p not in (0, 443):
                    continue
                v = run_request(rt, h, p)
                evaluations += 1
                distinct.add((rt, h, p))
                violations.extend(v)
                if len(samples) < 3 and p == 443:
                    samples.append({'req_type': rt, 'host': h[:40], 'port': p})
    return {'evaluations': evaluations, 'distinct_nontrivial': len(distinct), 'samples': samples, 'violations': violations,
            'rule': 'one evaluation = one (request type, target, port) driven through the real _SocksMachine (connection, method reply '
                    'split in two segments, reply) with every byte sent decoded by an independent RFC 1928 request parser; all are '
                    'non-trivial; distinct by (type, target, port)',
            'bounds': '%d targets (boundary lengths 255/256, non-ASCII, v4/v6 literals, seeded random) x %s ports x 3 request types' % (
                len(hosts), '32 boundary+seeded' if tier == 'quick' else 'all 65536 (for 3 targets) / boundary')}


def replay(unit, name, model):
    parts = unit.split('/')
    if parts[1].startswith('method_gate'):
        import txtorcon.socks as socks
        rt = parts[2]

        def by(x):
            return bytes.fromhex(x['bytes_hex']) if isinstance(x, dict) and 'bytes_hex' in x else b''
        chunks = [c for c in (by(model.get('data0')), by(model.get('chunk'))) if c]
        host = {'CONNECT': 'example.com', 'RESOLVE': 'example.com', 'RESOLVE_PTR': '1.2.3.4'}[rt]
        sent = []
        m = socks._SocksMachine(rt, host, 443, on_data=sent.append, create_connection=lambda a, p: _Sink())
        m.connection()
        del sent[:]
        err = None
        for c in chunks:
            try:
                m.feed_data(c)
            except Exception as e:
                err = repr(e)
                break
        D = b''.join(chunks)
        selected = D[:2] == b'\x05\x00'
        bad = (sent and not selected) or len(sent) > 1 or (selected and err is None and len(sent) != 1)
        return {'reproduced': bool(bad), 'history': {'req_type': rt, 'chunks': [c.hex() for c in chunks]},
                'what': 'method reply %s: client wrote %s' % (D[:2].hex(), b''.join(sent).hex()), 'finding': None}
    if parts[1] != 'request':
        return {'reproduced': False, 'what': 'no native replay for this unit'}
    rt, kind = parts[2], parts[3]
    host = model.get('host') or ''
    port = model.get('port') or 0
    if not isinstance(host, str):
        host = ''
    if kind == 'v4':
        host = '1.2.3.4'
    elif kind == 'v6':
        host = '2001:db8::1'
    elif kind_of(host) != 'name' or host == '':
        host = 'example.com'
    if not (0 <= port <= 65535):
        port = 443
    v = run_request(rt, host, port)
    return {'reproduced': bool(v), 'history': {'req_type': rt, 'host': host, 'port': port}, 'native_violations': v[:3],
            'what': v[0]['what'] if v else '', 'finding': v[0].get('finding') if v else None}


def replay_file(doc):
    if doc.get('kind') == 'twin':
        h = doc['violation']['history']
        v = run_request(h['req_type'], h['host'], h['port'])
        return {'reproduced': bool(v), 'native_violations': v[:3]}
    unit, name = doc['obligation'].split('::')
    return replay(unit, name, doc['model'])
