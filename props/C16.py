"""C16 -- relay view equals the latest consensus document, nothing carried over.

Proof units: identity codec lemmas (base64/hex uninterpreted with their inverse axioms);
TorState._create_router: every attribute of the (possibly re-used) Router object comes from
the entry, identity re-use, index updates; the reset block of _update_network_status empties
every index before the new document is parsed.  Parser line classification and whole documents
are checked by the bounded twin."""
import z3

from pyvc.exec import Raise, Unsupported
from pyvc.sym import (VInt, VBool, VStr, VBytes, VNone, NONE, VTuple, VInst, VOpaque, VUnion, VConc, VFunc, VSeq, VMap, VList,
                      VDictLit, concrete_of, mk_str, zand, zor, TStr, TMap, TOpt, TOpaque)
from pyvc import extract
from contracts.common import CommonModels
from contracts.onion import StopUnit

PROP = 'C16'
F_AUTH = 'authorities-keyed-by-nickname'
S = z3.StringSort()
F_b64d = z3.Function('b64decode', S, S)
F_b64e = z3.Function('b64encode', S, S)
F_hex = z3.Function('b2a_hex', S, S)
F_unhex = z3.Function('a2b_hex', S, S)
F_upper = z3.Function('str_upper', S, S)
TRUSTED = [
    'A7 base64 / binascii as uninterpreted functions with their inverse laws: a2b_hex(upper(b2a_hex(x))) = x, b2a_hex is lower-case hex, '
    'b64encode(b64decode(c)) = c for canonical padded text c, upper idempotent',
    'Router objects of the previous document are looked up by identity in _old_routers (dict semantics)',
    'parser line classification and whole-document behaviour: bounded twin only',
    'pyvc semantics; z3/cvc5',
]
LEVEL = 'proof'
MANIFEST = {
    'category': 'proof',
    'technique': 'contract-based deductive verification of _create_router (no carry-over on a re-used Router, identity re-use, index updates), the reset block of _update_network_status and the identity codec lemmas over uninterpreted base64/hex (pyvc VCs, z3/cvc5); bounded CPython twin over document sequences',
    'text': 'Proved: for a Router object re-used from the previous document with arbitrary old contents, after _create_router its nickname, hashes, address, '
            'ports, bandwidth (0 when no w line) and IPv6 list (exactly the a lines) equal the entry, the object identity is kept and it is registered under its '
            '$hex id in routers / routers_by_hash; a fresh object is made for an unknown identity. The reset block of _update_network_status leaves routers, '
            'routers_by_hash, routers_by_name, all_routers, guards and authorities empty before the new document is parsed. Codec: hashFromHexId(hexIdFromHash(b)) = b '
            'for canonical b and hexIdFromHash(hashFromHexId(h)) = "$" + upper(h) for hex h.',
    'level_note': 'Assumed (A): base64/hex inverse laws (uninterpreted). Bounded (B): line classification of MicrodescriptorParser, guard/authority membership by flag, '
                  'duplicate-nickname handling and sequences of documents - in the twin. Known finding: authorities is keyed by nickname (two authorities sharing a nickname).',
}


def B(x):
    return z3.BoolVal(bool(x))


class Models16(CommonModels):
    def callable_(self, ex, path, obj, args, kw):
        import base64
        import binascii
        if obj is base64.b64decode:
            a = args[0]
            return [(path, VBytes(F_b64d(a.t)))]
        if obj is base64.b64encode:
            return [(path, VBytes(F_b64e(args[0].t)))]
        if obj in (binascii.b2a_hex, binascii.hexlify):
            return [(path, VBytes(F_hex(args[0].t)))]
        if obj in (binascii.a2b_hex, binascii.unhexlify):
            return [(path, VBytes(F_unhex(args[0].t)))]
        if obj is set and not args:
            return [(path, VOpaque('emptyset', 0))]
        return CommonModels.callable_(self, ex, path, obj, args, kw)

    def str_method(self, ex, path, s, name, args, kw):
        if name == 'hex' and not args and isinstance(s, VBytes) and not concrete_of(s)[0]:
            return [(path, VStr(F_hex(s.t)))]        # bytes.hex() == b2a_hex(bytes).decode('ascii')
        if name == 'upper' and not args:
            return [(path, type(s)(F_upper(s.t)))]
        if name in ('decode', 'encode') and not concrete_of(s)[0]:
            # hex / base64 text is ASCII (A7)
            other = VStr if isinstance(s, VBytes) else VBytes
            return [(path, other(s.t))]
        return CommonModels.str_method(self, ex, path, s, name, args, kw)

    def split_hook(self, ex, path, s, args, kw):
        if len(args) == 1 and concrete_of(args[0]) == (True, '\n'):
            return [(path, VOpaque('lines', 0))]
        return CommonModels.split_hook(self, ex, path, s, args, kw)

    def loop(self, ex, path, fr, st, it, ordinal):
        q = fr.func.qualname if fr.func is not None else ''
        if q.endswith('_update_network_status') and isinstance(it, VOpaque) and it.kind == 'lines':
            self.at_loop(ex, path, fr)
            raise StopUnit()
        return None

    def opaque_attr(self, ex, path, obj, name):
        from pyvc.sym import VBoundExt
        return [(path, VBoundExt(obj, name))]

    def method(self, ex, path, recv, name, args, kw):
        if isinstance(recv, VOpaque) and recv.kind == 'allset' and name == 'add':
            self.glog_add(path, 'all_routers_added', args[0])
            return [(path, NONE)]
        return CommonModels.method(self, ex, path, recv, name, args, kw)


def make_models():
    return Models16()


def unit_codec(direction):
    def run(ctx):
        ctx.fn('txtorcon.router', 'hexIdFromHash')
        ctx.fn('txtorcon.router', 'hashFromHexId')
        ex = ctx.ex
        path = ctx.new_path()
        mi, n1 = extract.find('txtorcon.router', 'hexIdFromHash')
        mi, n2 = extract.find('txtorcon.router', 'hashFromHexId')
        f1 = VFunc(n1, 'txtorcon.router', 'hexIdFromHash')
        f2 = VFunc(n2, 'txtorcon.router', 'hashFromHexId')
        x = z3.String('x')
        # inverse laws (A7), instantiated at the terms that occur
        def laws(p, raw):
            p.assume(F_unhex(F_upper(F_hex(raw))) == raw)
            p.assume(F_unhex(F_hex(raw)) == raw)
        if direction == 'b64_hex_b64':
            b = z3.String('b')
            ctx.input('b', VStr(b))
            padded = z3.Concat(b, mk_str('='))
            raw = F_b64d(padded)
            path.assume(F_b64e(raw) == padded)          # b is canonical: re-encoding gives b + '='
            laws(path, raw)
            # the '$' + HEX text does not start with a second '$' (hex digits)
            path.assume(z3.Not(z3.PrefixOf(mk_str('$'), F_upper(F_hex(raw)))))
            path.assume(z3.Length(F_upper(F_hex(raw))) > 0)
            ctx.cover('pre_satisfiable', path)
            for p, h in ex.call(path, f1, [VStr(b)], {}):
                if isinstance(h, Raise):
                    ctx.oblige('no_exception', p, B(False))
                    continue
                for p2, back in ex.call(p, f2, [h], {}):
                    ctx.oblige('post.hash_from_hex_of_hex_from_hash_is_identity', p2,
                               B(False) if isinstance(back, Raise) else back.t == b,
                               clause='identity conversion between the base64 form and the $hex fingerprint is a bijection')
        else:
            h = z3.String('h')
            ctx.input('h', VStr(h))
            dollar = z3.Bool('with_dollar')
            arg = z3.If(dollar, z3.Concat(mk_str('$'), h), h)
            path.assume(z3.Length(h) > 0)
            path.assume(z3.Not(z3.PrefixOf(mk_str('$'), h)))
            raw = F_unhex(h)
            enc = F_b64e(raw)
            # laws: b2a_hex(a2b_hex(h)) upper-cases to upper(h) for hex text h; b64decode(b64encode(x)) = x;
            # base64 of 20 bytes ends with exactly one '='
            path.assume(F_upper(F_hex(raw)) == F_upper(h))
            path.assume(F_b64d(enc) == raw)
            path.assume(z3.SuffixOf(mk_str('='), enc))
            ctx.cover('pre_satisfiable', path)
            for p, b in ex.call(path, f2, [VStr(arg)], {}):
                if isinstance(b, Raise):
                    ctx.oblige('no_exception', p, B(False))
                    continue
                for p2, back in ex.call(p, f1, [b], {}):
                    ctx.oblige('post.hex_from_hash_of_hash_from_hex_is_dollar_upper', p2,
                               B(False) if isinstance(back, Raise) else back.t == z3.Concat(mk_str('$'), F_upper(h)),
                               clause='identity conversion between the base64 form and the $hex fingerprint is a bijection')
    return run


TR = TOpaque('Router')


def unit_create_router(reuse, with_w, with_a, name_state=None):
    """name_state: None (empty indexes) | 'once' (the nickname is already listed for one other relay of this document) |
    'marked' (already marked as shared by several relays)"""
    def run(ctx):
        ctx.fn('txtorcon.torstate', 'TorState._create_router')
        ctx.fn('txtorcon.router', 'Router.update')
        ctx.fn('txtorcon.router', 'Router.__init__')
        import txtorcon.torstate as ts
        import txtorcon.router as rt
        ex = ctx.ex
        path = ctx.new_path()
        H = path.heap
        st = ex.new_inst(path, ts.TorState)
        o = st.oid
        idhash = z3.String('idhash')
        id_hex = z3.Concat(mk_str('$'), F_upper(F_hex(F_b64d(z3.Concat(idhash, mk_str('='))))))
        kwpairs = []
        vals = {}
        for k in ('nickname', 'idhash', 'orhash', 'modified', 'ip', 'orport', 'dirport'):
            vals[k] = z3.String('kw_' + k) if k != 'idhash' else idhash
            kwpairs.append((VStr(k), VStr(vals[k])))
        kwpairs.append((VStr('flags'), ex.new_list(path, [])))
        if with_w:
            vals['bandwidth'] = z3.String('kw_bandwidth')
            path.assume(z3.InRe(vals['bandwidth'], z3.Plus(z3.Range('0', '9'))))
            kwpairs.append((VStr('bandwidth'), VStr(vals['bandwidth'])))
        if with_a:
            a1 = z3.String('a1')
            kwpairs.append((VStr('ip_v6'), ex.new_list(path, [VStr(a1)])))
        # maps holding Router objects by python identity: concrete-spine dicts
        old = None
        if reuse:
            old = ex.new_inst(path, rt.Router)
            H[('f', old.oid, '_flags')] = ex.new_list(path, [VStr(z3.String('oldflag'))])
            H[('f', old.oid, '_bandwidth')] = VInt(z3.Int('oldbw'))
            H[('f', old.oid, 'ip_v6')] = ex.new_list(path, [VStr(z3.String('old_a'))])
            H[('f', old.oid, 'name')] = VStr(z3.String('oldname'))
            H[('f', old.oid, 'ip')] = VStr(z3.String('oldip'))
            H[('f', old.oid, 'controller')] = VOpaque('proto', 1)
            H[('f', old.oid, 'name_is_unique')] = VBool(z3.Bool('old_unique'))
            # a well-formed Router from the previous document: every attribute the class sets
            H[('f', old.oid, 'id_hex')] = VStr(id_hex)
            H[('f', old.oid, 'id_hash')] = VStr(z3.String('old_idhash'))
            H[('f', old.oid, 'or_hash')] = VStr(z3.String('old_orhash'))
            H[('f', old.oid, 'or_port')] = VStr(z3.String('old_orport'))
            H[('f', old.oid, 'dir_port')] = VStr(z3.String('old_dirport'))
            H[('f', old.oid, '_modified')] = NONE
            H[('f', old.oid, '_modified_unparsed')] = VStr(z3.String('old_modified'))
            H[('f', old.oid, '_location')] = NONE
            H[('f', old.oid, 'from_consensus')] = VBool(True)
            H[('f', old.oid, 'accepted_ports')] = NONE
            H[('f', old.oid, 'rejected_ports')] = NONE
            H[('f', o, '_old_routers')] = ex.new_dict(path, [(VStr(id_hex), old)])
        else:
            H[('f', o, '_old_routers')] = ex.new_dict(path, [])
        H[('f', o, 'protocol')] = VOpaque('proto', 1)
        for m in ('routers', 'routers_by_hash', 'routers_by_name', 'guards', 'authorities'):
            H[('f', o, m)] = ex.new_dict(path, [])
        H[('f', o, 'all_routers')] = VOpaque('allset', 2)
        other = None
        # A9: a nickname is 1..19 alphanumerics, so it is never a $-prefixed identity key
        path.assume(z3.Not(z3.PrefixOf(mk_str('$'), vals['nickname'])))
        if name_state is not None:
            other = ex.new_inst(path, rt.Router)
            H[('f', o, 'routers')] = ex.new_dict(path, [(VStr(vals['nickname']), other if name_state == 'once' else NONE)])
            H[('f', o, 'routers_by_name')] = ex.new_dict(path, [(VStr(vals['nickname']), ex.new_list(path, [other]))])
        ctx.cover('pre_satisfiable', path)
        outs = ex.getattr_v(path, st, '_create_router')
        kw = {}
        for k, v in kwpairs:
            kw[concrete_of(k)[1]] = v
        outs = ex.call(outs[0][0], outs[0][1], [], kw)
        for p, r in outs:
            if isinstance(r, Raise):
                cname = r.exc.cls.__name__ if isinstance(r.exc, VInst) else '?'
                ctx.oblige('no_exception[%s]' % cname, p, B(False))
                continue
            routers = dict()
            pairs = p.heap[('dict', p.heap[('f', o, 'routers')].did)]
            # the entry registered under the $hex id
            by_id = [v for k, v in pairs if isinstance(k, VStr) and z3.is_true(z3.simplify(k.t == id_hex))]
            ok = len(by_id) == 1 and isinstance(by_id[0], VInst)
            ctx.oblige('post.registered_under_its_hex_identity', p, B(ok), clause='lookup by identity always works')
            if not ok:
                continue
            rr = by_id[0]
            if reuse:
                ctx.oblige('post.object_identity_kept', p, B(rr.oid == old.oid),
                           clause='a relay present in consecutive documents keeps its object identity')
            else:
                ctx.oblige('post.fresh_object_for_new_relay', p, B(rr.cls is rt.Router))
            g = lambda f: p.heap.get(('f', rr.oid, f))
            for fld, key in (('name', 'nickname'), ('id_hash', 'idhash'), ('or_hash', 'orhash'), ('ip', 'ip'),
                             ('or_port', 'orport'), ('dir_port', 'dirport')):
                v = g(fld)
                ctx.oblige('post.field_%s_from_entry' % fld, p, v.t == vals[key] if isinstance(v, VStr) else B(False),
                           clause='each relay with the nickname, identity, addresses, ports given there')
            bw = g('_bandwidth')
            want_bw = z3.StrToInt(vals['bandwidth']) if with_w else z3.IntVal(0)
            ctx.oblige('post.bandwidth_from_entry_not_carried_over', p, bw.t == want_bw if isinstance(bw, VInt) else B(False),
                       clause='bandwidth given there and nothing left over from earlier documents')
            v6 = g('ip_v6')
            items = list(ex.list_items(p, v6)) if isinstance(v6, VList) else None
            if with_a:
                okv6 = items is not None and len(items) == 1 and isinstance(items[0], VStr)
                ctx.oblige('post.ipv6_addresses_from_entry_not_carried_over', p, zand(B(okv6), items[0].t == z3.String('a1')) if okv6 else B(False),
                           clause='addresses (IPv4 and IPv6) given there and nothing left over')
            else:
                ctx.oblige('post.ipv6_addresses_from_entry_not_carried_over', p, B(items is not None and len(items) == 0),
                           clause='addresses (IPv4 and IPv6) given there and nothing left over')
            fl = g('_flags')
            ctx.oblige('post.flags_from_entry_not_carried_over', p, B(isinstance(fl, VList) and len(ex.list_items(p, fl)) == 0),
                       clause='flags given there and nothing left over')
            byhash = p.heap[('dict', p.heap[('f', o, 'routers_by_hash')].did)]
            ctx.oblige('post.indexed_by_hash', p, B(len(byhash) == 1 and byhash[0][1] is not None and getattr(byhash[0][1], 'oid', None) == rr.oid))
            added = ctx.models.glog(p, 'all_routers_added')
            ctx.oblige('post.in_all_routers', p, B(len(added) == 1 and getattr(added[0], 'oid', None) == rr.oid))
            # lookup by nickname: works exactly for nicknames unique in the document
            by_nick = [v for k, v in pairs if isinstance(k, VStr) and z3.eq(z3.simplify(k.t), z3.simplify(vals['nickname']))]
            if name_state is None:
                ctx.oblige('post.first_relay_of_a_nickname_is_found_by_it', p, B(len(by_nick) == 1 and getattr(by_nick[0], 'oid', None) == rr.oid),
                           clause='lookup by nickname works exactly for nicknames unique in that document')
            else:
                ctx.oblige('post.shared_nickname_resolves_to_nothing', p, B(len(by_nick) == 1 and isinstance(by_nick[0], VNone)),
                           clause='lookup by nickname works exactly for nicknames unique in that document (a shared nickname is not resolved)')
            byname = p.heap[('dict', p.heap[('f', o, 'routers_by_name')].did)]
            lst = [v for k, v in byname if isinstance(k, VStr) and z3.eq(z3.simplify(k.t), z3.simplify(vals['nickname']))]
            want_n = 1 if name_state is None else 2
            okl = len(lst) == 1 and isinstance(lst[0], VList) and len(ex.list_items(p, lst[0])) == want_n \
                and getattr(ex.list_items(p, lst[0])[-1], 'oid', None) == rr.oid
            ctx.oblige('post.every_relay_of_a_nickname_is_listed_under_it', p, B(okl))
    return run


def unit_reset():
    def run(ctx):
        ctx.fn('txtorcon.torstate', 'TorState._update_network_status')
        import txtorcon.torstate as ts
        ex = ctx.ex
        path = ctx.new_path()
        H = path.heap
        st = ex.new_inst(path, ts.TorState)
        o = st.oid
        for m in ('routers', 'routers_by_hash', 'routers_by_name', 'guards', 'authorities'):
            H[('f', o, m)] = ex.new_dict(path, [(VStr(z3.String('stale_' + m)), VOpaque('Router', 5))])
        H[('f', o, 'all_routers')] = VOpaque('allset', 2)
        data = z3.String('data')
        path.assume(z3.Length(data) > 0)
        seen = {}

        def at_loop(ex, p, fr):
            for m in ('routers', 'routers_by_hash', 'routers_by_name', 'guards', 'authorities'):
                v = p.heap[('f', o, m)]
                empty = isinstance(v, VDictLit) and len(p.heap[('dict', v.did)]) == 0
                ctx.oblige('post.index_%s_empty_before_new_document' % m, p, B(empty),
                           clause='nothing left over from earlier documents')
            v = p.heap[('f', o, 'all_routers')]
            ctx.oblige('post.index_all_routers_empty_before_new_document', p, B(isinstance(v, VOpaque) and v.kind == 'emptyset'))
            old = p.heap.get(('f', o, '_old_routers'))
            ctx.oblige('post.previous_objects_kept_for_identity_reuse', p, B(isinstance(old, VDictLit) and len(p.heap[('dict', old.did)]) == 1),
                       clause='a relay present in consecutive documents keeps its object identity')
            seen['ok'] = True
        ctx.models.at_loop = at_loop
        ctx.cover('pre_satisfiable', path)
        outs = ex.getattr_v(path, st, '_update_network_status')
        try:
            ex.call(outs[0][0], outs[0][1], [VStr(data)], {})
        except StopUnit:
            pass
        if not seen:
            ctx.oblige('reached_document_loop', path, B(False))
    return run


class IncModels(Models16):
    """externals of get_info_incremental: queue_command (contract C01: the command is written once, every reply line goes to the
    per-line callback in order) and the caller's line callback"""
    def contract_for(self, ex, path, f, args, kw):
        if f.qualname == 'TorControlProtocol.queue_command':
            d = VOpaque('Deferred', ex.fresh_int(path, 'cmdd'))
            self.glog_add(path, 'queued', (args[0], args[1] if len(args) > 1 else kw.get('arg', NONE), d))
            return [(path, d)]
        return Models16.contract_for(self, ex, path, f, args, kw)

    def opaque_call(self, ex, path, f, args, kw):
        if f.kind == 'line_cb':
            self.glog_add(path, 'lines_delivered', tuple(args))
            return [(path, NONE)]
        return Models16.opaque_call(self, ex, path, f, args, kw)

    def str_method(self, ex, path, s, name, args, kw):
        from contracts.common import CommonModels as _CM
        if name == 'strip':
            return _CM.str_method(self, ex, path, s, name, args, kw)
        return Models16.str_method(self, ex, path, s, name, args, kw)


def unit_get_info_incremental():
    """get_info_incremental(key, line_cb): GETINFO <key> with a per-line callback that hands every reply line to line_cb exactly as
    received - the network-status parser depends on the exact text ('s ' of a relay without flags) - and swallows only the final OK"""
    def run(ctx):
        ctx.fn('txtorcon.torcontrolprotocol', 'TorControlProtocol.get_info_incremental')
        import txtorcon.torcontrolprotocol as tcp
        ex = ctx.ex
        path = ctx.new_path()
        pr = ex.new_inst(path, tcp.TorControlProtocol)
        key, line = z3.String('key'), z3.String('reply_line')
        ctx.input('key', VStr(key))
        ctx.input('reply_line', VStr(line))
        cb = VOpaque('line_cb', 9001)
        g = ex.getattr_v(path, pr, 'get_info_incremental')
        ctx.cover('pre_satisfiable', path)
        for p, r in ex.call(g[0][0], g[0][1], [VStr(key), cb], {}):
            q = ctx.models.glog(p, 'queued')
            ok = (not isinstance(r, Raise)) and len(q) == 1 and isinstance(q[0][0], (VStr, VBytes)) and r is q[0][2]
            ctx.oblige('post.one_getinfo_for_the_key_with_a_per_line_callback', p,
                       zand(B(ok and not isinstance(q[0][1], VNone)), q[0][0].t == z3.Concat(mk_str('GETINFO '), key)) if ok else B(False))
            if not ok:
                continue
            from pyvc.models import WS_STR, re_ws
            is_ok = z3.InRe(line, z3.Concat(z3.Star(re_ws(WS_STR)), z3.Re(mk_str('OK')), z3.Star(re_ws(WS_STR))))
            for p2, r2 in ex.call(p, q[0][1], [VStr(line)], {}):
                got = ctx.models.glog(p2, 'lines_delivered')
                if isinstance(r2, Raise):
                    ctx.oblige('no_exception_from_the_line_callback_wrapper', p2, B(False))
                    continue
                exact = zand(B(len(got) == 1 and len(got[0]) == 1 and isinstance(got[0][0], VStr)), got[0][0].t == line) if len(got) == 1 and len(got[0]) == 1 and isinstance(got[0][0], VStr) else B(False)
                ctx.oblige('post.every_reply_line_reaches_the_parser_verbatim_only_the_final_OK_is_swallowed', p2,
                           z3.If(is_ok, B(len(got) == 0), exact),
                           clause='each relay with the flags given in the document (the listing reaches the parser line by line, unaltered)')
    return run


def make_models_for(unit_name):
    return IncModels() if 'get_info_incremental' in unit_name else Models16()


def units():
    out = [('C16/get_info_incremental', unit_get_info_incremental()), ('C16/codec/b64_hex_b64', unit_codec('b64_hex_b64')), ('C16/codec/hex_b64_hex', unit_codec('hex_b64_hex')),
           ('C16/_update_network_status/reset', unit_reset())]
    for reuse in (True, False):
        for w in (True, False):
            for a in (True, False):
                out.append(('C16/_create_router@%s/%s/%s' % ('reused' if reuse else 'new', 'w' if w else 'no_w', 'a' if a else 'no_a'),
                            unit_create_router(reuse, w, a)))
    for ns in ('once', 'marked'):
        out.append(('C16/_create_router@nickname_%s' % ns, unit_create_router(False, True, False, ns)))
    return out


# ==========================================================================================
from pyvc.report import adopt_twin
FINDING_PATTERNS = [(r'authorities_exactly_flagged:missing:same_nickname_as_another_authority', F_AUTH)]
twin, _replay_twin = adopt_twin('twin.tC16', FINDING_PATTERNS)


def replay(unit, name, model):
    """native replay of a solver model on the real classes (props/replay_misc.py)"""
    from props import replay_misc
    return replay_misc.replay(unit, name, model)


def replay_file(doc):
    if doc.get('kind') == 'twin':
        return _replay_twin(doc)
    unit, name = doc['obligation'].split('::')
    return replay(unit, name, doc['model'])
