"""C03 -- connection loss fails every unanswered command once; nothing is left pending.

Proof units: connectionLost from every FSM state (loop over the outstanding commands by an
inductive per-iteration contract), queue_command after the loss, and util.SingleObserver's
class invariant (every Deferred handed out is fired exactly once)."""
import z3

from pyvc.exec import Raise, Unsupported
from pyvc.sym import (VInt, VBool, VStr, VBytes, VNone, NONE, VTuple, VInst, VOpaque, VUnion, VConc, VFunc, VSeq,
                      concrete_of, mk_str, zand, zor, TOpt, TOpaque, TSeq)
from pyvc import extract
from contracts import control as K
from props import C01

PROP = 'C03'
MODULE = 'txtorcon.torcontrolprotocol'
FUNCS = ['TorControlProtocol.connectionLost', 'TorControlProtocol.queue_command',
         'TorControlProtocol._maybe_issue_command', 'TorControlProtocol.when_disconnected',
         'TorDisconnectError.__init__']
UFUNCS = ['SingleObserver.__init__', 'SingleObserver.has_fired', 'SingleObserver.already_fired',
          'SingleObserver.when_fired', 'SingleObserver.fire']
TRUSTED = C01.TRUSTED + [
    'Twisted calls connectionLost once, last, not re-entrantly (A2)',
    'deprecated on_disconnect Deferred has no callbacks attached (that branch of connectionLost is read at its constructor value)',
    'bytes passed to queue_command are ASCII (str arguments are encoded with the ascii codec by queue_command itself)',
]
LEVEL = 'proof'
MANIFEST = {
    'category': 'proof',
    'technique': 'contract-based deductive verification: connectionLost / post-loss queue_command postconditions and the SingleObserver class invariant on the real bodies, loop by inductive per-iteration contract (pyvc VCs, z3/cvc5); bounded CPython twin injecting the loss at every byte offset',
    'text': 'connectionLost is proved, from every state satisfying the queue invariant (idle, mid-reply, mid-data-block, any queue depth), to mark the '
            'connection lost, leave nothing in flight or queued, write nothing, and fail each outstanding command exactly once with a disconnect '
            'error (loop handled by a per-iteration contract at an arbitrary index). queue_command after the loss is proved to fail the new '
            'command immediately, exactly once, leaving no command in flight - for every subsequent submission (that is the invariant). '
            'SingleObserver: every Deferred handed out fires exactly once (at fire, or immediately when already fired); a second fire is a no-op. '
            'Crash points are not enumerated: a crash point is just connectionLost being the next handler.',
    'level_note': 'Assumed (A): Twisted life cycle, Deferred semantics, user-callback rely, pending Deferreds unfired (from Inv + freshness, argued not '
                  'machine-checked), deprecated on_disconnect branch not covered. Bounded (B): loss at every byte offset of sampled sessions with '
                  'post-loss submissions and notification requests in the twin.',
}


def make_models():
    return K.ControlModels()


def B(x):
    return z3.BoolVal(bool(x))


def unit_connection_lost(fsm_state):
    def run(ctx):
        for q in FUNCS:
            ctx.fn(MODULE, q)
        ex = ctx.ex
        path = ctx.new_path()
        SELF, pre = K.make_proto(ctx, path, fsm_state, lost=False)
        ctx.cover('pre_satisfiable', path)
        ctx.cover('pre_satisfiable_with_queue', path, z3.Length(pre['commands0']) > 1)
        reason = VOpaque('reason', 9300)
        ctx.input('clean_close', z3.Bool('clean_close'))
        outs = ex.getattr_v(path, SELF, 'connectionLost')
        outs = ex.call(outs[0][0], outs[0][1], [reason], {})
        O = z3.Concat(K.opt_as_seq(pre['command0']), pre['commands0'])
        for p, r in outs:
            if isinstance(r, Raise):
                ctx.oblige('no_exception', p, B(False))
                continue
            post = K.post_terms(ctx, p, pre)
            X = z3.Empty(K.TCmds.sort())
            for x in post['reent']:
                X = z3.Concat(X, x)
            failed_all = p.heap.get(('g', 'failed_all'), ())
            # ghost exit: everything outstanding (and post-loss re-entrant submissions) is resolved
            C01.set_ghosts(p, pre, post, submitted=z3.Concat(pre['submitted0'], X),
                           done=z3.Concat(pre['done0'], O, X), wcmds=pre['wcmds0'])
            post = K.post_terms(ctx, p, pre)
            for name, g in K.inv_clauses(ctx, p, pre, post):
                ctx.oblige('inv.' + name, p, g, clause='Inv preserved (lost: nothing in flight, nothing queued)')
            ctx.oblige('post.connection_marked_lost', p, post['lost'])
            ctx.oblige('post.every_outstanding_command_failed_in_order', p,
                       B(len(failed_all) == 1) if len(failed_all) != 1 else (failed_all[0].t == O),
                       clause='every command that has not received its reply fails exactly once')
            ctx.oblige('post.nothing_written_after_loss', p, zand(B(len(post['writes']) == 0), post['written'] == pre['written0']),
                       clause='nothing is written to the transport after the loss')
            obs = ctx.models.glog(p, 'observer_fired')
            import twisted.python.failure as tf
            import txtorcon.torcontrolprotocol as tcp
            okobs = (len(obs) == 1 and isinstance(obs[0][1], VInst) and obs[0][1].cls is tf.Failure and
                     isinstance(p.heap.get(('f', obs[0][1].oid, 'value')), VInst) and
                     p.heap.get(('f', obs[0][1].oid, 'value')).cls is tcp.TorDisconnectError)
            ctx.oblige('post.disconnect_observers_notified_once_with_disconnect_error', p, B(okobs),
                       clause='every request to be told about disconnection is notified exactly once')
    return run


# ---- util.SingleObserver against its class invariant ------------------------------------------
TD = TOpaque('Deferred')


class ObserverModels(K.ControlModels):
    """SingleObserver verified against its own body: no contract substitution for it here"""
    def contract_for(self, ex, path, f, args, kw):
        return None

    def reenter(self, ex, path):
        pass

    def loop(self, ex, path, fr, st, it, ordinal):
        q = fr.func.qualname if fr.func is not None else ''
        if q.endswith('SingleObserver.fire') and isinstance(it, VSeq):
            ctx = self.ctx
            # the state observers see while they are being notified must be the 'mid fire' state the other
            # methods are verified from: the value is stored before the first observer runs
            slf = path.heap.get(('l', fr.fid, 'self'))
            val0 = path.heap.get(('g', 'fire_value'))
            stored = path.heap.get(('f', slf.oid, '_fired')) if isinstance(slf, VInst) else None
            ctx.oblige('loop.fire.value_stored_before_any_observer_runs', path, B(val0 is not None and stored is val0),
                       clause='a request made while the notification is being delivered sees the event as fired (nothing is written after the loss)')
            bp = path.fork()
            i = ex.fresh_int(bp, 'loop_i')
            bp.assume(z3.And(i >= 0, i < z3.Length(it.t)))
            elem = it.elem.wrap(z3.simplify(it.t[i]))
            n0 = len(bp.heap.get(('g', 'fired'), ()))
            for p2, r in ex.assign(st.target, elem, bp, fr):
                for p3, flow, v in ex.exec_block(st.body, p2, fr):
                    fired = p3.heap.get(('g', 'fired'), ())[n0:]
                    val = p3.heap.get(('g', 'fire_value'))
                    ok = B(False)
                    if len(fired) == 1 and flow in ('next', 'continue'):
                        ok = z3.And(fired[0][0].t == elem.t, B(fired[0][1] == 'ok'),
                                    ex.eq_term(p3, fired[0][2], val) if val is not None else B(False))
                    ctx.oblige('loop.fire.each_observer_called_once_with_value', p3, ok,
                               clause='every Deferred handed out is fired exactly once with the value')
            path.heap[('g', 'notified_all')] = path.heap.get(('g', 'notified_all'), ()) + (it,)
            return [(path, 'next', None)]
        return None


def make_observer(ctx, path, fired):
    import txtorcon.util as util
    ex = ctx.ex
    so = ex.new_inst(path, util.SingleObserver)
    H = path.heap
    obs0 = z3.Const('observers0', z3.SeqSort(z3.IntSort()))
    ctx.input('observers0', obs0)
    if fired == 'mid':
        # state seen by an observer callback running inside fire(): the value is already stored,
        # the observers have not been dropped yet (re-entrant calls must behave as 'fired')
        H[('f', so.oid, '_observers')] = VSeq(obs0, TD)
        H[('f', so.oid, '_fired')] = VOpaque('value', 9400)
    elif fired:
        # class invariant after fire: _observers is None, _fired holds the value
        H[('f', so.oid, '_observers')] = NONE
        H[('f', so.oid, '_fired')] = VOpaque('value', 9400)
    else:
        H[('f', so.oid, '_observers')] = VSeq(obs0, TD)
        H[('f', so.oid, '_fired')] = VConc(util.SingleObserver._NotFired)
    return so, obs0


def unit_observer(meth, fired):
    def run(ctx):
        for q in UFUNCS:
            ctx.fn('txtorcon.util', q)
        ex = ctx.ex
        path = ctx.new_path()
        so, obs0 = make_observer(ctx, path, fired)
        ctx.cover('pre_satisfiable', path)
        H = path.heap
        if meth == 'fire':
            val = VOpaque('value', 9401)
            H[('g', 'fire_value')] = val
            args = [val]
        elif meth == 'already_fired':
            args = [VOpaque('Deferred', 9402)]
        else:
            args = []
        stored0 = H[('f', so.oid, '_fired')]        # (captured before the call: the path object is updated in place)
        outs = ex.getattr_v(path, so, meth)
        outs = ex.call(outs[0][0], outs[0][1], args, {})
        for p, r in outs:
            if isinstance(r, Raise):
                ctx.oblige('no_exception', p, B(False))
                continue
            firedlog = ctx.models.glog(p, 'fired')
            obs1 = p.heap[('f', so.oid, '_observers')]
            f1 = p.heap[('f', so.oid, '_fired')]
            import txtorcon.util as util
            notfired1 = isinstance(f1, VConc) and f1.obj is util.SingleObserver._NotFired
            # class invariant: _observers is None  <=>  fired   (not required of the mid-fire state)
            if fired != 'mid':
                ctx.oblige('inv.observers_none_iff_fired', p, B(isinstance(obs1, VNone) == (not notfired1)))
            if meth == 'when_fired':
                alloc = ctx.models.glog(p, 'allocated')
                okd = isinstance(r, VOpaque) and len(alloc) == 1
                ctx.oblige('post.returns_fresh_deferred', p, B(okd))
                if fired:
                    ctx.oblige('post.late_request_fired_immediately_with_stored_value', p,
                               B(len(firedlog) == 1 and okd and firedlog[0][0] is alloc[0] and firedlog[0][2] is stored0 and f1 is stored0),
                               clause='requests made after the event are notified exactly once')
                else:
                    ctx.oblige('post.early_request_is_remembered_not_fired', p,
                               zand(B(len(firedlog) == 0), obs1.t == z3.Concat(obs0, z3.Unit(r.t))) if isinstance(obs1, VSeq) and okd else B(False),
                               clause='requests made before the event are notified at the event')
            elif meth == 'fire':
                na = p.heap.get(('g', 'notified_all'), ())
                if fired == 'mid':
                    pass
                elif fired:
                    ctx.oblige('post.second_fire_is_a_no_op', p, zand(B(len(firedlog) == 0), B(len(na) == 0), B(f1 is stored0)),
                               clause='nothing fires twice')
                else:
                    ctx.oblige('post.fire_notifies_every_remembered_request', p,
                               B(len(na) == 1) if len(na) != 1 else (na[0].t == obs0),
                               clause='every request made before the event is notified exactly once')
                    ctx.oblige('post.fire_stores_value', p, B(f1 is args[0]))
            elif meth == 'already_fired':
                if fired:
                    ctx.oblige('post.already_fired_fires_the_given_deferred', p,
                               B(len(firedlog) == 1 and firedlog[0][0] is args[0] and isinstance(r, VBool) and z3.is_true(z3.simplify(r.t))))
                else:
                    ctx.oblige('post.not_fired_touches_nothing', p,
                               B(len(firedlog) == 0 and isinstance(r, VBool) and z3.is_false(z3.simplify(r.t))))
            elif meth == 'has_fired':
                ctx.oblige('post.has_fired_reports_state', p, B(isinstance(r, VBool) and (z3.is_true(z3.simplify(r.t)) == bool(fired))),
                           clause='a request made while the notification is being delivered sees the event as fired')
    return run


def units():
    out = []
    for st in K.FSM_STATES:
        out.append(('C03/connectionLost@%s' % st, unit_connection_lost(st)))
        for ak in ('bytes', 'str'):
            out.append(('C03/queue_command_after_loss@%s/%s' % (st, ak), C01.unit_queue_command(st, ak, lost=True)))
    for meth in ('when_fired', 'fire', 'already_fired', 'has_fired'):
        for fired in (False, True):
            out.append(('C03/SingleObserver.%s@%s' % (meth, 'fired' if fired else 'pending'), unit_observer(meth, fired)))
    for meth in ('when_fired', 'already_fired', 'has_fired'):
        out.append(('C03/SingleObserver.%s@mid_fire' % meth, unit_observer(meth, 'mid')))
    # attaching the transport must not replace the disconnect observer (or anything else) the constructor made
    from props import C04
    out.append(('C03/connectionMade', C04.unit_connection_made()))
    return out


def make_models_for(unit_name):
    if unit_name.endswith('/connectionMade'):
        from props import C04
        return C04.make_models()
    return ObserverModels() if 'SingleObserver' in unit_name else K.ControlModels()


# ==========================================================================================
# bounded twin (B): loss injected at every byte offset of sampled sessions

def run_loss_session(cmds, replies, loss_at, clean, n_post, wd_before, wd_after, retry=False):
    """cmds all submitted up front; stream delivered byte-exact up to loss_at, then connectionLost."""
    from twin import control_session as CS
    from twisted.python.failure import Failure
    from twisted.internet import error
    import txtorcon.torcontrolprotocol as tcp
    proto, t = CS.make_proto()
    stream = b''
    ends = []
    for code, parts in replies:
        stream += CS.encode_reply(code, parts)
        ends.append(len(stream))
    viol = []
    hist = {'cmds': [[c, p] for c, p in cmds], 'replies': replies, 'loss_at': loss_at, 'clean': clean,
            'n_post': n_post, 'wd_before': wd_before, 'wd_after': wd_after, 'retry': retry}

    def bad(clause, what):
        viol.append({'key': 'C03:%s' % clause, 'clause': clause, 'what': what, 'history': hist})
    recs = []
    wds = []
    reent = []
    for j in range(wd_before):
        d = proto.when_disconnected()
        if j == 0:
            # an observer registered before the loss submits a command from inside its notification
            d.addBoth(lambda v: reent.append(CS.Recorder(proto.queue_command('FROM-OBSERVER'))) and None)
        wds.append(CS.Recorder(d))
    retried = []
    for c, percb in cmds:
        # ('raw:...' = a command submitted as bytes, given here as latin-1 text so that histories stay JSON)
        cc = c[4:].encode('latin-1') if c.startswith('raw:') else c
        d = proto.queue_command(cc, (lambda l: None) if percb else None)
        if retry:
            # retry logic: the caller re-submits from inside the errback of the command that was cut off
            def again(f, _c=c):
                if f.check(tcp.TorDisconnectError):
                    retried.append((_c, CS.Recorder(proto.queue_command('RETRY-' + _c.encode('ascii', 'replace').decode('ascii')))))
                return f
            d.addErrback(again)
        recs.append(CS.Recorder(d))
    try:
        proto.dataReceived(stream[:loss_at])
    except Exception as e:
        bad('no_exception_from_dataReceived', repr(e))
        return viol
    written_before = t.value()
    reason = Failure(error.ConnectionDone()) if clean else Failure(error.ConnectionLost())
    try:
        proto.connectionLost(reason)
    except Exception as e:
        bad('no_exception_from_connectionLost', repr(e))
        return viol
    post = []
    for i in range(n_post):
        try:
            post.append(CS.Recorder(proto.queue_command('POST%d' % i)))
        except Exception as e:
            bad('post_loss_submission_never_raises', 'submission %d: %r' % (i, e))
            return viol
    for _ in range(wd_after):
        wds.append(CS.Recorder(proto.when_disconnected()))
    if t.value() != written_before:
        bad('nothing_written_after_loss', 'wrote %r after the loss' % (t.value()[len(written_before):],))
    for i, r in enumerate(recs):
        answered = ends[i] <= loss_at
        if len(r.results) != 1:
            bad('every_command_resolved_exactly_once', 'command %d (%s): %r' % (i, 'answered' if answered else 'unanswered', r.results))
            continue
        kind, val = r.results[0]
        if not answered and not (kind == 'err' and isinstance(val, tcp.TorDisconnectError)):
            bad('unanswered_command_fails_with_disconnect_error', 'command %d: %r' % (i, r.results))
        if answered and kind == 'err' and isinstance(val, tcp.TorDisconnectError):
            bad('answered_command_keeps_its_reply', 'command %d: %r' % (i, r.results))
    for i, r in enumerate(post):
        if len(r.results) != 1 or r.results[0][0] != 'err' or not isinstance(r.results[0][1], tcp.TorDisconnectError):
            bad('post_loss_submission_fails_once_with_disconnect_error', 'post-loss submission %d of %d: %r' % (i, n_post, r.results))
    for c, r in retried:
        if len(r.results) != 1 or r.results[0][0] != 'err' or not isinstance(r.results[0][1], tcp.TorDisconnectError):
            bad('submission_from_an_errback_during_the_loss_fails_once',
                'command re-submitted from the errback of %s (one of %d outstanding): %r' % (c, len(retried), r.results))
    for r in reent:
        if len(r.results) != 1 or r.results[0][0] != 'err' or not isinstance(r.results[0][1], tcp.TorDisconnectError):
            bad('submission_from_disconnect_observer_fails_once', 'command submitted inside a when_disconnected callback: %r' % (r.results,))
    for i, r in enumerate(wds):
        if len(r.results) != 1:
            bad('disconnect_notification_exactly_once', 'request %d (%s): %r' % (i, 'before' if i < wd_before else 'after', r.results))
    return viol


def run_early_observer(clean, n_cmds):
    """a disconnect notification requested on the protocol object *before* its transport is attached (the object a factory's
    buildProtocol() hands out), with the real connectionMade; then n_cmds commands, then the loss"""
    from twin import control_session as CS
    from twisted.python.failure import Failure
    from twisted.internet import error
    from twisted.test.proto_helpers import StringTransport
    import txtorcon.torcontrolprotocol as tcp
    viol = []
    hist = {'early_observer': True, 'clean': clean, 'n_cmds': n_cmds}
    proto = tcp.TorControlProtocol()
    early = CS.Recorder(proto.when_disconnected())
    proto.makeConnection(StringTransport())
    later = CS.Recorder(proto.when_disconnected())
    recs = [CS.Recorder(proto.queue_command('CMD%d' % i)) for i in range(n_cmds)]
    try:
        proto.connectionLost(Failure(error.ConnectionDone()) if clean else Failure(error.ConnectionLost()))
    except Exception as e:
        viol.append({'key': 'C03:no_exception_from_connectionLost', 'clause': 'no_exception_from_connectionLost', 'what': repr(e), 'history': hist})
        return viol
    for nm, r in (('requested before the transport was attached', early), ('requested after it', later)):
        if len(r.results) != 1:
            viol.append({'key': 'C03:disconnect_notification_exactly_once', 'clause': 'disconnect_notification_exactly_once',
                         'what': 'request %s: %r' % (nm, r.results), 'history': hist})
    for i, r in enumerate(recs):
        if len(r.results) != 1 or r.results[0][0] != 'err':
            viol.append({'key': 'C03:every_command_resolved_exactly_once', 'clause': 'every_command_resolved_exactly_once',
                         'what': 'command %d behind the authentication exchange: %r' % (i, r.results), 'history': hist})
    return viol


def twin(tier, seed):
    import random
    from twin import control_session as CS
    rnd = random.Random(seed)
    violations, evaluations, distinct, samples = [], 0, set(), []
    nsess = 12 if tier == 'quick' else 80
    for clean in (True, False):
        for n in (0, 1, 3):
            violations.extend(run_early_observer(clean, n))
            evaluations += 1
            distinct.add(('early', clean, n))
    for s in range(nsess):
        k = rnd.randint(0, 4)
        cmds = [('CMD%d' % i, rnd.random() < 0.3) for i in range(k)]
        if k and s % 3 == 2:
            j = rnd.randrange(k)
            cmds[j] = ('raw:SETCONF ContactInfo=Zo\xeb %d' % j, cmds[j][1])      # bytes with a byte >= 0x80
        reps = [rnd.choice(C01.REPLY_POOL) for _ in range(k)]
        total = sum(len(CS.encode_reply(c, p)) for c, p in reps)
        offsets = range(0, total + 1)
        for loss_at in offsets:
            for clean in (True, False):
                n_post = (loss_at + (1 if clean else 0)) % 4
                wb, wa = (loss_at % 3), ((loss_at // 3) % 3)
                v = run_loss_session(cmds, reps, loss_at, clean, n_post, wb, wa, retry=(loss_at + s) % 2 == 1)
                evaluations += 1
                distinct.add((s, loss_at, clean))
                violations.extend(v)
                if len(samples) < 3 and k > 1 and 0 < loss_at < total:
                    samples.append({'commands': k, 'reply_codes': [c for c, _ in reps], 'loss_at': loss_at, 'clean': clean,
                                    'post_loss_submissions': n_post, 'when_disconnected_before_after': [wb, wa]})
    return {'evaluations': evaluations, 'distinct_nontrivial': len(distinct), 'samples': samples, 'violations': violations,
            'rule': 'one evaluation = one session (0..4 commands queued up front, plain / per-line-callback, replies from the C01 pool) with the '
                    'connection lost after exactly N delivered bytes, for every N, clean and unclean reason, followed by 0..3 further submissions '
                    'and 0..2 when_disconnected requests before/after; in every other session the errback of each command re-submits a command (retry logic); distinct by (session, offset, reason)',
            'bounds': '%d seeded sessions x every byte offset x {ConnectionDone, ConnectionLost}; post-loss submissions 0..3' % nsess}


def replay(unit, name, model):
    cmds0 = model.get('commands0') or []
    has_cmd = isinstance(model.get('command0'), dict) and model['command0'].get('ctor', '').startswith('some')
    k = (1 if has_cmd else 0) + len(cmds0)
    if 'connectionLost' in unit:
        st = unit.split('@')[1]
        k = max(k, 1)
        cmds = [('CMD%d' % i, False) for i in range(k)]
        reps = [(250, [('data', 'k=', ['x']), ('end', 'OK')]) for _ in range(k)]
        loss_at = {'IDLE': 0, 'RECV': 0, 'RECV_PLUS': 8}[st]
        if st == 'RECV':
            reps[0] = (250, [('mid', 'a=1'), ('end', 'OK')])
            loss_at = 9
        if 'body_completes_normally' in name or 'fires_this_command_once' in name:
            cmds = [('CMD0', False), ('raw:SETCONF ContactInfo=Zo\xeb', False), ('CMD2', False)]
            reps = [(250, [('end', 'OK')]) for _ in cmds]
            v = run_loss_session(cmds, reps, 0, bool(model.get('clean_close')), 1, 0, 0)
        elif 'errbacks_find_the_lost_state' in name:
            cmds = [('CMD%d' % i, False) for i in range(max(k, 3))]
            reps = [(250, [('end', 'OK')]) for _ in cmds]
            v = run_loss_session(cmds, reps, 0, bool(model.get('clean_close')), 1, 0, 0, retry=True)
        else:
            v = run_loss_session(cmds, reps, loss_at, bool(model.get('clean_close')), 2, 1, 1)
        return {'reproduced': bool(v), 'history': v[0]['history'] if v else None, 'what': v[0]['what'] if v else '',
                'native_violations': v[:3], 'finding': None}
    if 'queue_command_after_loss' in unit:
        v = run_loss_session([], [], 0, False, 3, 0, 0)
        return {'reproduced': bool(v), 'history': v[0]['history'] if v else None, 'what': v[0]['what'] if v else '',
                'native_violations': v[:3], 'finding': None}
    return {'reproduced': False, 'what': 'no native replay for this unit'}


def replay_file(doc):
    if doc.get('kind') == 'twin' and doc['violation']['history'].get('early_observer'):
        h = doc['violation']['history']
        v = run_early_observer(h['clean'], h['n_cmds'])
        return {'reproduced': bool(v), 'native_violations': v[:3]}
    if doc.get('kind') == 'twin':
        h = doc['violation']['history']
        reps = [(c, [tuple(p) for p in parts]) for c, parts in h['replies']]
        v = run_loss_session([tuple(c) for c in h['cmds']], reps, h['loss_at'], h['clean'], h['n_post'], h['wd_before'], h['wd_after'], retry=h.get('retry', False))
        return {'reproduced': bool(v), 'native_violations': v[:3]}
    unit, name = doc['obligation'].split('::')
    return replay(unit, name, doc['model'])
