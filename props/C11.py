"""C11 -- config view equals Tor's configuration, with stable types, across change events.

Proof units: each TorConfigType.parse against its declared type; TorConfig._find_real_name (unique key equal up to
case); TorConfig._conf_changed: for every reported option the view gets parse(value) and list-valued options stay
tracked lists whether Tor reported 0, 1 or many values.  _do_setup / bootstrap are checked by the bounded twin."""
import z3

from pyvc.exec import Raise, Unsupported
from pyvc.sym import (VInt, VBool, VStr, VBytes, VNone, NONE, VTuple, VInst, VOpaque, VUnion, VConc, VFunc, VSeq, VList, VDictLit,
                      concrete_of, mk_str, zand, zor)
from pyvc import extract
from contracts import torconfig as T

PROP = 'C11'
MODULE = 'txtorcon.torconfig'
TRUSTED = [
    'parse_keywords result of a CONF_CHANGED payload is taken as given (keyword -> value / DEFAULT / list of values): its loop is covered in C13 (twin)',
    'A7 str.lower() uninterpreted (same function in code and spec); int() model; CommaList split(",") not under contract',
    '_do_setup is under contract for a config/names answer naming one ordinary option (types Integer, CommaList, LineList; set / unset with / without a default); '
    'its *PortLines and HiddenServiceOptions branches, longer answers and bootstrap: bounded twin only; the type\'s parse() on symbolic text is an uninterpreted function of (type, text)',
    'pyvc semantics; z3/cvc5',
]
LEVEL = 'proof'
MANIFEST = {
    'category': 'proof',
    'technique': 'contract-based deductive verification of TorConfigType.parse per declared type, _find_real_name and the shape-preservation postcondition of the real _conf_changed (pyvc VCs, z3/cvc5); bounded CPython twin over option tables and CONF_CHANGED sequences through a scripted Tor',
    'text': 'Proved: Boolean.parse(s) = (int(s) != 0), Boolean_Auto.parse of the text auto is -1 (numeric inputs: twin), Integer.parse = int, LineList.parse of a list keeps '
            'every element (stripped) in order; _find_real_name returns a key of parsers/config equal to the name up to case when one exists, else the name; '
            '_do_setup (one ordinary option of type Integer / CommaList / LineList): the declared type is recorded, the value is asked for by name, a set option stores the '
            'type\'s parse of the reported text, an unset one the parse of its default (or the DEFAULT marker / an empty tracked list without one), list-typed options '
            'become tracked lists reporting edits under that option; '
            '_conf_changed, for a reported scalar option, stores parse(value) (or the parsed default / DEFAULT marker when unset) and, for a list-valued option, '
            'stores a tracked list holding exactly the reported values whether Tor reported none, one or many - and touches no other option.',
    'level_note': 'Bounded (B, never counted as proved): attaching to a running Tor (_do_setup: every declared type x unset/empty/one/many x with/without config/defaults) '
                  'and CONF_CHANGED sequences interleaved with edits and saves - twin. Assumed (A): parse_keywords output shape, lower().',
}


def make_models():
    m = T.ConfigModels()
    return m


def B(x):
    return z3.BoolVal(bool(x))


def unit_parse(kind):
    def run(ctx):
        import txtorcon.torconfig as tc
        cls = {'Boolean': tc.Boolean, 'Boolean_Auto_auto': tc.Boolean_Auto, 'Boolean_Auto_num': tc.Boolean_Auto, 'Integer': tc.Integer, 'LineList_list': tc.LineList,
               'String': tc.String, 'Filename': tc.Filename}[kind]
        try:
            ctx.fn(MODULE, cls.__name__ + '.parse')
        except KeyError:
            ctx.fn(MODULE, 'TorConfigType.parse')      # (inherited)
        ex = ctx.ex
        path = ctx.new_path()
        inst = VConc(cls())
        s = z3.String('s')
        ctx.input('s', VStr(s))
        digits = z3.InRe(s, z3.Concat(z3.Option(z3.Re('-')), z3.Plus(z3.Range('0', '9'))))
        if kind == 'LineList_list':
            a, b = z3.String('a'), z3.String('b')
            arg = ex.new_list(path, [VStr(a), VStr(b)])
        else:
            arg = VStr(s) if kind != 'Boolean_Auto_auto' else VStr('auto')
            if kind == 'Boolean_Auto_auto':
                path.assume(s == mk_str('auto'))
            elif kind in ('String', 'Filename'):
                pass        # any text
            else:
                path.assume(z3.InRe(s, z3.Plus(z3.Range('0', '9'))))
        ctx.cover('pre_satisfiable', path)
        outs = ex.getattr_v(path, inst, 'parse')
        outs = ex.call(outs[0][0], outs[0][1], [arg], {})
        for p, r in outs:
            if isinstance(r, Raise):
                ctx.oblige('no_exception_on_well_formed_value', p, B(False))
                continue
            n = z3.StrToInt(s)
            if kind in ('String', 'Filename'):
                ctx.oblige('post.text_value_is_kept_exactly', p, r.t == s if isinstance(r, VStr) else B(False),
                           clause='the value Tor returned parsed by the declared type (text types: the text itself)')
            elif kind == 'Boolean':
                ctx.oblige('post.boolean_is_int_nonzero', p, r.t == (n != 0) if isinstance(r, VBool) else B(False),
                           clause='the value Tor returned parsed by the declared type (booleans)')
            elif kind == 'Integer':
                ctx.oblige('post.integer_value', p, r.t == n if isinstance(r, VInt) else B(False), clause='integers')
            elif kind.startswith('Boolean_Auto'):
                want = z3.IntVal(-1) if kind.endswith('auto') else z3.If(n != 0, 1, 0)
                ctx.oblige('post.boolean_auto_value', p, r.t == want if isinstance(r, VInt) else B(False))
            else:
                items = ex.list_items(p, r) if isinstance(r, VList) else None
                ctx.oblige('post.line_list_keeps_every_value_in_order', p, B(items is not None and len(items) == 2),
                           clause='line lists: all values in Tor\'s order')
    return run


def unit_find_real_name(present):
    def run(ctx):
        ctx.fn(MODULE, 'TorConfig._find_real_name')
        import txtorcon.torconfig as tc
        ctx.models.find_real_name_contract = False
        ex = ctx.ex
        path = ctx.new_path()
        cfg = ex.new_inst(path, tc.TorConfig)
        k1, k2, name = z3.String('k1'), z3.String('k2'), z3.String('name')
        for n_, v in (('k1', k1), ('k2', k2), ('name', name)):
            ctx.input(n_, VStr(v))
        path.heap[('f', cfg.oid, 'parsers')] = ex.new_dict(path, [(VStr(k1), VConc(tc.String()))])
        path.heap[('f', cfg.oid, 'config')] = ex.new_dict(path, [(VStr(k2), VStr('x'))])
        L = T.F_lower
        path.assume(L(k1) != L(k2))
        if present == 'first':
            path.assume(L(k1) == L(name))
        elif present == 'second':
            path.assume(L(k2) == L(name))
        else:
            path.assume(z3.And(L(k1) != L(name), L(k2) != L(name)))
        ctx.cover('pre_satisfiable', path)
        outs = ex.getattr_v(path, cfg, '_find_real_name')
        outs = ex.call(outs[0][0], outs[0][1], [VStr(name)], {})
        for p, r in outs:
            want = {'first': k1, 'second': k2, 'none': name}[present]
            ctx.oblige('post.returns_the_key_equal_up_to_case_else_the_name', p,
                       r.t == want if isinstance(r, VStr) else B(False), clause='option names matched case-insensitively')
    return run


def unit_conf_changed(is_list, reported, pending_edit=False, other_case=False):
    """reported: 'one' | 'many' | 'unset'; pending_edit: this controller has an unsaved local edit of the same option;
    other_case: the event spells the option name in another case than the canonical key"""
    def run(ctx):
        ctx.fn(MODULE, 'TorConfig._conf_changed')
        import txtorcon.torconfig as tc
        ex = ctx.ex
        path = ctx.new_path()
        cfg = ex.new_inst(path, tc.TorConfig)
        H = path.heap
        o = cfg.oid
        name, other = z3.String('name'), z3.String('other')
        ctx.input('name', VStr(name))
        path.assume(name != other)
        v1, v2 = z3.String('v1'), z3.String('v2')
        if not is_list:
            path.assume(z3.InRe(v1, z3.Plus(z3.Range('0', '9'))))
        path.assume(v1 != mk_str('DEFAULT'))
        path.assume(z3.Not(z3.Contains(v1, mk_str('\n'))))
        path.assume(z3.Not(z3.Contains(z3.String('default_text'), mk_str('\n'))))
        if reported == 'one':
            val = VStr(v1)
        elif reported == 'many':
            val = ex.new_list(path, [VStr(v1), VStr(v2)])
        else:
            val = VStr('DEFAULT')
        key = name
        if other_case:
            key = z3.String('name_as_reported')
            ctx.input('name_as_reported', VStr(key))
            path.assume(z3.And(key != name, T.F_lower(key) == T.F_lower(name), key != other, T.F_lower(key) != T.F_lower(other)))
            H[('g', 'real_name_alias')] = (key, name)
        H[('g', 'parse_keywords_result')] = ex.new_dict(path, [(VStr(key), val)])
        parser = tc.LineList() if is_list else tc.Integer()
        H[('f', o, 'parsers')] = ex.new_dict(path, [(VStr(name), VConc(parser)), (VStr(other), VConc(tc.String()))])
        old_other = VStr(z3.String('old_other'))
        old_list = ex.new_list(path, [VStr(z3.String('old0'))])
        H[('f', o, 'config')] = ex.new_dict(path, [(VStr(name), old_list if is_list else VInt(z3.Int('old'))), (VStr(other), old_other)])
        H[('f', o, 'list_parsers')] = VTuple([VStr(name)] if is_list else [])
        has_default = z3.Bool('has_default')
        dflt = z3.String('default_text')
        if not is_list:
            path.assume(z3.InRe(dflt, z3.Plus(z3.Range('0', '9'))))
        H[('f', o, '_defaults')] = VUnion([(has_default, ex.new_dict(path, [(VStr(name), VStr(dflt))])),
                                           (z3.Not(has_default), ex.new_dict(path, []))])
        H[('f', o, 'unsaved')] = ex.new_dict(path, [(VStr(name), VStr(z3.String('locally_edited_value')))] if pending_edit else [])
        ctx.cover('pre_satisfiable', path)
        outs = ex.getattr_v(path, cfg, '_conf_changed')
        outs = ex.call(outs[0][0], outs[0][1], [VStr(z3.String('payload'))], {})
        for p, r in outs:
            if isinstance(r, Raise):
                cname = r.exc.cls.__name__ if isinstance(r.exc, VInst) else '?'
                ctx.oblige('no_exception[%s]' % cname, p, B(False), clause='a CONF_CHANGED event never raises')
                continue
            conf = dict()
            pairs = p.heap[('dict', p.heap[('f', o, 'config')].did)]
            cur = [v for k, v in pairs if isinstance(k, VStr) and z3.is_true(z3.simplify(k.t == name))]
            oth = [v for k, v in pairs if isinstance(k, VStr) and z3.is_true(z3.simplify(k.t == other))]
            ctx.oblige('frame.unreported_option_unchanged', p, B(len(oth) == 1 and oth[0] is old_other and len(pairs) == 2),
                       clause='options not reported keep their values')
            if len(cur) != 1:
                ctx.oblige('post.reported_option_present', p, B(False))
                continue
            v = cur[0]
            if is_list:
                tracked = isinstance(v, VList) and ('g', 'tracked', v.lid) in p.heap
                ctx.oblige('post.list_option_stays_a_tracked_list', p, B(tracked),
                           clause='list-valued options stay tracked lists, whether Tor reports zero, one or many values')
                if tracked:
                    items = ex.list_items(p, v)
                    if reported == 'one':
                        ctx.oblige('post.single_reported_value_is_a_one_element_list', p, B(len(items) == 1))
                    elif reported == 'many':
                        ctx.oblige('post.all_reported_values_in_order', p, B(len(items) == 2))
                    else:
                        ctx.oblige('post.unset_list_reports_its_default', p,
                                   z3.If(has_default, B(len(items) == 1), B(len(items) == 0)),
                                   clause='unset options reported as their default')
                    owner = p.heap[('g', 'tracked', v.lid)]
                    ok_owner = (isinstance(owner, VTuple) and len(owner.items) >= 3 and isinstance(owner.items[1], VFunc)
                                and owner.items[1].qualname.endswith('mark_unsaved') and isinstance(owner.items[2], VStr))
                    ctx.oblige('post.tracked_list_reports_changes_for_this_option', p,
                               zand(B(ok_owner), owner.items[2].t == name) if ok_owner else B(False),
                               clause='so code that reads, edits and saves keeps working')
            else:
                if reported == 'one':
                    ctx.oblige('post.scalar_gets_parsed_value', p, v.t == z3.StrToInt(v1) if isinstance(v, VInt) else B(False),
                               clause='subsequent reads return the new values')
                elif reported == 'unset':
                    ctx.oblige('post.unset_scalar_reports_default_or_marker', p,
                               z3.If(has_default, v.t == z3.StrToInt(dflt) if isinstance(v, VInt) else B(False),
                                     B(isinstance(v, VStr) and concrete_of(v) == (True, 'DEFAULT'))),
                               clause='unset options reported as their default')
    return run


class StopSetup(Exception):
    pass


class SetupModels(T.ConfigModels):
    """externals of TorConfig._do_setup for a config/names answer of one option: GETINFO config/defaults and GETCONF through
    their contracts (C13), the type's parse() through its contract for symbolic text (C11/parse units), tracked lists"""
    def __init__(self):
        T.ConfigModels.__init__(self)
        self.at_epilogue = None

    def callable_(self, ex, path, obj, args, kw):
        import txtorcon.torconfig as tc
        if obj is tc._ListWrapper and isinstance(args[0], VOpaque):
            w = VOpaque('tracked_parsed', ex.fresh_int(path, 'tr'))
            self.glog_add(path, 'wrapped', (w, args[0], args[1]))
            return [(path, w)]
        return T.ConfigModels.callable_(self, ex, path, obj, args, kw)

    def contract_for(self, ex, path, f, args, kw):
        q = f.qualname
        if q == 'TorConfig._get_defaults':
            return [(path, VOpaque('d_defaults', 1))]
        if q.endswith('.parse') and f.bound is not None and isinstance(f.bound, VInst) and not concrete_of(args[0])[0]:
            # contract of the type's parse on text: an uninterpreted function of (type, text); the parse functions
            # themselves are the C11/parse units
            r = VOpaque('parsed', ex.fresh_int(path, 'parsed'))
            self.glog_add(path, 'parsed', (r, f.bound.cls.__name__, args[0]))
            return [(path, r)]
        return T.ConfigModels.contract_for(self, ex, path, f, args, kw)

    def method(self, ex, path, recv, name, args, kw):
        if isinstance(recv, VOpaque) and recv.kind == 'proto':
            if name == 'get_conf':
                self.glog_add(path, 'asked', args[0])
                return [(path, VOpaque('d_getconf', 1))]
            if name == 'get_info' and self.at_epilogue is not None:
                # end of the option loop: state the obligations here and end this path (an exception class the code does not catch)
                self.at_epilogue(ex, path)
                return ex.raise_(path, KeyboardInterrupt, 'end of the option loop')
        return T.ConfigModels.method(self, ex, path, recv, name, args, kw)

    def split_hook(self, ex, path, s, args, kw):
        if len(args) == 1 and concrete_of(args[0]) == (True, '\n') and z3.eq(s.t, z3.String('config_names_answer')):
            return [(path, ex.new_list(path, [VStr('config/names='), VStr(z3.String('names_line'))]))]
        if not args and z3.eq(s.t, z3.String('names_line')):
            return [(path, ex.new_list(path, [VStr(z3.String('name')), path.heap[('g', 'type_word')]]))]
        return T.ConfigModels.split_hook(self, ex, path, s, args, kw)

    def compare(self, ex, path, op, a, b):
        import ast
        if isinstance(op, ast.Eq) and ((isinstance(a, VOpaque) and a.kind == 'parsed') or (isinstance(b, VOpaque) and b.kind == 'parsed')):
            self.assumptions.add('the text of a set option does not parse to the single-element DEFAULT marker')
            return [(path, z3.BoolVal(False))]
        return T.ConfigModels.compare(self, ex, path, op, a, b)

    def await_(self, ex, path, fr, v, node):
        kind = v.kind if isinstance(v, VOpaque) else '?'
        if kind == 'd_defaults':
            return [(path, path.heap[('g', 'defaults')])]
        if kind == 'd_getconf':
            return [(path, ex.new_dict(path, [(VStr(z3.String('name')), path.heap[('g', 'reported')])]))]
        return [(path, VOpaque('result', ex.fresh_int(path, 'res')))]


def unit_do_setup(tname, vkind):
    """tname: Integer | CommaList | LineList ; vkind: set | unset_default | unset_no_default"""
    def run(ctx):
        ctx.fn(MODULE, 'TorConfig._do_setup')
        import txtorcon.torconfig as tc
        ex = ctx.ex
        path = ctx.new_path()
        cfg = ex.new_inst(path, tc.TorConfig)
        H = path.heap
        o = cfg.oid
        name = z3.String('name')
        ctx.input('name', VStr(name))
        path.assume(z3.Not(z3.SuffixOf(mk_str('PortLines'), name)))
        path.assume(name != mk_str('HiddenServiceOptions'))
        path.assume(z3.String('names_line') != mk_str('config/names='))
        H[('g', 'type_word')] = VStr(tname)
        v = z3.String('reported_text')
        dflt = z3.String('default_text')
        ctx.input('reported_text', VStr(v))
        ctx.input('default_text', VStr(dflt))
        path.assume(v != mk_str('DEFAULT'))
        path.assume(z3.Length(v) > 0)
        path.assume(z3.Not(z3.Contains(v, mk_str('\n'))))
        H[('g', 'reported')] = VStr(v) if vkind == 'set' else VStr('DEFAULT')
        H[('g', 'defaults')] = ex.new_dict(path, [(VStr(name), VStr(dflt))] if vkind == 'unset_default' else [])
        H[('f', o, 'protocol')] = VOpaque('proto', 1)
        H[('f', o, '_supports')] = ex.new_dict(path, [])
        H[('f', o, 'parsers')] = ex.new_dict(path, [])
        H[('f', o, 'config')] = ex.new_dict(path, [])
        H[('f', o, 'unsaved')] = ex.new_dict(path, [])
        from pyvc.sym import VSet
        H[('f', o, 'list_parsers')] = VSet(z3.K(z3.StringSort(), z3.BoolVal(False)), z3.IntVal(0))
        is_list = 'List' in tname
        seen = {}

        def epilogue(ex_, p):
            seen['ok'] = True
            cl = 'the value Tor returned parsed by the option\'s declared type, with unset options reported as their default'
            parsers = p.heap[('dict', p.heap[('f', o, 'parsers')].did)]
            okp = len(parsers) == 1 and isinstance(parsers[0][1], VInst) and parsers[0][1].cls.__name__ == tname
            ctx.oblige('post.declared_type_recorded_for_the_option', p, zand(B(okp), parsers[0][0].t == name) if okp else B(False), clause=cl)
            conf = p.heap[('dict', p.heap[('f', o, 'config')].did)]
            okc = len(conf) == 1 and isinstance(conf[0][0], VStr)
            ctx.oblige('post.option_listed_once_under_its_name', p, zand(B(okc), conf[0][0].t == name) if okc else B(False))
            if not okc:
                return
            val = conf[0][1]
            parsed = ctx.models.glog(p, 'parsed')
            wrapped = ctx.models.glog(p, 'wrapped')
            asked = ctx.models.glog(p, 'asked')
            ctx.oblige('post.value_asked_for_by_name', p, zand(B(len(asked) == 1 and isinstance(asked[0], VStr)), asked[0].t == name) if len(asked) == 1 else B(False))

            def is_parse_of(x, text):
                hits = [pp for pp in parsed if pp[0] is x]
                if len(hits) != 1 or hits[0][1] != tname or not isinstance(hits[0][2], VStr):
                    return B(False)
                return hits[0][2].t == text
            if is_list:
                lp = p.heap[('f', o, 'list_parsers')]
                ctx.oblige('post.list_typed_option_is_registered_as_list', p, z3.Select(lp.t, name) if hasattr(lp, 't') else B(False))
                if vkind == 'unset_no_default':
                    ok = isinstance(val, VList) and len(ex.list_items(p, val)) == 0 and ('g', 'tracked', val.lid) in p.heap
                    ctx.oblige('post.unset_list_without_default_reads_as_empty_tracked_list', p, B(ok), clause=cl)
                else:
                    text = v if vkind == 'set' else dflt
                    hit = [w for w in wrapped if w[0] is val]
                    ok = len(hit) == 1
                    ctx.oblige('post.list_value_is_the_tracked_parse_of_the_reported_text_or_default', p,
                               zand(B(ok), is_parse_of(hit[0][1], text)) if ok else B(False), clause=cl)
                    if ok:
                        cb = hit[0][2]
                        okcb = isinstance(cb, VTuple) and len(cb.items) == 3 and isinstance(cb.items[2], VStr)
                        ctx.oblige('post.in_place_edits_report_this_option', p, zand(B(okcb), cb.items[2].t == name) if okcb else B(False),
                                   clause='list-valued options stay tracked lists so code that reads, edits and saves keeps working')
            else:
                if vkind == 'unset_no_default':
                    ctx.oblige('post.unset_scalar_without_default_is_the_default_marker', p, B(concrete_of(val) == (True, tc.DEFAULT_VALUE)), clause=cl)
                else:
                    ctx.oblige('post.scalar_value_is_the_parse_of_the_reported_text_or_default', p,
                               is_parse_of(val, v if vkind == 'set' else dflt), clause=cl)
        ctx.models.at_epilogue = epilogue
        ctx.cover('pre_satisfiable', path)
        g = ex.getattr_v(path, cfg, '_do_setup')
        try:
            outs = ex.call(g[0][0], g[0][1], [VStr(z3.String('config_names_answer'))], {})
            for p, r in outs:
                if isinstance(r, Raise):
                    if isinstance(r.exc, VInst) and r.exc.cls is KeyboardInterrupt:
                        continue
                    cname = r.exc.cls.__name__ if isinstance(r.exc, VInst) else '?'
                    ctx.oblige('no_exception[%s]' % cname, p, B(False))
        except StopSetup:
            pass
        if not seen:
            ctx.oblige('reached_the_end_of_the_option_loop', path, B(False))
    return run


class DefaultsModels(T.ConfigModels):
    """externals of TorConfig._get_defaults: GETINFO config/defaults through its contract (C13: the raw reply text, or the
    TorProtocolError of a Tor without that key); the reply is 'config/defaults=' followed by one '<Name> <value>' line per entry"""
    def method(self, ex, path, recv, name, args, kw):
        if isinstance(recv, VOpaque) and recv.kind == 'proto' and name == 'get_info_raw':
            self.glog_add(path, 'asked', args[0])
            return [(path, VOpaque('d_defaults_raw', 1))]
        return T.ConfigModels.method(self, ex, path, recv, name, args, kw)

    def await_(self, ex, path, fr, v, node):
        import txtorcon.torcontrolprotocol as tcp
        self.assumptions.add('A3 inlineCallbacks: a yield resumes with the Deferred result or throws its failure into the generator')
        pr = path.fork()
        b = z3.Bool('tor_has_no_config_defaults')
        pr.assume(b)
        path.assume(z3.Not(b))
        exc = ex.new_inst(pr, tcp.TorProtocolError)
        pr.heap[('f', exc.oid, 'code')] = VInt(z3.IntVal(552))
        pr.heap[('f', exc.oid, 'text')] = VStr('Unrecognized key "config/defaults"')
        return [(path, VStr(z3.String('defaults_reply'))), (pr, Raise(exc))]

    def split_hook(self, ex, path, s, args, kw):
        lines = path.heap.get(('g', 'defaults_lines'))
        if lines is not None and isinstance(s, VStr):
            if len(args) == 1 and concrete_of(args[0]) == (True, '\n') and s.t.eq(z3.String('defaults_reply')):
                return [(path, ex.new_list(path, [VStr('config/defaults=')] + [VStr(z3.Concat(k, mk_str(' '), v)) for k, v in lines]))]
            for k, v in lines:
                # '<Name> <value>'.split(' ', 1): the name has no blank, the value may
                if len(args) == 2 and concrete_of(args[0]) == (True, ' ') and concrete_of(args[1]) == (True, 1) and s.t.eq(z3.Concat(k, mk_str(' '), v)):
                    return [(path, ex.new_list(path, [VStr(k), VStr(v)]))]
        return T.ConfigModels.split_hook(self, ex, path, s, args, kw)


def unit_get_defaults(shape):
    """shape: tuple of key indices, one per reply line, e.g. (0, 1) two options, (0, 0) one option listed twice"""
    def run(ctx):
        ctx.fn(MODULE, 'TorConfig._get_defaults')
        import txtorcon.torconfig as tc
        ex = ctx.ex
        path = ctx.new_path()
        cfg = ex.new_inst(path, tc.TorConfig)
        path.heap[('f', cfg.oid, '_protocol')] = VOpaque('proto', 6100)
        path.heap[('f', cfg.oid, 'protocol')] = VOpaque('proto', 6100)
        keys = [z3.String('name%d' % i) for i in range(max(shape) + 1)]
        for i, k in enumerate(keys):
            ctx.input('name%d' % i, VStr(k))
            path.assume(z3.Length(k) > 0)
            path.assume(z3.Not(z3.Contains(k, mk_str(' '))))
            for j in range(i):
                path.assume(k != keys[j])
        vals = [z3.String('value%d' % i) for i in range(len(shape))]
        for i, v in enumerate(vals):
            ctx.input('value%d' % i, VStr(v))
        path.heap[('g', 'defaults_lines')] = tuple((keys[ki], vals[i]) for i, ki in enumerate(shape))
        ctx.cover('pre_satisfiable', path)
        ctx.cover('pre_value_with_option_words', path, z3.Contains(vals[0], mk_str(' ')))
        g = ex.getattr_v(path, cfg, '_get_defaults')
        n_ok = 0
        for p, r in ex.call(g[0][0], g[0][1], [], {}):
            if isinstance(r, Raise):
                cname = r.exc.cls.__name__ if isinstance(r.exc, VInst) else '?'
                ctx.oblige('no_exception[%s]' % cname, p, B(False))
                continue
            n_ok += 1
            pairs = p.heap[('dict', r.did)] if isinstance(r, VDictLit) else None
            if pairs is None:
                ctx.oblige('post.returns_a_dict', p, B(False))
                continue
            refused = z3.Bool('tor_has_no_config_defaults')
            want = []
            for i, ki in enumerate(shape):
                if ki not in [w[0] for w in want]:
                    want.append((ki, [i]))
                else:
                    [w for w in want if w[0] == ki][0][1].append(i)
            goals = [B(len(pairs) == len(want))]
            for (ki, idxs), (k_, v_) in zip(want, pairs):
                goals.append(k_.t == keys[ki] if isinstance(k_, VStr) else B(False))
                if len(idxs) == 1:
                    goals.append(v_.t == vals[idxs[0]] if isinstance(v_, VStr) else B(False))
                else:
                    items = ex.list_items(p, v_) if isinstance(v_, VList) else None
                    goals.append(B(items is not None and len(items) == len(idxs)))
                    if items is not None and len(items) == len(idxs):
                        goals.extend(it.t == vals[i] if isinstance(it, VStr) else B(False) for it, i in zip(items, idxs))
            ctx.oblige('post.every_default_is_recorded_with_its_whole_value_in_order', p,
                       z3.If(refused, B(len(pairs) == 0), zand(*goals)),
                       clause='unset options are reported as the default Tor gives for them (the whole value, option words included)')
        if not n_ok:
            ctx.oblige('some_normal_exit', path, B(False))
    return run


def unit_is_list_type():
    def run(ctx):
        ctx.fn(MODULE, 'is_list_config_type')
        import txtorcon.torconfig as tc
        from pyvc import extract
        ex = ctx.ex
        path = ctx.new_path()
        mi, node = extract.find(MODULE, 'is_list_config_type')
        f = VFunc(node, MODULE, 'is_list_config_type')
        lists = ('LineList', 'CommaList', 'RouterList', 'TimeIntervalCommaList', 'HiddenServices')
        ctx.cover('pre_satisfiable', path)
        for cls in sorted(set(tc.config_types) | {tc.HiddenServices} if hasattr(tc, 'HiddenServices') else set(tc.config_types), key=lambda c: c.__name__):
            for p, r in ex.call(path.fork(), f, [VConc(cls)], {}):
                t = ex.truth_term(p, r) if not isinstance(r, Raise) else B(False)
                ctx.oblige('post.list_valued_types_are_exactly_the_list_types[%s]' % cls.__name__, p, t == B(cls.__name__ in lists),
                           clause='list-valued options are tracked lists (every list type: line, comma, router and interval lists)')
    return run


class WrapModels(T.ConfigModels):
    """externals of _ListWrapper: the inherited list methods (recorded, not modelled: the unit is about *when the owner is told*),
    the owner's callback"""
    def callable_(self, ex, path, obj, args, kw):
        if obj in (list.__init__, list.append, list.extend, list.insert, list.remove, list.pop, list.__setitem__):
            self.glog_add(path, 'list_ops', (obj.__name__, tuple(args[1:])))
            return [(path, NONE)]
        return CommonModelsW.callable_(self, ex, path, obj, args, kw)

    def opaque_call(self, ex, path, f, args, kw):
        if f.kind == 'on_modify_cb':
            self.glog_add(path, 'list_ops', ('<owner told>', ()))
            return [(path, NONE)]
        return T.ConfigModels.opaque_call(self, ex, path, f, args, kw)


from contracts.common import CommonModels as CommonModelsW


def unit_list_wrapper():
    """_ListWrapper: *every* mutating call tells the owner first, then mutates - the first one and every later one (the owner
    forgets after each save)"""
    def run(ctx):
        ctx.fn(MODULE, '_wrapture')
        ctx.fn(MODULE, '_ListWrapper.__init__')
        import txtorcon.torconfig as tc
        ex = ctx.ex
        path = ctx.new_path()
        w = ex.new_inst(path, tc._ListWrapper)
        g = ex.getattr_v(path, w, '__init__')
        outs = ex.call(g[0][0], g[0][1], [ex.new_list(path, [VStr(z3.String('e0'))]), VOpaque('on_modify_cb', 1)], {})
        ctx.cover('pre_satisfiable', path)
        ops = [('append', [VStr(z3.String('x'))]), ('insert', [VInt(z3.IntVal(0)), VStr(z3.String('y'))]), ('pop', []), ('append', [VStr(z3.String('z'))])]
        states = [p for p, r in outs if not isinstance(r, Raise)]
        if not states:
            ctx.oblige('constructor_completes', path, B(False))
        for name, args in ops:
            nxt = []
            for p in states:
                gg = ex.getattr_v(p, w, name)
                for p2, r in ex.call(gg[0][0], gg[0][1], list(args), {}):
                    if isinstance(r, Raise):
                        ctx.oblige('no_exception', p2, B(False))
                    else:
                        nxt.append(p2)
            states = nxt
        for p in states:
            log = [x[0] for x in ctx.models.glog(p, 'list_ops') if x[0] != '__init__']
            want = []
            for name, _ in ops:
                want += ['<owner told>', name]
            ctx.oblige('post.owner_told_before_every_mutation_first_and_later_ones', p, B(log == want),
                       clause='list-valued options stay tracked lists so code that reads, edits and saves keeps working (every in-place edit marks the option)')
        if not states:
            ctx.oblige('some_normal_exit', path, B(False))
    return run


def make_models_for(unit_name):
    if '_ListWrapper' in unit_name:
        return WrapModels()
    if '_get_defaults' in unit_name:
        return DefaultsModels()
    return SetupModels() if '_do_setup' in unit_name else make_models()


def units(tier='quick'):
    out = [('C11/parse/%s' % k, unit_parse(k)) for k in ('Boolean', 'Boolean_Auto_auto', 'Integer', 'LineList_list', 'String', 'Filename')]
    for tname in ('Integer', 'CommaList', 'LineList'):
        for vk in ('set', 'unset_default', 'unset_no_default'):
            out.append(('C11/_do_setup@%s/%s' % (tname, vk), unit_do_setup(tname, vk)))
    out += [('C11/_find_real_name/%s' % k, unit_find_real_name(k)) for k in ('first', 'second', 'none')]
    out += [('C11/_get_defaults@%s' % '_'.join(map(str, sh)), unit_get_defaults(sh)) for sh in (((0,), (0, 1), (0, 0)) if tier == 'quick' else ((0,), (0, 1), (0, 0), (0, 1, 0), (0, 0, 0)))]
    out.append(('C11/is_list_config_type', unit_is_list_type()))
    out.append(('C11/_ListWrapper', unit_list_wrapper()))
    for is_list in (True, False):
        for rep in ('one', 'many', 'unset'):
            if not is_list and rep == 'many':
                continue
            out.append(('C11/_conf_changed/%s/%s' % ('list' if is_list else 'scalar', rep), unit_conf_changed(is_list, rep)))
            out.append(('C11/_conf_changed/%s/%s/pending_local_edit' % ('list' if is_list else 'scalar', rep), unit_conf_changed(is_list, rep, True)))
            out.append(('C11/_conf_changed/%s/%s/name_in_other_case' % ('list' if is_list else 'scalar', rep), unit_conf_changed(is_list, rep, False, True)))
    return out


# ==========================================================================================
from pyvc.report import adopt_twin
FINDING_PATTERNS = []
twin, _replay_twin = adopt_twin('twin.tC11', FINDING_PATTERNS)


def replay(unit, name, model):
    return {'reproduced': False, 'what': 'no native replay for proof counterexamples of this unit'}


def replay_file(doc):
    if doc.get('kind') == 'twin':
        return _replay_twin(doc)
    unit, name = doc['obligation'].split('::')
    return replay(unit, name, doc['model'])
