"""C11 -- config view equals Tor's configuration, with stable types, across change events.

Proof units: each TorConfigType.parse against its declared type; TorConfig._find_real_name (unique key equal up to
case); TorConfig._conf_changed: for every reported option the view gets parse(value) and list-valued options stay
tracked lists whether Tor reported 0, 1 or many values.  _do_setup / bootstrap are checked by the bounded twin."""
import z3

from pyvc.exec import Raise, Unsupported
from pyvc.sym import (VInt, VBool, VStr, VBytes, VNone, NONE, VTuple, VInst, VOpaque, VUnion, VConc, VFunc, VSeq, VList, VDictLit,
                      concrete_of, mk_str, zand, zor)
from pyvc import extract
from contracts import torconfig as T

PROP = 'C11'
MODULE = 'txtorcon.torconfig'
TRUSTED = [
    'parse_keywords result of a CONF_CHANGED payload is taken as given (keyword -> value / DEFAULT / list of values): its loop is covered in C13 (twin)',
    'A7 str.lower() uninterpreted (same function in code and spec); int() model; CommaList split(",") not under contract',
    '_do_setup / bootstrap (long inlineCallbacks orchestration over Tor\'s answers) are NOT under contract: bounded twin only',
    'pyvc semantics; z3/cvc5',
]
LEVEL = 'proof'
MANIFEST = {
    'category': 'proof',
    'technique': 'contract-based deductive verification of TorConfigType.parse per declared type, _find_real_name and the shape-preservation postcondition of the real _conf_changed (pyvc VCs, z3/cvc5); bounded CPython twin over option tables and CONF_CHANGED sequences through a scripted Tor',
    'text': 'Proved: Boolean.parse(s) = (int(s) != 0), Boolean_Auto.parse of the text auto is -1 (numeric inputs: twin), Integer.parse = int, LineList.parse of a list keeps '
            'every element (stripped) in order; _find_real_name returns a key of parsers/config equal to the name up to case when one exists, else the name; '
            '_conf_changed, for a reported scalar option, stores parse(value) (or the parsed default / DEFAULT marker when unset) and, for a list-valued option, '
            'stores a tracked list holding exactly the reported values whether Tor reported none, one or many - and touches no other option.',
    'level_note': 'Bounded (B, never counted as proved): attaching to a running Tor (_do_setup: every declared type x unset/empty/one/many x with/without config/defaults) '
                  'and CONF_CHANGED sequences interleaved with edits and saves - twin. Assumed (A): parse_keywords output shape, lower().',
}


def make_models():
    m = T.ConfigModels()
    return m


def B(x):
    return z3.BoolVal(bool(x))


def unit_parse(kind):
    def run(ctx):
        import txtorcon.torconfig as tc
        cls = {'Boolean': tc.Boolean, 'Boolean_Auto_auto': tc.Boolean_Auto, 'Boolean_Auto_num': tc.Boolean_Auto, 'Integer': tc.Integer, 'LineList_list': tc.LineList}[kind]
        ctx.fn(MODULE, cls.__name__ + '.parse')
        ex = ctx.ex
        path = ctx.new_path()
        inst = VConc(cls())
        s = z3.String('s')
        ctx.input('s', VStr(s))
        digits = z3.InRe(s, z3.Concat(z3.Option(z3.Re('-')), z3.Plus(z3.Range('0', '9'))))
        if kind == 'LineList_list':
            a, b = z3.String('a'), z3.String('b')
            arg = ex.new_list(path, [VStr(a), VStr(b)])
        else:
            arg = VStr(s) if kind != 'Boolean_Auto_auto' else VStr('auto')
            if kind == 'Boolean_Auto_auto':
                path.assume(s == mk_str('auto'))
            else:
                path.assume(z3.InRe(s, z3.Plus(z3.Range('0', '9'))))
        ctx.cover('pre_satisfiable', path)
        outs = ex.getattr_v(path, inst, 'parse')
        outs = ex.call(outs[0][0], outs[0][1], [arg], {})
        for p, r in outs:
            if isinstance(r, Raise):
                ctx.oblige('no_exception_on_well_formed_value', p, B(False))
                continue
            n = z3.StrToInt(s)
            if kind == 'Boolean':
                ctx.oblige('post.boolean_is_int_nonzero', p, r.t == (n != 0) if isinstance(r, VBool) else B(False),
                           clause='the value Tor returned parsed by the declared type (booleans)')
            elif kind == 'Integer':
                ctx.oblige('post.integer_value', p, r.t == n if isinstance(r, VInt) else B(False), clause='integers')
            elif kind.startswith('Boolean_Auto'):
                want = z3.IntVal(-1) if kind.endswith('auto') else z3.If(n != 0, 1, 0)
                ctx.oblige('post.boolean_auto_value', p, r.t == want if isinstance(r, VInt) else B(False))
            else:
                items = ex.list_items(p, r) if isinstance(r, VList) else None
                ctx.oblige('post.line_list_keeps_every_value_in_order', p, B(items is not None and len(items) == 2),
                           clause='line lists: all values in Tor\'s order')
    return run


def unit_find_real_name(present):
    def run(ctx):
        ctx.fn(MODULE, 'TorConfig._find_real_name')
        import txtorcon.torconfig as tc
        ctx.models.find_real_name_contract = False
        ex = ctx.ex
        path = ctx.new_path()
        cfg = ex.new_inst(path, tc.TorConfig)
        k1, k2, name = z3.String('k1'), z3.String('k2'), z3.String('name')
        for n_, v in (('k1', k1), ('k2', k2), ('name', name)):
            ctx.input(n_, VStr(v))
        path.heap[('f', cfg.oid, 'parsers')] = ex.new_dict(path, [(VStr(k1), VConc(tc.String()))])
        path.heap[('f', cfg.oid, 'config')] = ex.new_dict(path, [(VStr(k2), VStr('x'))])
        L = T.F_lower
        path.assume(L(k1) != L(k2))
        if present == 'first':
            path.assume(L(k1) == L(name))
        elif present == 'second':
            path.assume(L(k2) == L(name))
        else:
            path.assume(z3.And(L(k1) != L(name), L(k2) != L(name)))
        ctx.cover('pre_satisfiable', path)
        outs = ex.getattr_v(path, cfg, '_find_real_name')
        outs = ex.call(outs[0][0], outs[0][1], [VStr(name)], {})
        for p, r in outs:
            want = {'first': k1, 'second': k2, 'none': name}[present]
            ctx.oblige('post.returns_the_key_equal_up_to_case_else_the_name', p,
                       r.t == want if isinstance(r, VStr) else B(False), clause='option names matched case-insensitively')
    return run


def unit_conf_changed(is_list, reported, pending_edit=False):
    """reported: 'one' | 'many' | 'unset'; pending_edit: this controller has an unsaved local edit of the same option"""
    def run(ctx):
        ctx.fn(MODULE, 'TorConfig._conf_changed')
        import txtorcon.torconfig as tc
        ex = ctx.ex
        path = ctx.new_path()
        cfg = ex.new_inst(path, tc.TorConfig)
        H = path.heap
        o = cfg.oid
        name, other = z3.String('name'), z3.String('other')
        ctx.input('name', VStr(name))
        path.assume(name != other)
        v1, v2 = z3.String('v1'), z3.String('v2')
        if not is_list:
            path.assume(z3.InRe(v1, z3.Plus(z3.Range('0', '9'))))
        path.assume(v1 != mk_str('DEFAULT'))
        path.assume(z3.Not(z3.Contains(v1, mk_str('\n'))))
        path.assume(z3.Not(z3.Contains(z3.String('default_text'), mk_str('\n'))))
        if reported == 'one':
            val = VStr(v1)
        elif reported == 'many':
            val = ex.new_list(path, [VStr(v1), VStr(v2)])
        else:
            val = VStr('DEFAULT')
        H[('g', 'parse_keywords_result')] = ex.new_dict(path, [(VStr(name), val)])
        parser = tc.LineList() if is_list else tc.Integer()
        H[('f', o, 'parsers')] = ex.new_dict(path, [(VStr(name), VConc(parser)), (VStr(other), VConc(tc.String()))])
        old_other = VStr(z3.String('old_other'))
        old_list = ex.new_list(path, [VStr(z3.String('old0'))])
        H[('f', o, 'config')] = ex.new_dict(path, [(VStr(name), old_list if is_list else VInt(z3.Int('old'))), (VStr(other), old_other)])
        H[('f', o, 'list_parsers')] = VTuple([VStr(name)] if is_list else [])
        has_default = z3.Bool('has_default')
        dflt = z3.String('default_text')
        if not is_list:
            path.assume(z3.InRe(dflt, z3.Plus(z3.Range('0', '9'))))
        H[('f', o, '_defaults')] = VUnion([(has_default, ex.new_dict(path, [(VStr(name), VStr(dflt))])),
                                           (z3.Not(has_default), ex.new_dict(path, []))])
        H[('f', o, 'unsaved')] = ex.new_dict(path, [(VStr(name), VStr(z3.String('locally_edited_value')))] if pending_edit else [])
        ctx.cover('pre_satisfiable', path)
        outs = ex.getattr_v(path, cfg, '_conf_changed')
        outs = ex.call(outs[0][0], outs[0][1], [VStr(z3.String('payload'))], {})
        for p, r in outs:
            if isinstance(r, Raise):
                cname = r.exc.cls.__name__ if isinstance(r.exc, VInst) else '?'
                ctx.oblige('no_exception[%s]' % cname, p, B(False), clause='a CONF_CHANGED event never raises')
                continue
            conf = dict()
            pairs = p.heap[('dict', p.heap[('f', o, 'config')].did)]
            cur = [v for k, v in pairs if isinstance(k, VStr) and z3.is_true(z3.simplify(k.t == name))]
            oth = [v for k, v in pairs if isinstance(k, VStr) and z3.is_true(z3.simplify(k.t == other))]
            ctx.oblige('frame.unreported_option_unchanged', p, B(len(oth) == 1 and oth[0] is old_other and len(pairs) == 2),
                       clause='options not reported keep their values')
            if len(cur) != 1:
                ctx.oblige('post.reported_option_present', p, B(False))
                continue
            v = cur[0]
            if is_list:
                tracked = isinstance(v, VList) and ('g', 'tracked', v.lid) in p.heap
                ctx.oblige('post.list_option_stays_a_tracked_list', p, B(tracked),
                           clause='list-valued options stay tracked lists, whether Tor reports zero, one or many values')
                if tracked:
                    items = ex.list_items(p, v)
                    if reported == 'one':
                        ctx.oblige('post.single_reported_value_is_a_one_element_list', p, B(len(items) == 1))
                    elif reported == 'many':
                        ctx.oblige('post.all_reported_values_in_order', p, B(len(items) == 2))
                    else:
                        ctx.oblige('post.unset_list_reports_its_default', p,
                                   z3.If(has_default, B(len(items) == 1), B(len(items) == 0)),
                                   clause='unset options reported as their default')
                    owner = p.heap[('g', 'tracked', v.lid)]
                    ok_owner = (isinstance(owner, VTuple) and len(owner.items) >= 3 and isinstance(owner.items[1], VFunc)
                                and owner.items[1].qualname.endswith('mark_unsaved') and isinstance(owner.items[2], VStr))
                    ctx.oblige('post.tracked_list_reports_changes_for_this_option', p,
                               zand(B(ok_owner), owner.items[2].t == name) if ok_owner else B(False),
                               clause='so code that reads, edits and saves keeps working')
            else:
                if reported == 'one':
                    ctx.oblige('post.scalar_gets_parsed_value', p, v.t == z3.StrToInt(v1) if isinstance(v, VInt) else B(False),
                               clause='subsequent reads return the new values')
                elif reported == 'unset':
                    ctx.oblige('post.unset_scalar_reports_default_or_marker', p,
                               z3.If(has_default, v.t == z3.StrToInt(dflt) if isinstance(v, VInt) else B(False),
                                     B(isinstance(v, VStr) and concrete_of(v) == (True, 'DEFAULT'))),
                               clause='unset options reported as their default')
    return run


def units():
    out = [('C11/parse/%s' % k, unit_parse(k)) for k in ('Boolean', 'Boolean_Auto_auto', 'Integer', 'LineList_list')]
    out += [('C11/_find_real_name/%s' % k, unit_find_real_name(k)) for k in ('first', 'second', 'none')]
    for is_list in (True, False):
        for rep in ('one', 'many', 'unset'):
            if not is_list and rep == 'many':
                continue
            out.append(('C11/_conf_changed/%s/%s' % ('list' if is_list else 'scalar', rep), unit_conf_changed(is_list, rep)))
            out.append(('C11/_conf_changed/%s/%s/pending_local_edit' % ('list' if is_list else 'scalar', rep), unit_conf_changed(is_list, rep, True)))
    return out


# ==========================================================================================
from pyvc.report import adopt_twin
FINDING_PATTERNS = []
twin, _replay_twin = adopt_twin('twin.tC11', FINDING_PATTERNS)


def replay(unit, name, model):
    return {'reproduced': False, 'what': 'no native replay for proof counterexamples of this unit'}


def replay_file(doc):
    if doc.get('kind') == 'twin':
        return _replay_twin(doc)
    unit, name = doc['obligation'].split('::')
    return replay(unit, name, doc['model'])
