"""C10 -- config changes reach Tor only on save, as one SETCONF with exactly the changes.

Proof units on the real TorConfig.save / _save_completed / mark_unsaved / __setattr__ for symbolic option
names and values over concrete shapes of the pending set (scalar, list of 2, scalar+list, emptied list)."""
import z3

from pyvc.exec import Raise, Unsupported
from pyvc.sym import (VInt, VBool, VStr, VBytes, VNone, NONE, VTuple, VInst, VOpaque, VUnion, VConc, VFunc, VSeq, VList, VDictLit,
                      concrete_of, mk_str, zand, zor)
from contracts import torconfig as T

PROP = 'C10'
MODULE = 'txtorcon.torconfig'
F_EMPTIED = 'emptied-list-sends-no-clearing-entry'
TRUSTED = [
    'set_conf contract (C12): one SETCONF line carrying exactly the given pairs',
    '_find_real_name contract (its own unit in C11): identity on canonical names',
    'a tracked list (_ListWrapper) calls mark_unsaved(owner) before every wrapped mutator (list subclass with wrapped methods: read, not re-proved)',
    'the HiddenServices branch of save() is not under contract (bounded twin only)',
    'dict preserves insertion order (OrderedDict); pyvc semantics; z3/cvc5',
]
LEVEL = 'proof'
MANIFEST = {
    'category': 'proof',
    'technique': 'contract-based deductive verification of the real TorConfig.save / _save_completed / mark_unsaved / __setattr__ for symbolic names and values over enumerated shapes of the pending set (pyvc VCs, z3/cvc5); bounded CPython twin against a simulated Tor store',
    'text': 'Proved for symbolic option names/values: save() with nothing pending sends nothing; otherwise it makes exactly one set_conf call whose argument list is, '
            'in pending order, [k, v] for a scalar and [k, str(x)] per element in list order for a list - no other option - and chains _save_completed, which '
            'empties the pending set; __setattr__ and mark_unsaved send nothing and only add the option to the pending set. Shapes of the pending set are '
            'enumerated (scalar, 2-element list, scalar+list, emptied list); names and values are unbounded.',
    'level_note': 'Known finding: an emptied list produces no clearing entry (pinned by test_log_set_pop). Assumed (A): set_conf and _find_real_name contracts, '
                  'wrapped list mutators. Bounded (B): operation sequences over every declared type with accepted/rejected saves against a simulated Tor store (twin); '
                  'assign-then-mutate-a-stale-read combinations are outside the statement (reads return saved values by documented design).',
}


def make_models():
    return T.ConfigModels()


def B(x):
    return z3.BoolVal(bool(x))


def make_config(ctx, path, pending):
    """pending: list of ('scalar'|'list2'|'list0', name_suffix)"""
    import txtorcon.torconfig as tc
    ex = ctx.ex
    cfg = ex.new_inst(path, tc.TorConfig)
    H = path.heap
    o = cfg.oid
    pairs = []
    parsers = []
    spec_args = []
    for kind, sfx in pending:
        k = z3.String('key_' + sfx)
        ctx.input('key_' + sfx, VStr(k))
        if kind == 'scalar':
            v = z3.String('val_' + sfx)
            pairs.append((VStr(k), VStr(v)))
            parsers.append((VStr(k), VConc(tc.String())))
            spec_args += [('s', k), ('s', v)]
        else:
            n = 2 if kind == 'list2' else 0
            xs = [z3.String('elem_%s_%d' % (sfx, i)) for i in range(n)]
            lv = ex.new_list(path, [VStr(x) for x in xs])
            H[('g', 'tracked', lv.lid)] = VStr(k)
            pairs.append((VStr(k), lv))
            parsers.append((VStr(k), VConc(tc.LineList())))
            for x in xs:
                spec_args += [('s', k), ('s', x)]
                # the DEFAULT sentinel is not a list element (it stands for "unset")
                path.assume(x != mk_str('DEFAULT'))
            # DEFAULT_VALUE elements are skipped by identity; symbolic elements are other objects
    # distinct option names
    ks = [p[0].t for p in pairs]
    for i in range(len(ks)):
        for j in range(i + 1, len(ks)):
            path.assume(ks[i] != ks[j])
        path.assume(ks[i] != mk_str('HiddenServices'))
    H[('f', o, 'unsaved')] = ex.new_dict(path, pairs)
    H[('f', o, 'config')] = ex.new_dict(path, [])
    H[('f', o, 'parsers')] = ex.new_dict(path, parsers)
    H[('f', o, '_protocol')] = VOpaque('proto', 6100)
    H[('f', o, '_setup_')] = NONE
    return cfg, pairs, spec_args


def unit_save(shape):
    shapes = {'nothing': [], 'scalar': [('scalar', 'a')], 'list2': [('list2', 'a')], 'scalar_list': [('scalar', 'a'), ('list2', 'b')],
              'list_scalar': [('list2', 'a'), ('scalar', 'b')], 'emptied': [('list0', 'a')], 'emptied_scalar': [('list0', 'a'), ('scalar', 'b')]}

    def run(ctx):
        for q in ('TorConfig.save', 'TorConfig._save_completed', 'TorConfig.needs_save'):
            ctx.fn(MODULE, q)
        ex = ctx.ex
        path = ctx.new_path()
        cfg, pairs, spec_args = make_config(ctx, path, shapes[shape])
        ctx.cover('pre_satisfiable', path)
        if 'emptied' in shape:
            ctx.region(F_EMPTIED, B(True))
        outs = ex.getattr_v(path, cfg, 'save')
        outs = ex.call(outs[0][0], outs[0][1], [], {})
        for p, r in outs:
            if isinstance(r, Raise):
                ctx.oblige('no_exception', p, B(False))
                continue
            calls = ctx.models.glog(p, 'set_conf')
            if shape == 'nothing':
                ctx.oblige('post.nothing_pending_sends_nothing', p, B(len(calls) == 0), clause='a further save sends nothing')
                continue
            ctx.oblige('post.exactly_one_setconf', p, B(len(calls) == 1), clause='save then sends exactly one SETCONF')
            if len(calls) != 1:
                continue
            args = calls[0]
            if 'emptied' in shape:
                # an emptied list must appear as a request to clear the option: its key is named
                k = pairs[0][0].t
                named = zor(*[a.t == k for a in args[0::2] if isinstance(a, VStr)]) if args else B(False)
                ctx.oblige('post.emptied_list_is_sent_as_a_request_to_clear_the_option', p, named,
                           clause='an emptied list as a request to clear the option')
                continue
            ok = len(args) == len(spec_args) and all(isinstance(a, VStr) for a in args)
            ctx.oblige('post.argument_list_names_exactly_the_changed_options_in_order', p,
                       zand(B(ok), *[a.t == s_[1] for a, s_ in zip(args, spec_args)]) if ok else B(False),
                       clause='names exactly the options changed since the last successful save - scalar options once with their value, list options once per element in list order - and no unchanged option')
            chained = ctx.models.glog(p, 'chained')
            n_pending = lambda q_: len(q_.heap[('dict', q_.heap[('f', cfg.oid, 'unsaved')].did)])
            ctx.oblige('post.pending_set_untouched_until_tor_answers', p, B(n_pending(p) == len(pairs)),
                       clause='if Tor rejects the save the changes remain pending and are not lost')
            if chained:
                # what is registered on the SETCONF Deferred is run: acknowledgement clears the pending set, rejection keeps it
                from pyvc import chain as CH
                entries = CH.entries_of(chained, chained[0][0])
                for q, v, bad in CH.run(ex, p.fork(), entries, VStr('OK'), models=ctx.models):
                    ctx.oblige('post.acknowledgement_clears_the_pending_set', q, B(not bad and n_pending(q) == 0),
                               clause='after Tor acknowledges, nothing is pending')
                    # a saved list option keeps the very tracked list the caller mutated (a copy would cut the caller's list
                    # off: later in-place changes of it would no longer become pending)
                    conf = q.heap[('dict', q.heap[('f', cfg.oid, 'config')].did)]
                    for (k0, v0) in pairs:
                        if not isinstance(v0, VList):
                            # a text option (String parser): what reads return afterwards is the text that was sent
                            cur = [v_ for k_, v_ in conf if isinstance(k_, VStr) and k_.t.eq(k0.t)]
                            ctx.oblige('post.saved_text_value_reads_back_as_sent', q,
                                       zand(B(len(cur) == 1 and isinstance(cur[0], VStr)), cur[0].t == v0.t) if len(cur) == 1 and isinstance(cur[0], VStr) else B(False),
                                       clause='after Tor acknowledges, reads return the saved values')
                            continue
                        cur = [v_ for k_, v_ in conf if isinstance(k_, VStr) and k_.t.eq(k0.t)]
                        ctx.oblige('post.saved_list_is_the_tracked_list_the_caller_holds', q,
                                   B(len(cur) == 1 and isinstance(cur[0], VList) and cur[0].lid == v0.lid and ('g', 'tracked', v0.lid) in q.heap),
                                   clause='mutating list-valued options in place: the list the caller mutated stays the live, tracked one')
                fail = VOpaque('failure', 51)
                for q, v, bad in CH.run(ex, p.fork(), entries, fail, failed=True, models=ctx.models, is_failure=lambda x: x is fail):
                    ctx.oblige('post.rejection_keeps_the_changes_pending', q, B(n_pending(q) == len(pairs)),
                               clause='if Tor rejects the save the changes remain pending and are not lost')
            else:
                ctx.oblige('post.the_answer_to_setconf_is_awaited', p, B(False))
    return run


def unit_save_completed():
    def run(ctx):
        ctx.fn(MODULE, 'TorConfig._save_completed')
        ex = ctx.ex
        path = ctx.new_path()
        cfg, pairs, spec_args = make_config(ctx, path, [('scalar', 'a'), ('list2', 'b')])
        ctx.cover('pre_satisfiable', path)
        outs = ex.getattr_v(path, cfg, '_save_completed')
        outs = ex.call(outs[0][0], outs[0][1], [VStr('OK')], {})
        for p, r in outs:
            u = p.heap[('f', cfg.oid, 'unsaved')]
            empty = isinstance(u, VDictLit) and len(p.heap[('dict', u.did)]) == 0
            ctx.oblige('post.nothing_pending_after_acknowledgement', p, B(empty and not isinstance(r, Raise)),
                       clause='after Tor acknowledges, nothing is pending')
            ctx.oblige('post.sends_nothing', p, B(len(ctx.models.glog(p, 'set_conf')) == 0))
    return run


def unit_mark_unsaved(already):
    def run(ctx):
        ctx.fn(MODULE, 'TorConfig.mark_unsaved')
        ex = ctx.ex
        path = ctx.new_path()
        cfg, pairs, _ = make_config(ctx, path, [('scalar', 'p')] if already else [])
        name = z3.String('name')
        ctx.input('name', VStr(name))
        lv = ex.new_list(path, [VStr(z3.String('x0'))])
        path.heap[('dict', path.heap[('f', cfg.oid, 'config')].did)] = ((VStr(name), lv),)
        if already:
            path.assume(name == pairs[0][0].t)
        ctx.cover('pre_satisfiable', path)
        outs = ex.getattr_v(path, cfg, 'mark_unsaved')
        outs = ex.call(outs[0][0], outs[0][1], [VStr(name)], {})
        for p, r in outs:
            ctx.oblige('post.in_place_list_change_sends_nothing', p, B(len(ctx.models.glog(p, 'set_conf')) == 0 and not isinstance(r, Raise)),
                       clause='mutating list-valued options in place sends nothing to Tor until save is called')
            u = p.heap[('dict', p.heap[('f', cfg.oid, 'unsaved')].did)]
            if already:
                ctx.oblige('post.pending_entry_kept', p, B(len(u) == 1))
            else:
                ok = len(u) == 1 and isinstance(u[0][0], VStr) and isinstance(u[0][1], VList) and u[0][1].lid == lv.lid
                ctx.oblige('post.option_becomes_pending_with_the_live_list', p, zand(B(ok), u[0][0].t == name) if ok else B(False),
                           clause='the in-place change is what the next save sends (same list object)')
    return run


def unit_setattr(kind0):
    def run(ctx):
        kind = kind0
        ctx.fn(MODULE, 'TorConfig.__setattr__')
        import txtorcon.torconfig as tc
        ex = ctx.ex
        path = ctx.new_path()
        cfg, pairs, _ = make_config(ctx, path, [])
        name = z3.String('name')
        ctx.input('name', VStr(name))
        path.assume(F_lower_ne_hidden(name))
        parser = {'string': tc.String(), 'filename': tc.Filename(), 'boolean': tc.Boolean(), 'linelist': tc.LineList(), 'portlist': tc.String(),
                  'portlist_from_tracked': tc.String()}[kind]
        path.heap[('dict', path.heap[('f', cfg.oid, 'parsers')].did)] = ((VStr(name), VConc(parser)),)
        tracked_for = None
        if kind == 'portlist_from_tracked':
            kind = 'portlist'
            tracked_for = VTuple([VConc('partial'), VOpaque('bound_mark_unsaved', 1), VStr(z3.String('other_option'))])
        if kind in ('linelist', 'portlist'):
            # ('portlist': a list-valued option whose parser does not wrap, e.g. SocksPort / ORPort with the String parser)
            value = ex.new_list(path, [VStr(z3.String('e0')), VStr(z3.String('e1'))])
            if tracked_for is not None:
                # the assigned value is itself a tracked list - the one read from another option (cfg.A = cfg.B)
                path.assume(z3.String('other_option') != name)
                path.heap[('g', 'tracked', value.lid)] = tracked_for
        elif kind == 'boolean':
            value = VBool(z3.Bool('flag'))
        else:
            value = VStr(z3.String('value'))
        ctx.cover('pre_satisfiable', path)
        outs = ex.getattr_v(path, cfg, '__setattr__')
        outs = ex.call(outs[0][0], outs[0][1], [VStr(name), value], {})
        for p, r in outs:
            if isinstance(r, Raise):
                ctx.oblige('no_exception', p, B(False))
                continue
            ctx.oblige('post.assignment_sends_nothing', p, B(len(ctx.models.glog(p, 'set_conf')) == 0),
                       clause='changing configuration attributes sends nothing to Tor until save is called')
            u = p.heap[('dict', p.heap[('f', cfg.oid, 'unsaved')].did)]
            ok = len(u) == 1 and isinstance(u[0][0], VStr)
            ctx.oblige('post.option_becomes_pending', p, zand(B(ok), u[0][0].t == name) if ok else B(False))
            if ok and kind in ('string', 'filename'):
                v = u[0][1]
                ctx.oblige('post.text_value_becomes_pending_exactly_as_assigned', p, v.t == z3.String('value') if isinstance(v, VStr) else B(False),
                           clause='scalar options once with their validated value (text types: the text the application assigned)')
            if ok and kind == 'boolean':
                v = u[0][1]
                ctx.oblige('post.boolean_validated_to_0_or_1', p,
                           v.t == z3.If(z3.Bool('flag'), 1, 0) if isinstance(v, VInt) else B(False),
                           clause='scalar options once with their validated value')
            if ok and kind in ('linelist', 'portlist'):
                v = u[0][1]
                items = ex.list_items(p, v) if isinstance(v, VList) else None
                same = zand(*[(it.t == z3.String('e%d' % i_)) if isinstance(it, VStr) else B(False) for i_, it in enumerate(items)]) \
                    if items is not None and len(items) == 2 else B(False)
                ctx.oblige('post.list_assignment_is_tracked_with_its_elements', p,
                           zand(B(items is not None and len(items) == 2 and ('g', 'tracked', v.lid) in p.heap), same),
                           clause='including mutating list-valued options in place (the assigned list is a tracked list)')
                if items is not None and ('g', 'tracked', v.lid) in p.heap:
                    who = p.heap[('g', 'tracked', v.lid)]
                    mine = (isinstance(who, VTuple) and len(who.items) == 3 and isinstance(who.items[2], VStr))
                    ctx.oblige('post.tracked_list_reports_changes_for_this_option', p,
                               zand(B(v.lid != value.lid), who.items[2].t == name) if mine else B(False),
                               clause='an in-place change of the assigned list marks *this* option pending (its own tracked list, '
                                      'not one that reports to another option)')
    return run


def F_lower_ne_hidden(name):
    from pyvc.exec import ci_regex
    return z3.Not(z3.InRe(name, ci_regex('hiddenservices')))


def units():
    out = [('C10/save/%s' % s, unit_save(s)) for s in ('nothing', 'scalar', 'list2', 'scalar_list', 'list_scalar', 'emptied', 'emptied_scalar')]
    out += [('C10/_save_completed', unit_save_completed()), ('C10/mark_unsaved/new', unit_mark_unsaved(False)),
            ('C10/mark_unsaved/already_pending', unit_mark_unsaved(True))]
    out += [('C10/__setattr__/%s' % k, unit_setattr(k)) for k in ('string', 'filename', 'boolean', 'linelist', 'portlist', 'portlist_from_tracked')]
    return out


# ==========================================================================================
from pyvc.report import adopt_twin
FINDING_PATTERNS = [(r'emptied_list_clears_option', F_EMPTIED)]
_twin, _replay_twin = adopt_twin('twin.tC10', FINDING_PATTERNS)


def _outside_statement(v):
    """assign-then-mutate-a-stale-read: TorConfig reads return the saved value by documented design, so an in-place
    mutation made while an assignment of the same option is still pending (unsaved or rejected) has no defined
    combined meaning in the statement (DESIGN 4 C10)"""
    k = v.get('key', '')
    if 'list_assigned_then_mutated_before_save' in k:
        return True
    if 'mutated_after_string_assignment_was_sent' in k:
        ops = (v.get('history') or {}).get('ops') or []
        return any(op[0] == 'save' and op[1] is False for op in ops)
    return False


def twin(tier, seed):
    r = _twin(tier, seed)
    r['violations'] = [v for v in r['violations'] if not _outside_statement(v)]
    return r


def replay(unit, name, model):
    if 'emptied' in unit:
        from twin import tC10
        h = {"opts": ["Log"], "init": {"Log": ["notice stdout", "info file /x"]}, "ops": [["set", 0, []], ["save", True]], "events": False, "case": "exact"}
        try:
            v = tC10.replay_history(h)
        except Exception as e:
            return {'reproduced': False, 'what': repr(e)}
        v = [x for x in v if 'emptied' in x.get('key', '')]
        return {'reproduced': bool(v), 'history': h, 'what': v[0]['what'] if v else '', 'finding': F_EMPTIED if v else None}
    return {'reproduced': False, 'what': 'no native replay for this unit'}


def replay_file(doc):
    if doc.get('kind') == 'twin':
        return _replay_twin(doc)
    unit, name = doc['obligation'].split('::')
    return replay(unit, name, doc['model'])
