"""Native replay of proof counterexamples for C04 units: the model's booleans pick the advertised methods,
the cookie-file condition (a real temporary file), the provider and the failing bootstrap query; the real
TorControlProtocol methods are called with queue_command / get_info replaced by recorders."""
import os
import shutil
import tempfile

from twin import control_session as _CS  # noqa: F401  (silences Twisted's stderr logging)


def _proto(password_function=None):
    from twisted.internet import defer
    import txtorcon
    p = txtorcon.TorControlProtocol(password_function)
    p.sent = []

    def queue_command(cmd, arg=None):
        d = defer.Deferred()
        p.sent.append((cmd if isinstance(cmd, bytes) else cmd.encode('ascii'), d))
        return d
    p.queue_command = queue_command
    return p


def replay_do_authenticate(model):
    from twisted.internet import defer
    if any(('method%d' % i) in model for i in range(4)):
        import re as _re
        # Tor's own order of the advertised tokens (tokens that are not method names are kept when they are harmless words)
        adv = [t for t in (model.get('method%d' % i) for i in range(4)) if isinstance(t, str) and _re.fullmatch(r'[A-Za-z0-9_]+', t)]
    else:
        adv = [m for m in ('SAFECOOKIE', 'COOKIE', 'HASHEDPASSWORD', 'NULL') if model.get('advertised_' + m)]
    has_cf = bool(model.get('has_cookiefile_field'))
    cond = 'ok' if model.get('cookie_readable_32') else ('io' if model.get('cookie_unreadable') else 'bad')
    has_pw = bool(model.get('has_password_provider'))
    asked = []

    def provider():
        asked.append(1)
        return 'secret'
    tmp = tempfile.mkdtemp(prefix='verif_c04_')
    try:
        path = os.path.join(tmp, 'control_auth_cookie')
        cookie = bytes(range(32))
        if cond == 'ok':
            open(path, 'wb').write(cookie)
        elif cond == 'bad':
            open(path, 'wb').write(cookie[:31])
        p = _proto(provider if has_pw else None)
        nonce = b'N' * 32
        import txtorcon.torcontrolprotocol as tcp
        real_urandom = tcp.os.urandom
        lines = ['PROTOCOLINFO 1', 'AUTH METHODS=%s%s' % (','.join(adv) or 'NONE', (' COOKIEFILE="%s"' % path) if has_cf else ''),
                 'VERSION Tor="0.4.8.9"', 'OK']
        raised = None
        res = []
        try:
            tcp.os.urandom = lambda n: nonce
            try:
                d = p._do_authenticate('\n'.join(lines))
            finally:
                tcp.os.urandom = real_urandom
            if isinstance(d, defer.Deferred):
                d.addBoth(res.append)
        except Exception as e:
            raised = e
        sent = [c for c, _ in p.sent]
        cookie_method = 'SAFECOOKIE' in adv or 'COOKIE' in adv
        usable = cookie_method and has_cf and cond == 'ok'
        pw_ok = has_pw and 'HASHEDPASSWORD' in adv
        import binascii
        if usable and 'SAFECOOKIE' in adv:
            want, want_asked = [b'AUTHCHALLENGE SAFECOOKIE ' + binascii.hexlify(nonce)], 0
        elif usable:
            want, want_asked = [b'AUTHENTICATE ' + binascii.hexlify(cookie)], 0
        elif cookie_method and (not has_cf or cond == 'bad' or (cond == 'io' and not pw_ok)):
            want, want_asked = [], 0
        elif pw_ok:
            want, want_asked = [b'AUTHENTICATE ' + binascii.hexlify(b'secret')], 1
        elif 'NULL' in adv:
            want, want_asked = [b'AUTHENTICATE'], 0
        else:
            want, want_asked = [], 0
        got = [c.upper() if c.startswith(b'AUTHCHALLENGE') else c for c in sent]
        want_cmp = [c.upper() if c.startswith(b'AUTHCHALLENGE') else c for c in want]
        bad = got != want_cmp or len(asked) != want_asked
        failed = raised is not None or any(hasattr(r, 'value') for r in res)
        if not want and not want_asked and not failed:
            bad = True
        return {'reproduced': bool(bad), 'advertised': adv, 'cookiefile_field': has_cf, 'cookie': cond, 'provider': has_pw,
                'observed_commands': [repr(c) for c in sent], 'expected_commands': [repr(c) for c in want],
                'provider_calls': len(asked), 'expected_provider_calls': want_asked, 'failed': bool(failed)}
    finally:
        shutil.rmtree(tmp, ignore_errors=True)


def replay_bootstrap(model):
    from twisted.internet import defer
    from twisted.python.failure import Failure
    import txtorcon.torcontrolprotocol as tcp
    p = _proto()
    ready = []
    p.post_bootstrap.addBoth(ready.append)
    out = []
    d = p._bootstrap('OK')
    d.addBoth(out.append)
    replies = [b'signal/names=RELOAD NEWNYM', b'version=0.4.8.9', b'events/names=CIRC STREAM', b'OK']
    any_failed = False
    tolerated = False
    for i in range(4):
        if len(p.sent) <= i:
            break
        cmd, dd = p.sent[i]
        if model.get('await%d_fails_5xx' % i):
            any_failed = True
            if i == 0:
                tolerated = True
            dd.errback(Failure(tcp.TorProtocolError(552, 'refused')))
        elif model.get('await%d_fails_otherwise' % i):
            any_failed = True
            dd.errback(Failure(tcp.TorDisconnectError(text='lost', error=None)))
            break
        else:
            dd.callback(replies[i].decode('ascii'))
    ok = [r for r in ready if r is p]
    err = [r for r in ready if r is not p]
    bad = len(ready) > 1 or (bool(ok) != (not any_failed))
    n_failed = sum(1 for i in range(4) if model.get('await%d_fails_5xx' % i) or model.get('await%d_fails_otherwise' % i))
    if bad and tolerated and n_failed == 1 and len(ready) == 1:
        return {'reproduced': True, 'finding': 'signal-names-refusal-tolerated',
                'what': 'ready succeeded although GETINFO signal/names was answered 5xx', 'commands': [repr(c) for c, _ in p.sent]}
    return {'reproduced': bool(bad), 'ready_results': ['ok' if r is p else 'err' for r in ready], 'a_query_failed': any_failed,
            'only_signal_names_5xx': tolerated and sum(1 for i in range(4) if model.get('await%d_fails_5xx' % i) or model.get('await%d_fails_otherwise' % i)) == 1,
            'commands': [repr(c) for c, _ in p.sent]}


def replay_read_cookie(model):
    content = model.get('file_content', b'')
    if isinstance(content, dict):
        content = bytes.fromhex(content.get('bytes_hex', ''))
    if isinstance(content, str):
        content = content.encode('latin-1', 'replace')
    tmp = tempfile.mkdtemp(prefix='verif_c04_')
    try:
        path = os.path.join(tmp, 'cookie')
        open(path, 'wb').write(content)
        p = _proto()
        raised = None
        try:
            p._read_cookie(path)
        except Exception as e:
            raised = e
        accepted = raised is None
        bad = accepted != (len(content) == 32) or (accepted and p._cookie_data != content)
        return {'reproduced': bool(bad), 'length': len(content), 'accepted': accepted, 'raised': repr(raised)}
    finally:
        shutil.rmtree(tmp, ignore_errors=True)


def replay(unit, name, model):
    model = model or {}
    part = unit.split('/', 1)[1]
    if part == '_do_authenticate':
        return replay_do_authenticate(model)
    if part == '_bootstrap':
        return replay_bootstrap(model)
    if part == '_read_cookie':
        return replay_read_cookie(model)
    return {'reproduced': False, 'what': 'no native replay for proof counterexamples of this unit'}
