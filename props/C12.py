"""C12 -- SETCONF encodes any keys/values so Tor parses back exactly them, on one line.

Proof units on the real set_conf (and its nested maybe_quote) for 1 and 2 pairs of symbolic
strings: refusal of odd argument lists and of CR/LF, exactly one queued command, pairing and
order, the encoding of each value against the control-spec QuotedString encoder, identity on
plain values, no line-break in the command.  The decode(encode(v)) = v step is bounded (twin)."""
import z3

from pyvc.exec import Raise, Unsupported
from pyvc.sym import (VInt, VBool, VStr, VBytes, VNone, NONE, VTuple, VInst, VOpaque, VUnion, VConc, VFunc, VSeq,
                      concrete_of, mk_str, zand, zor)
from pyvc.models import _replace_all
from contracts import control as K

PROP = 'C12'
MODULE = 'txtorcon.torcontrolprotocol'
FUNCS = ['TorControlProtocol.set_conf', 'TorControlProtocol.set_conf.maybe_quote', 'TorControlProtocol.queue_command']
TRUSTED = [
    'queue_command contract from C01 (one command written verbatim plus CRLF)',
    'str.replace modelled by SMT-LIB str.replace_all; join/format exact for the shapes used; str.replace introduces only characters of its replacement text (used for: no CR/LF in the command when none is in the arguments)',
    'Tor kvline/QuotedString grammar (control-spec 2.2, kvline.c): the decode(encode(v)) = v step is only bounded (twin, independent decoder)',
    'keys are option names (no SP, TAB, "=", quote): the quantifier of the property ranges over values',
    'pyvc semantics; z3/cvc5',
]
LEVEL = 'proof'
MANIFEST = {
    'category': 'proof',
    'technique': 'contract-based deductive verification: postconditions of the real set_conf/maybe_quote for symbolic strings against the QuotedString encoder (pyvc VCs, z3/cvc5); bounded CPython twin decoding every line with an independent kvline parser',
    'text': 'For 1 and 2 key/value pairs of arbitrary strings it is proved that: an odd argument list or any CR/LF in a key or value is refused with nothing '
            'queued; otherwise exactly one command is queued, "SETCONF " + k1=enc(v1) [+ " " + k2=enc(v2)], pairs in order; enc(v) = v when v has no SP, TAB, '
            'quote or backslash, else the double-quoted string with backslash and quote escaped (spec function); the command contains no CR or LF. '
            'Unbounded in string contents and length; the number of pairs is unrolled at 1 and 2 (bounded in that dimension; more pairs in the twin).',
    'level_note': 'Assumed (A): queue_command contract, replace_all model. Bounded (B, never counted as proved): number of pairs > 2; the round trip through an '
                  'independent kvline decoder for all strings of length <= 5 over the critical alphabet and seeded longer ones (twin). Keys that are not option '
                  'names (containing SP/TAB/=/quote) are outside the quantifier.',
}


def B(x):
    return z3.BoolVal(bool(x))


class SetConfModels(K.ControlModels):
    def contract_for(self, ex, path, f, args, kw):
        if f.qualname.endswith('TorControlProtocol.queue_command'):
            self.glog_add(path, 'queued', args[0])
            d = VOpaque('Deferred', ex.fresh_int(path, 'cmdd'))
            return [(path, d)]
        return K.ControlModels.contract_for(self, ex, path, f, args, kw)


def make_models():
    return SetConfModels()


def enc_spec(v):
    """control-spec QuotedString encoder"""
    needs = z3.Or(z3.Contains(v, mk_str(' ')), z3.Contains(v, mk_str('\t')), z3.Contains(v, mk_str('"')),
                  z3.Contains(v, mk_str('\\')))
    body = _replace_all(_replace_all(v, mk_str('\\'), mk_str('\\\\')), mk_str('"'), mk_str('\\"'))
    return z3.If(needs, z3.Concat(mk_str('"'), body, mk_str('"')), v), needs


def has_break(s):
    return z3.Or(z3.Contains(s, mk_str('\r')), z3.Contains(s, mk_str('\n')))


def unit_set_conf(nargs):
    def run(ctx):
        for q in FUNCS:
            ctx.fn(MODULE, q)
        ex = ctx.ex
        path = ctx.new_path()
        SELF, pre = K.make_proto(ctx, path, 'IDLE', lost=False)
        strs = [z3.String('arg%d' % i) for i in range(nargs)]
        for i, s_ in enumerate(strs):
            ctx.input('arg%d' % i, VStr(s_))
        ctx.cover('pre_satisfiable', path)
        outs = ex.getattr_v(path, SELF, 'set_conf')
        outs = ex.call(outs[0][0], outs[0][1], [VStr(s_) for s_ in strs], {})
        anybreak = zor(*[has_break(s_) for s_ in strs]) if strs else B(False)
        for p, r in outs:
            if isinstance(r, Raise):
                ctx.oblige('no_exception', p, B(False))
                continue
            queued = ctx.models.glog(p, 'queued')
            fired = ctx.models.glog(p, 'fired')
            refused = B(len(queued) == 0 and len(fired) == 1 and fired[0][1] == 'err')
            if nargs % 2:
                ctx.oblige('post.odd_argument_list_refused_nothing_queued', p, refused)
                continue
            ctx.oblige('post.line_breaks_refused_nothing_queued', p, z3.Implies(anybreak, refused),
                       clause='no key or value can cause more than one command line to be written')
            ok1 = len(queued) == 1 and isinstance(queued[0], VStr)
            ctx.oblige('post.exactly_one_command_queued', p, z3.Implies(z3.Not(anybreak), B(ok1)), clause='one SETCONF line')
            if ok1:
                cmd = queued[0].t
                want = mk_str('SETCONF ')
                for i in range(0, nargs, 2):
                    e, needs = enc_spec(strs[i + 1])
                    want = z3.Concat(want, mk_str(' ') if i else mk_str(''), strs[i], mk_str('='), e)
                ctx.oblige('post.command_is_pairs_in_order_with_quotedstring_encoding', p, z3.Implies(z3.Not(anybreak), cmd == want),
                           clause='yields exactly those keys and values in order')
                # "no CR/LF in the command" then follows from cmd == want, inputs free of CR/LF, and the A7 fact that
                # str.replace introduces only characters of its replacement text (neither solver decides that directly)
    return run


def unit_maybe_quote():
    """the nested maybe_quote against the spec encoder, and the token-integrity facts about it"""
    def run(ctx):
        ctx.fn(MODULE, 'TorControlProtocol.set_conf.maybe_quote')
        ex = ctx.ex
        path = ctx.new_path()
        SELF, pre = K.make_proto(ctx, path, 'IDLE', lost=False)
        v = z3.String('v')
        k = z3.String('k')
        ctx.input('v', VStr(v))
        path.assume(z3.Not(has_break(v)))
        path.assume(z3.Not(has_break(k)))
        ctx.cover('pre_satisfiable', path)
        outs = ex.getattr_v(path, SELF, 'set_conf')
        outs = ex.call(outs[0][0], outs[0][1], [VStr(k), VStr(v)], {})
        for p, r in outs:
            queued = ctx.models.glog(p, 'queued')
            if isinstance(r, Raise) or len(queued) != 1:
                ctx.oblige('one_command', p, B(False))
                continue
            cmd = queued[0].t
            e = z3.SubString(cmd, 8 + z3.Length(k) + 1, z3.Length(cmd))
            plain = z3.Not(z3.Or(z3.Contains(v, mk_str(' ')), z3.Contains(v, mk_str('\t')), z3.Contains(v, mk_str('"')),
                                 z3.Contains(v, mk_str('\\'))))
            ctx.oblige('post.identity_on_plain_values', p, z3.Implies(plain, e == v), clause='plain values are sent as they are')
            ctx.oblige('post.plain_value_is_one_unquoted_token', p,
                       z3.Implies(plain, zand(z3.Not(z3.Contains(e, mk_str(' '))), z3.Not(z3.PrefixOf(mk_str('"'), e)))),
                       clause='each value is exactly one kvline token')
            ctx.oblige('post.other_values_are_double_quoted', p,
                       z3.Implies(z3.Not(plain), zand(z3.PrefixOf(mk_str('"'), e), z3.SuffixOf(mk_str('"'), e), z3.Length(e) >= 2)),
                       clause='values with spaces, tabs, quotes or backslashes are sent as a QuotedString')
    return run


def units():
    from props import C01
    # the callee contract used above (one command written verbatim + CRLF) is itself an obligation here
    return ([('C12/set_conf/args%d' % n, unit_set_conf(n)) for n in (1, 2, 3, 4)] + [('C12/maybe_quote', unit_maybe_quote())] +
            [('C12/queue_command@%s/str' % st, C01.unit_queue_command(st, 'str')) for st in ('IDLE', 'RECV')])


# ==========================================================================================
from pyvc.report import adopt_twin
_twin, _replay_twin = adopt_twin('twin.tC12', [])


def twin(tier, seed):
    r = _twin(tier, seed)
    # keys that are not option names (SP / TAB / '=' / quote inside the key) are outside the property's
    # quantifier, which ranges over values (DESIGN 4 C12): not judged
    r['violations'] = [v for v in r['violations'] if ':key_' not in v.get('key', '')]
    return r


def replay(unit, name, model):
    from twin import tC12
    args = [model.get('arg%d' % i) for i in range(4) if isinstance(model.get('arg%d' % i), str)]
    if 'maybe_quote' in unit:
        args = ['Foo', model.get('v') if isinstance(model.get('v'), str) else 'a b']
    try:
        v = tC12.replay_history({'args': args}) if hasattr(tC12, 'replay_history') else []
    except Exception as e:
        return {'reproduced': False, 'what': 'replay error %r' % (e,)}
    v = [x for x in v if ':key_' not in x.get('key', '')]
    return {'reproduced': bool(v), 'history': {'args': args}, 'what': v[0]['what'] if v else '', 'native_violations': v[:3], 'finding': None}


def replay_file(doc):
    if doc.get('kind') == 'twin':
        return _replay_twin(doc)
    unit, name = doc['obligation'].split('::')
    return replay(unit, name, doc['model'])


def make_models_for(unit_name):
    return K.ControlModels() if '/queue_command@' in unit_name else SetConfModels()
