"""C17 -- onion listen(): loopback listener, exact port mapping, no leak on failure.

Proof units on the real TCPHiddenServiceEndpoint.listen coroutine with EVERY await allowed to fail (config,
bootstrap, local bind, service creation incl. the descriptor wait, the clean-up itself): loopback-only bind
string, the mapping handed to the create function, result built only after creation returned, and
bound => stopped on every exceptional exit; TorOnionListeningPort address/stopListening; parseStreamServer refusals."""
import z3

from pyvc.exec import Raise, Unsupported
from pyvc.sym import (VInt, VBool, VStr, VBytes, VNone, NONE, VTuple, VInst, VOpaque, VUnion, VConc, VFunc, VSeq, VList, VBoundExt,
                      concrete_of, mk_str, zand, zor)
from contracts.common import CommonModels

PROP = 'C17'
MODULE = 'txtorcon.endpoints'
CREATE_FUNCS = ('EphemeralOnionService.create', 'EphemeralAuthenticatedOnionService.create',
                'FilesystemOnionService.create', 'FilesystemAuthenticatedOnionService.create')
TRUSTED = [
    'A3 inlineCallbacks / Deferred semantics: every yield either resumes with a result or throws',
    'serverFromString(reactor, s).listen binds what its string says (Twisted); IListeningPort.stopListening closes it',
    'the four onion-service create functions are used through their contract (C14/C15): a Deferred that yields the service once it exists and its descriptor wait is over, or fails',
    'os.path.exists/abspath uninterpreted; logging has no effect',
    'pyvc semantics; z3/cvc5',
]
LEVEL = 'proof'
MANIFEST = {
    'category': 'proof',
    'technique': 'contract-based deductive verification of the real listen() coroutine with every await allowed to raise (exceptional postcondition bound => stopped), of the mapping/bind-string postconditions, of TorOnionListeningPort and of the option refusals in parseStreamServer (pyvc VCs, z3/cvc5); bounded CPython twin on a memory reactor with failures injected at every step',
    'text': 'Proved for ephemeral and filesystem endpoints, with and without authentication, symbolic public port and symbolic bound port: the local endpoint string '
            'is exactly tcp:0:interface=127.0.0.1; exactly one create call is made, after the bind, with the single mapping "<public> 127.0.0.1:<bound port>"; on '
            'normal exit the result wraps the bound port, the public port and the created service and nothing was stopped; on every exceptional exit after the '
            'bind (creation / descriptor wait failed) stopListening was called on the bound port and the original error propagates; failures before the bind leave '
            'nothing bound. TorOnionListeningPort.getHost reports the public port and stopListening delegates to the local port.',
    'level_note': 'Assumed (A): the create functions\' contract, Twisted endpoints, Deferred semantics. Bounded (B): every endpoint configuration x a failure at each step on a '
                  'MemoryReactor with a scripted Tor (twin); a service directory already configured in Tor (prior state) is outside the quantifier and not enumerated.',
}


def B(x):
    return z3.BoolVal(bool(x))


class Models17(CommonModels):
    def callable_(self, ex, path, obj, args, kw):
        import os
        from twisted.internet.endpoints import serverFromString
        if obj is serverFromString:
            self.glog_add(path, 'server_strings', args[1])
            return [(path, VOpaque('local_endpoint', 5100))]
        if obj in (os.path.exists,):
            return [(path, VBool(z3.Bool('dir_exists')))]
        if obj in (os.path.abspath, os.path.realpath, os.path.expanduser):
            return [(path, VStr(z3.Function('abspath', z3.StringSort(), z3.StringSort())(args[0].t)))]
        import tempfile
        import functools
        import twisted.internet.defer as _defer
        if obj is tempfile.mkdtemp:
            self.glog_add(path, 'started', ('mkdtemp',))
            return [(path, VStr(z3.String('tmpdir')))]
        if obj is functools.partial:
            return [(path, VOpaque('partial', ex.fresh_int(path, 'partial')))]
        if obj is _defer.maybeDeferred:
            return [(path, VOpaque('config_d', 5050))]
        import weakref
        if obj is weakref.ref:
            return [(path, VOpaque('weakref', 5200))]
        return CommonModels.callable_(self, ex, path, obj, args, kw)

    def contract_for(self, ex, path, f, args, kw):
        if f.qualname in CREATE_FUNCS:
            self.glog_add(path, 'creates', (f.qualname, tuple(args), dict(kw), len(self.glog(path, 'awaited'))))
            return [(path, VOpaque('Deferred', 5300))]
        if f.qualname == '_AuthCommon.__init__':
            # client list handling of the Auth* classes is C14's; here only the kind of auth object matters
            return [(path, NONE)]
        if f.qualname.endswith('_descriptor_progress_update'):
            return [(path, NONE)]
        if f.qualname == '_maybe_unique_host':
            return [(path, VStr(z3.String('unique_host')))]
        return CommonModels.contract_for(self, ex, path, f, args, kw)

    def attr_hook(self, ex, path, obj, name):
        if isinstance(obj, VConc) and getattr(obj.obj, '__name__', '') == 'IAuthenticatedOnionClients' and name == 'providedBy':
            return [(path, VBoundExt(obj, name))]
        if isinstance(obj, VInst) and obj.cls.__name__ == 'TorConfig':
            if name == 'post_bootstrap':
                return [(path, VOpaque('Deferred', 5400))]
            if name == 'HiddenServices':
                return [(path, ex.new_list(path, []))]
        return CommonModels.attr_hook(self, ex, path, obj, name)

    def opaque_attr(self, ex, path, obj, name):
        if obj.kind == 'service' and name == 'hostname':
            return [(path, VStr(z3.String('service_hostname')))]
        if obj.kind == 'hostaddr' and name == 'port':
            return [(path, VInt(z3.Int('bound_port')))]
        return [(path, VBoundExt(obj, name))]

    def method(self, ex, path, recv, name, args, kw):
        if isinstance(recv, VConc) and getattr(recv.obj, '__name__', '') == 'IAuthenticatedOnionClients' and name == 'providedBy':
            return [(path, VBool(False))]     # only affects log lines (client names)
        if isinstance(recv, VOpaque):
            if recv.kind == 'reactor' and name == 'addSystemEventTrigger':
                self.glog_add(path, 'triggers', tuple(args))
                return [(path, VOpaque('trigger', 1))]
            if recv.kind == 'local_endpoint' and name == 'listen':
                self.glog_add(path, 'binds', args[0])
                return [(path, VOpaque('Deferred', 5500))]
            if recv.kind == 'port' and name == 'getHost':
                return [(path, VOpaque('hostaddr', 5600))]
            if recv.kind == 'port' and name in ('stopListening', 'startListening'):
                self.glog_add(path, name, recv)
                return [(path, VOpaque('Deferred', ex.fresh_int(path, 'stopd')))]
        return CommonModels.method(self, ex, path, recv, name, args, kw)

    def await_(self, ex, path, fr, v, node):
        """each await: resumes with the value that Deferred stands for, or throws"""
        self.assumptions.add('A3 inlineCallbacks: a yield resumes with the Deferred result or throws its failure into the generator')
        n = len(self.glog(path, 'awaited'))
        what = 'other'
        result = VOpaque('result', ex.fresh_int(path, 'res'))
        if isinstance(v, VOpaque) and v.kind == 'config_d':
            what, result = 'config', path.heap[('g', 'config_obj')]
        elif isinstance(v, VOpaque) and concrete_of(VInt(v.t)) == (True, 5400):
            what = 'post_bootstrap'
        elif isinstance(v, VOpaque) and concrete_of(VInt(v.t)) == (True, 5500):
            what, result = 'bind', VOpaque('port', 5700)
        elif isinstance(v, VOpaque) and concrete_of(VInt(v.t)) == (True, 5300):
            what, result = 'create', VOpaque('service', 5800)
        elif isinstance(v, VOpaque) and v.kind == 'Deferred':
            what = 'cleanup'
        pr = path.fork()
        b = ex.fresh_bool(pr, 'await_%s_fails' % what)
        pr.assume(b)
        path.assume(z3.Not(b))
        self.glog_add(path, 'awaited', (what, 'ok'))
        self.glog_add(pr, 'awaited', (what, 'fail'))
        # the failure is an exception of *some* class (Tor's refusal is a RuntimeError subclass, a malformed key is a ValueError, ...):
        # a handler naming a narrower class than Exception may or may not catch it
        exc = ex.new_inst(pr, Exception, args=VTuple([VStr('failure of ' + what)]))
        pr.heap[('f', exc.oid, '__unknown_class__')] = VBool(True)
        pr.heap[('g', 'failure_of', what)] = exc
        return [(path, result), (pr, Raise(exc))]


def make_models():
    return Models17()


def unit_listen(ephemeral, auth):
    def run(ctx):
        ctx.fn(MODULE, 'TCPHiddenServiceEndpoint.listen')
        import txtorcon.endpoints as ep
        import txtorcon.torconfig as tc
        ex = ctx.ex
        path = ctx.new_path()
        H = path.heap
        e = ex.new_inst(path, ep.TCPHiddenServiceEndpoint)
        o = e.oid
        cfg = ex.new_inst(path, tc.TorConfig)
        H[('g', 'config_obj')] = cfg
        pub = z3.Int('public_port')
        ctx.input('public_port', pub)
        H[('f', o, '_config')] = VOpaque('config_d', 5000)
        H[('f', o, '_reactor')] = VOpaque('reactor', 1)
        H[('f', o, 'ephemeral')] = VBool(ephemeral)
        H[('f', o, 'hiddenservice')] = NONE
        H[('f', o, 'hidden_service_dir')] = NONE if ephemeral else VStr(z3.String('hsdir'))
        H[('f', o, 'auth')] = VOpaque('auth', 2) if auth else NONE
        H[('f', o, 'public_port')] = VInt(pub)
        H[('f', o, 'private_key')] = NONE
        # local_port: None, or a port the caller asked for / left over from an earlier listen()
        H[('f', o, 'local_port')] = VUnion([(z3.Bool('local_port_preset'), VInt(z3.Int('preset_local_port'))), (z3.Not(z3.Bool('local_port_preset')), NONE)])
        H[('f', o, 'tcp_listening_port')] = NONE
        H[('f', o, 'tcp_endpoint')] = NONE
        H[('f', o, 'version')] = VInt(3)
        H[('f', o, 'single_hop')] = VBool(False)
        H[('f', o, 'group_readable')] = VBool(False)
        H[('f', o, 'progress_listeners')] = ex.new_list(path, [])
        ctx.cover('pre_satisfiable', path)
        outs = ex.getattr_v(path, e, 'listen')
        outs = ex.call(outs[0][0], outs[0][1], [VOpaque('factory', 3)], {})
        bound_port = z3.Int('bound_port')
        n_normal = 0
        for p, r in outs:
            awaited = ctx.models.glog(p, 'awaited')
            names = [a[0] for a in awaited]
            strings = ctx.models.glog(p, 'server_strings')
            creates = ctx.models.glog(p, 'creates')
            stops = ctx.models.glog(p, 'stopListening')
            bound = ('bind', 'ok') in awaited
            ctx.oblige('post.local_listener_is_loopback_only', p,
                       B(all(concrete_of(s_) == (True, 'tcp:0:interface=127.0.0.1') for s_ in strings) and len(strings) <= 1),
                       clause='binds a local listener on the loopback interface only')
            if creates:
                q, args, kw, n_aw = creates[0]
                mapping = args[2] if q.startswith('Ephemeral') else (args[3] if len(args) > 3 else None)
                items = ex.list_items(p, mapping) if isinstance(mapping, VList) else None
                want = z3.Concat(z3.IntToStr(pub), mk_str(' 127.0.0.1:'), z3.IntToStr(bound_port))
                okm = items is not None and len(items) == 1 and isinstance(items[0], VStr)
                ctx.oblige('post.forwards_public_port_to_exactly_the_bound_local_port', p,
                           zand(B(okm and len(creates) == 1 and bound), z3.Implies(z3.And(pub >= 0, bound_port >= 0), items[0].t == want) if okm else B(False)),
                           clause='asks Tor to forward the public port to exactly that local port')
                want_fn = {(True, False): 'EphemeralOnionService.create', (True, True): 'EphemeralAuthenticatedOnionService.create',
                           (False, False): 'FilesystemOnionService.create', (False, True): 'FilesystemAuthenticatedOnionService.create'}[(ephemeral, auth)]
                ctx.oblige('post.service_kind_matches_the_configuration', p, B(q == want_fn))
            if isinstance(r, Raise):
                ctx.oblige('post.no_local_listener_left_open_on_failure', p, B((not bound) or len(stops) == 1),
                           clause='if configuration, service creation or the descriptor wait fails, listen leaves no local listener open')
                failed = [a[0] for a in awaited if a[1] == 'fail']
                first_fail = p.heap.get(('g', 'failure_of', failed[0])) if failed else None
                if failed and 'cleanup' not in failed:
                    ctx.oblige('post.fails_with_that_error', p, B(r.exc is first_fail), clause='listen fails with that error')
                continue
            n_normal += 1
            ok_res = isinstance(r, VInst) and r.cls is ep.TorOnionListeningPort
            ctx.oblige('post.resolves_to_the_onion_listening_port', p, B(ok_res))
            ctx.oblige('post.resolves_only_after_the_service_exists', p, B(('create', 'ok') in awaited and len(creates) == 1 and len(stops) == 0),
                       clause='resolves only after the service exists and its descriptor wait is over')
            if ok_res:
                la = p.heap.get(('f', r.oid, '_local_address'))
                svc = p.heap.get(('f', r.oid, '_service'))
                pp = p.heap.get(('f', r.oid, 'public_port'))
                ctx.oblige('post.result_wraps_bound_port_public_port_and_service', p,
                           zand(B(isinstance(la, VOpaque) and la.kind == 'port' and isinstance(svc, VOpaque) and svc.kind == 'service'),
                                pp.t == pub if isinstance(pp, VInt) else B(False)))
        if not n_normal:
            ctx.oblige('some_normal_exit', path, B(False))
    return run


def unit_listening_port():
    def run(ctx):
        ctx.fn(MODULE, 'TorOnionListeningPort.__init__')
        ctx.fn(MODULE, 'TorOnionListeningPort.stopListening')
        ctx.fn(MODULE, 'TorOnionListeningPort.getHost')
        ctx.fn(MODULE, 'TorOnionAddress.__init__')
        import txtorcon.endpoints as ep
        import txtorcon.torconfig as tc
        ex = ctx.ex
        path = ctx.new_path()
        pub = z3.Int('public_port')
        cfg = ex.new_inst(path, tc.TorConfig)
        ctx.cover('pre_satisfiable', path)
        outs = ex.call(path, VConc(ep.TorOnionListeningPort), [VOpaque('port', 5700), VInt(pub), VOpaque('service', 5800), cfg], {})
        for p, lp in outs:
            if isinstance(lp, Raise):
                ctx.oblige('no_exception', p, B(False))
                continue
            for p2, host in ex.call(p, ex.getattr_v(p, lp, 'getHost')[0][1], [], {}):
                okh = isinstance(host, VInst) and host.cls is ep.TorOnionAddress
                port = p2.heap.get(('f', host.oid, 'onion_port')) if okh else None
                uri = p2.heap.get(('f', host.oid, 'onion_uri')) if okh else None
                ctx.oblige('post.address_reports_public_port_and_hostname', p2,
                           zand(B(okh), port.t == pub if isinstance(port, VInt) else B(False),
                                uri.t == z3.String('service_hostname') if isinstance(uri, VStr) else B(False)),
                           clause='whose address reports the onion hostname Tor assigned and the public port')
            for p2, r in ex.call(p, ex.getattr_v(p, lp, 'stopListening')[0][1], [], {}):
                stops = ctx.models.glog(p2, 'stopListening')
                ctx.oblige('post.stop_listening_closes_the_local_listener', p2,
                           B(len(stops) == 1 and concrete_of(VInt(stops[0].t)) == (True, 5700) and not isinstance(r, Raise)),
                           clause='whose stopListening closes the local listener')
    return run


def unit_constructor():
    """TCPHiddenServiceEndpoint.__init__: unsupported option combinations are refused before anything is started"""
    def run(ctx):
        ctx.fn(MODULE, 'TCPHiddenServiceEndpoint.__init__')
        import txtorcon.endpoints as ep
        import txtorcon.onion as on
        ex = ctx.ex
        path = ctx.new_path()
        inst = ex.new_inst(path, ep.TCPHiddenServiceEndpoint)
        eph_none, eph_val = z3.Bool('ephemeral_is_none'), z3.Bool('ephemeral_value')
        ephemeral = VUnion([(eph_none, NONE), (z3.Not(eph_none), VBool(eph_val))])
        has_dir, has_key = z3.Bool('has_hidden_service_dir'), z3.Bool('has_private_key')
        hsdir = VUnion([(has_dir, VStr(z3.String('hsdir'))), (z3.Not(has_dir), NONE)])
        key = VUnion([(has_key, VStr(z3.String('key'))), (z3.Not(has_key), NONE)])
        a_stealth, a_basic = z3.Bool('auth_is_stealth'), z3.Bool('auth_is_basic')
        path.assume(z3.Not(z3.And(a_stealth, a_basic)))
        stealth_obj = ex.new_inst(path, on.AuthStealth)
        basic_obj = ex.new_inst(path, on.AuthBasic)
        auth = VUnion([(a_stealth, stealth_obj), (a_basic, basic_obj), (z3.Not(z3.Or(a_stealth, a_basic)), NONE)])
        legacy = z3.Bool('has_stealth_auth_kwarg')
        clients = ex.new_list(path, [VStr('alice')])
        stealth_auth = VUnion([(legacy, clients), (z3.Not(legacy), NONE)])
        single = z3.Bool('single_hop')
        for b in (eph_none, eph_val, has_dir, has_key, a_stealth, a_basic, legacy, single):
            ctx.input(str(b), VBool(b))
        eff_eph = z3.If(eph_none, z3.Not(has_dir), eph_val)
        has_auth = z3.Or(a_stealth, a_basic)
        stealth = z3.Or(legacy, a_stealth)
        refuse = zor(z3.And(legacy, has_auth), z3.And(eff_eph, stealth), z3.And(eff_eph, has_dir), z3.And(has_key, z3.Not(eff_eph)),
                     z3.And(single, z3.Not(eff_eph)))
        ctx.cover('pre_refused', path, refuse)
        ctx.cover('pre_accepted', path, z3.Not(refuse))
        ctx.cover('pre_legacy_stealth_on_ephemeral', path, z3.And(legacy, eff_eph, z3.Not(has_auth)))
        g = ex.getattr_v(path, inst, '__init__')
        kw = {'ephemeral': ephemeral, 'hidden_service_dir': hsdir, 'private_key': key, 'auth': auth, 'stealth_auth': stealth_auth,
              'single_hop': VBool(single), 'local_port': NONE}
        for p, r in ex.call(g[0][0], g[0][1], [VOpaque('reactor', 1), VOpaque('config', 2), VInt(z3.Int('public_port'))], kw):
            started = ctx.models.glog(p, 'started')
            if isinstance(r, Raise):
                isval = isinstance(r.exc, VInst) and r.exc.cls is ValueError
                ctx.oblige('post.refusal_is_a_value_error_for_an_unsupported_combination_nothing_started', p,
                           zand(refuse, B(isval and not started)),
                           clause='unsupported option combinations are refused before anything is started')
                continue
            ctx.oblige('post.accepted_only_when_the_combination_is_supported', p, z3.Not(refuse),
                       clause='unsupported option combinations are refused before anything is started')
            def holds(v, pred):
                if isinstance(v, VUnion):
                    return zor(*[z3.And(g_, holds(a_, pred)) for g_, a_ in v.alts])
                r_ = pred(v)
                return r_ if z3.is_expr(r_) else B(r_)
            au = p.heap.get(('f', inst.oid, 'auth'))
            ok_auth = z3.If(legacy, holds(au, lambda v: isinstance(v, VInst) and v.cls is on.AuthStealth and v is not stealth_obj),
                            z3.If(a_stealth, holds(au, lambda v: v is stealth_obj),
                                  z3.If(a_basic, holds(au, lambda v: v is basic_obj), holds(au, lambda v: isinstance(v, VNone)))))
            ctx.oblige('post.effective_auth_recorded', p, ok_auth)
            ephv = p.heap.get(('f', inst.oid, 'ephemeral'))
            ctx.oblige('post.effective_kind_recorded', p, holds(ephv, lambda v: (v.t == eff_eph) if isinstance(v, VBool) else False))
    return run


def units():
    out = [('C17/TCPHiddenServiceEndpoint.__init__', unit_constructor())]
    for eph in (True, False):
        for auth in (False, True):
            out.append(('C17/listen/%s/%s' % ('ephemeral' if eph else 'filesystem', 'auth' if auth else 'noauth'), unit_listen(eph, auth)))
    out.append(('C17/TorOnionListeningPort', unit_listening_port()))
    return out


# ==========================================================================================
from pyvc.report import adopt_twin
FINDING_PATTERNS = []
_twin, _replay_twin = adopt_twin('twin.tC17', FINDING_PATTERNS)


def twin(tier, seed):
    from twin import tC17
    # a service directory that Tor already has configured is Tor's prior state, outside the quantifier (DESIGN 4 C17)
    tC17.INCLUDE_PRECONFIGURED = False
    return _twin(tier, seed)


def replay(unit, name, model):
    """native replay of a solver model on the real classes (props/replay_misc.py)"""
    from props import replay_misc
    return replay_misc.replay(unit, name, model)


def replay_file(doc):
    if doc.get('kind') == 'twin':
        from twin import tC17
        tC17.INCLUDE_PRECONFIGURED = False
        return _replay_twin(doc)
    unit, name = doc['obligation'].split('::')
    return replay(unit, name, doc['model'])
