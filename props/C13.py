"""C13 -- GETINFO/GETCONF results map each key to exactly the value Tor sent.

Proof units: data-block line handling of the real FSM (every data line delivered intact, in order,
dot-unstuffed; only "." terminates) shared with C01; unquote() against identity (region: value
wrapped in quotes = known finding); the result-selecting callbacks of get_info_single /
get_conf_single.  The line loop of parse_keywords itself is checked by the bounded twin only."""
import z3

from pyvc.exec import Raise, Unsupported
from pyvc.sym import (VInt, VBool, VStr, VBytes, VNone, NONE, VTuple, VInst, VOpaque, VUnion, VConc, VFunc, VSeq, VMap,
                      concrete_of, mk_str, zand, zor, TStr, TMap, TOpt)
from pyvc import extract
from contracts import control as K
from props import C01

PROP = 'C13'
MODULE = 'txtorcon.torcontrolprotocol'
F_QUOTES = 'value-wrapped-in-quotes'
F_OKLINE = 'data-line-reads-OK'
F_KEYLINE = 'data-line-starts-with-requested-key'
TRUSTED = C01.TRUSTED + [
    'the line loop of parse_keywords (accumulation across lines) is NOT under contract: bounded twin only',
    'Deferred.addCallback passes the result of the previous callback (A3)',
]
LEVEL = 'proof'
MANIFEST = {
    'category': 'proof',
    'technique': 'contract-based deductive verification of the data-block line path (real FSM functions), of unquote() against identity outside a recorded region, and of the result-selecting callbacks (pyvc VCs, z3/cvc5); the multi-line accumulation loop of parse_keywords is covered by the bounded CPython twin only',
    'text': 'Proved for all line texts: inside a data block every line other than "." is appended (or handed to the per-line callback) with exactly one leading '
            'dot removed and nothing else changed, and only "." ends the block - so a multi-line value reaches parse_keywords with all its lines intact and in '
            'order; unquote(v) = v for every v not wrapped in a pair of quotes; get_info_single returns values[key], get_conf_single the first value. '
            'The accumulation loop of parse_keywords (key/value splitting, unset vs empty, repeated options) is not under contract here: it is exercised '
            'exhaustively over the critical alphabet by the twin (labelled bounded).',
    'level_note': 'Bounded (B, never counted as proved): parse_keywords loop - 12k (quick) / 107k (thorough) sessions through a scripted Tor. '
                  'Known findings (regions excluded, reported as KNOWN-FINDING): values wrapped in quotes lose them (unquote, needed by PROTOCOLINFO); a data line '
                  'reading OK is dropped; a data line "k=..." for the requested key k starts a new value (parse_keywords cannot see data-block structure).',
}


def B(x):
    return z3.BoolVal(bool(x))


class Models13(K.ControlModels):
    pass


def make_models():
    return Models13()


def unit_unquote():
    def run(ctx):
        ctx.fn(MODULE, 'unquote')
        ex = ctx.ex
        path = ctx.new_path()
        w = z3.String('word')
        ctx.input('word', VStr(w))
        n = z3.Length(w)
        first, last = z3.SubString(w, 0, 1), z3.SubString(w, n - 1, 1)
        wrapped = z3.And(n >= 1, z3.Or(z3.And(first == mk_str('"'), last == mk_str('"')),
                                       z3.And(first == mk_str("'"), last == mk_str("'"))))
        ctx.region(F_QUOTES, wrapped)
        ctx.cover('pre_satisfiable', path)
        mi, node = extract.find(MODULE, 'unquote')
        f = VFunc(node, MODULE, 'unquote')
        for p, r in ex.call(path, f, [VStr(w)], {}):
            if isinstance(r, Raise):
                ctx.oblige('no_exception', p, B(False))
                continue
            ctx.oblige('post.value_is_exactly_what_tor_sent', p, r.t == w if isinstance(r, VStr) else B(False),
                       clause='the parsed result maps each requested key to exactly its value')
    return run


def unit_single(which):
    """the callbacks chained by get_info_single / get_conf_single select the right entry"""
    def run(ctx):
        ctx.fn(MODULE, 'TorControlProtocol.' + which)
        ex = ctx.ex
        path = ctx.new_path()
        SELF, pre = K.make_proto(ctx, path, 'IDLE', lost=False)
        key = z3.String('key')
        ctx.input('key', VStr(key))
        path.assume(z3.InRe(key, C01.ascii_re()))
        ctx.cover('pre_satisfiable', path)
        outs = ex.getattr_v(path, SELF, which)
        outs = ex.call(outs[0][0], outs[0][1], [VStr(key)], {})
        for p, r in outs:
            if isinstance(r, Raise):
                ctx.oblige('no_exception', p, B(False))
                continue
            chained = ctx.models.glog(p, 'chained')
            writes = K.post_terms(ctx, p, pre)['writes']
            want = z3.Concat(mk_str('GETINFO ' if which == 'get_info_single' else 'GETCONF '), key, K.CRLF)
            ctx.oblige('post.asks_for_exactly_that_key', p,
                       z3.Implies(z3.And(z3.Not(pre['lost0']), pre['is_none']),
                                  B(len(writes) == 1) if len(writes) != 1 else writes[0].t == want))
            cbs = [c for c in chained if c[1] == 'addCallback']
            ctx.oblige('post.parse_then_select', p, B(len(cbs) >= 2))
            if len(cbs) < 2:
                continue
            first = cbs[0][2][0]
            ctx.oblige('post.reply_parsed_by_parse_keywords', p, B(isinstance(first, VFunc) and first.qualname == 'parse_keywords'))
            sel = cbs[-1][2][0]
            # apply the selecting callback to a symbolic result dict
            m = TMap(TStr(), TStr(), ordered=True).fresh('values')
            opt = TOpt(TStr())
            q = p.fork()
            if which == 'get_info_single':
                q.assume(z3.Not(opt.is_none(z3.Select(m.t, key))))
                for q2, v in ex.call(q, sel, [m], {}):
                    ctx.oblige('post.returns_the_value_of_the_requested_key', q2,
                               B(False) if isinstance(v, Raise) or not isinstance(v, VStr)
                               else v.t == opt.dt.accessor(1, 0)(z3.Select(m.t, key)),
                               clause='maps the requested key to exactly its value')
    return run


def units():
    out = [('C13/unquote', unit_unquote()), ('C13/get_info_single', unit_single('get_info_single'))]
    for ck in ('plain', 'percb'):
        out.append(('C13/data_block_line@%s' % ck, C01.unit_line('RECV_PLUS', ck)))
        out.append(('C13/data_block_start@%s' % ck, C01.unit_line('IDLE', ck)))
    # the reply text handed to the parsers is assembled by the line handlers: text of an asynchronous event that
    # arrives between replies must not leak into the next reply (units shared with C02: inv.idle_has_no_partial_reply)
    from props import C02
    for ck in ('none', 'plain', 'percb'):
        out.append(('C13/event_between_replies@%s' % ck, C02.unit_event_line('RECV', ck)))
    return out


# ==========================================================================================
from pyvc.report import adopt_twin
FINDING_PATTERNS = [(r'data_line_reads_OK\+data_line_starts_with_requested_key_eq', F_OKLINE),
                    (r'quote_wrapped_value', F_QUOTES), (r'data_line_reads_OK', F_OKLINE),
                    (r'data_line_starts_with_requested_key_eq', F_KEYLINE)]
twin, _replay_twin = adopt_twin('twin.tC13', FINDING_PATTERNS)


def replay(unit, name, model):
    if 'unquote' in unit:
        import txtorcon.torcontrolprotocol as tcp
        w = model.get('word')
        if not isinstance(w, str):
            return {'reproduced': False}
        got = tcp.unquote(w)
        wrapped = len(w) >= 1 and ((w[0] == '"' and w[-1] == '"') or (w[0] == "'" and w[-1] == "'"))
        return {'reproduced': got != w, 'what': 'unquote(%r) = %r' % (w, got), 'history': {'word': w},
                'finding': F_QUOTES if wrapped else None}
    if 'data_block' in unit:
        return C01.replay(unit.replace('C13/data_block_line', 'C01/lineReceived@RECV_PLUS').replace('@plain', '/plain').replace('@percb', '/percb'),
                          name, model)
    return {'reproduced': False, 'what': 'no native replay for this unit'}


def replay_file(doc):
    if doc.get('kind') == 'twin':
        return _replay_twin(doc)
    unit, name = doc['obligation'].split('::')
    return replay(unit, name, doc['model'])
