"""C13 -- GETINFO/GETCONF results map each key to exactly the value Tor sent.

Proof units: data-block line handling of the real FSM (every data line delivered intact, in order,
dot-unstuffed; only "." terminates) shared with C01; unquote() against identity (region: value
wrapped in quotes = known finding); the result-selecting callbacks of get_info_single /
get_conf_single.  The line loop of parse_keywords itself is checked by the bounded twin only."""
import z3

from pyvc.exec import Raise, Unsupported
from pyvc.sym import (VInt, VBool, VStr, VBytes, VNone, NONE, VTuple, VInst, VOpaque, VUnion, VConc, VFunc, VSeq, VMap, VDictLit, VList,
                      concrete_of, mk_str, zand, zor, TStr, TMap, TOpt)
from pyvc import extract
from contracts import control as K
from props import C01

PROP = 'C13'
MODULE = 'txtorcon.torcontrolprotocol'
F_QUOTES = 'value-wrapped-in-quotes'
F_OKLINE = 'data-line-reads-OK'
F_KEYLINE = 'data-line-starts-with-requested-key'
TRUSTED = C01.TRUSTED + [
    'parse_keywords is executed with its line loop unrolled over replies of at most three lines (every line text, every pattern of equal / different keys, both modes): '
    'longer replies and mixed shapes are covered by the bounded twin only; str.strip() returns text without whitespace unchanged; keyword names contain no whitespace or "=" (A9)',
    'Deferred.addCallback passes the result of the previous callback (A3)',
]
LEVEL = 'proof'
MANIFEST = {
    'category': 'proof',
    'technique': 'contract-based deductive verification of the data-block line path (real FSM functions), of unquote() against identity outside a recorded region, and of the result-selecting callbacks (pyvc VCs, z3/cvc5); parse_keywords discharged with its loop unrolled for replies of <= 3 lines (lemma cuts for the position of the first "="), longer replies by the bounded CPython twin',
    'text': 'Proved for all line texts: inside a data block every line other than "." is appended (or handed to the per-line callback) with exactly one leading '
            'dot removed and nothing else changed, and only "." ends the block - so a multi-line value reaches parse_keywords with all its lines intact and in '
            'order; unquote(v) = v for every v not wrapped in a pair of quotes; get_info_single returns values[key], get_conf_single the first value. '
            'parse_keywords, for replies of one to three K=V lines of arbitrary text and every pattern of equal keys, in both modes: one entry per distinct key, a '
            'key reported once maps to unquote(value), a key reported several times to the list of its values in order, empty values kept; a bare keyword reads '
            'as unset (DEFAULT) and differs from K= (empty string); in multi-line mode a following line without "=" is appended to the value after a newline. '
            'Replies longer than three lines are exercised by the twin (labelled bounded).',
    'level_note': 'Bounded (B, never counted as proved): parse_keywords on replies of more than three lines / mixed shapes - 12k (quick) / 107k (thorough) sessions through a scripted Tor. '
                  'Known findings (regions excluded, reported as KNOWN-FINDING): values wrapped in quotes lose them (unquote, needed by PROTOCOLINFO); a data line '
                  'reading OK is dropped; a data line "k=..." for the requested key k starts a new value (parse_keywords cannot see data-block structure).',
}


def B(x):
    return z3.BoolVal(bool(x))


class Models13(K.ControlModels):
    def contract_for(self, ex, path, f, args, kw):
        if f.qualname == 'parse_keywords' and path.heap.get(('g', 'pk_contract')) is not None:
            # contract of parse_keywords inside the result-selecting chain: some key -> value map (the parser itself: C13/parse_keywords@...)
            self.glog_add(path, 'pk_calls', (args[0], dict(kw)))
            return [(path, path.heap[('g', 'pk_contract')])]
        return K.ControlModels.contract_for(self, ex, path, f, args, kw)


def make_models():
    return Models13()


def unit_unquote():
    def run(ctx):
        ctx.fn(MODULE, 'unquote')
        ex = ctx.ex
        path = ctx.new_path()
        w = z3.String('word')
        ctx.input('word', VStr(w))
        n = z3.Length(w)
        first, last = z3.SubString(w, 0, 1), z3.SubString(w, n - 1, 1)
        wrapped = z3.And(n >= 1, z3.Or(z3.And(first == mk_str('"'), last == mk_str('"')),
                                       z3.And(first == mk_str("'"), last == mk_str("'"))))
        ctx.region(F_QUOTES, wrapped)
        ctx.cover('pre_satisfiable', path)
        mi, node = extract.find(MODULE, 'unquote')
        f = VFunc(node, MODULE, 'unquote')
        for p, r in ex.call(path, f, [VStr(w)], {}):
            if isinstance(r, Raise):
                ctx.oblige('no_exception', p, B(False))
                continue
            ctx.oblige('post.value_is_exactly_what_tor_sent', p, r.t == w if isinstance(r, VStr) else B(False),
                       clause='the parsed result maps each requested key to exactly its value')
    return run


def unit_single(which):
    """the callbacks chained by get_info_single / get_conf_single select the right entry"""
    def run(ctx):
        ctx.fn(MODULE, 'TorControlProtocol.' + which)
        ex = ctx.ex
        path = ctx.new_path()
        SELF, pre = K.make_proto(ctx, path, 'IDLE', lost=False)
        key = z3.String('key')
        ctx.input('key', VStr(key))
        path.assume(z3.InRe(key, C01.ascii_re()))
        ctx.cover('pre_satisfiable', path)
        outs = ex.getattr_v(path, SELF, which)
        outs = ex.call(outs[0][0], outs[0][1], [VStr(key)], {})
        for p, r in outs:
            if isinstance(r, Raise):
                ctx.oblige('no_exception', p, B(False))
                continue
            chained = ctx.models.glog(p, 'chained')
            writes = K.post_terms(ctx, p, pre)['writes']
            want = z3.Concat(mk_str('GETINFO ' if which == 'get_info_single' else 'GETCONF '), key, K.CRLF)
            ctx.oblige('post.asks_for_exactly_that_key', p,
                       z3.Implies(z3.And(z3.Not(pre['lost0']), pre['is_none']),
                                  B(len(writes) == 1) if len(writes) != 1 else writes[0].t == want))
            # the reply travels through the callbacks added to the command's Deferred, in order (A3).  The chain is
            # *run* on a symbolic reply (parse_keywords through its contract) instead of being matched structurally,
            # so merging / splitting callbacks is not noticed, only what comes out.
            kws = ctx.models.glog(p, 'chained_kw')
            cbs = [(c[2], kws[i] if i < len(kws) else {}) for i, c in enumerate(chained) if c[1] == 'addCallback']
            ctx.oblige('post.reply_is_processed', p, B(len(cbs) >= 1))
            if not cbs or which != 'get_info_single':
                continue
            m = TMap(TStr(), TStr(), ordered=True).fresh('values')
            opt = TOpt(TStr())
            q = p.fork()
            q.assume(z3.Not(opt.is_none(z3.Select(m.t, key))))
            q.heap[('g', 'pk_contract')] = m
            raw = VStr(z3.String('raw_reply'))
            states = [(q, raw)]
            for args_, kw_ in cbs:
                nxt = []
                for q1, val in states:
                    if isinstance(val, Raise):
                        nxt.append((q1, val))
                        continue
                    nxt.extend(ex.call(q1, args_[0], [val] + list(args_[1:]), dict(kw_)))
                states = nxt
            for q2, v in states:
                pk = ctx.models.glog(q2, 'pk_calls')
                okp = len(pk) == 1 and isinstance(pk[0][0], VStr) and z3.eq(pk[0][0].t, raw.t)
                ctx.oblige('post.reply_parsed_once_by_parse_keywords', q2, B(okp))
                hints = pk[0][1].get('key_hints') if okp else None
                items = ex.list_items(q2, hints) if isinstance(hints, VList) else None
                ok = items is not None and len(items) == 1 and isinstance(items[0], VStr)
                ctx.oblige('post.only_the_requested_key_may_open_a_value', q2, zand(B(ok), items[0].t == key) if ok else B(False),
                           clause='a multi-line value of a single requested key comes back with all its lines intact and in order')
                ctx.oblige('post.returns_the_value_of_the_requested_key', q2,
                           B(False) if isinstance(v, Raise) or not isinstance(v, VStr)
                           else v.t == opt.dt.accessor(1, 0)(z3.Select(m.t, key)),
                           clause='maps the requested key to exactly its value')
    return run


F_unq = z3.Function('unquote_spec', z3.StringSort(), z3.StringSort())


class ParseModels(Models13):
    """parse_keywords unrolled over a reply of n lines (the line list is given; unquote through its contract, proved by C13/unquote)"""
    def __init__(self):
        Models13.__init__(self)
        self.reply_lines = None
        self.lemma_ctx = None
        self.lemmas_done = set()

    def split_hook(self, ex, path, s, args, kw):
        if len(args) == 1 and concrete_of(args[0]) == (True, '\n') and self.reply_lines is not None:
            return [(path, ex.new_list(path, [VStr(l) for l in self.reply_lines]))]
        return Models13.split_hook(self, ex, path, s, args, kw)

    def str_method(self, ex, path, s, name, args, kw):
        if name == 'split' and self.lemma_ctx is not None and len(args) == 2 and concrete_of(args[0]) == (True, '='):
            # proof cut: in key + '=' + value, with no '=' in the key, the first '=' is the separator.  Stated as an obligation
            # of its own on the current (small) path condition, then used as a hypothesis.
            parts = []

            def flat(t):
                if t.decl().kind() == z3.Z3_OP_SEQ_CONCAT:
                    for c in t.children():
                        flat(c)
                else:
                    parts.append(t)
            flat(s.t)
            if len(parts) >= 3 and z3.is_string_value(parts[1]) and parts[1].as_string() == '=':
                lemma = z3.IndexOf(s.t, mk_str('='), 0) == z3.Length(parts[0])
                key = 'lemma.first_equals_sign_separates[%s]' % parts[0]
                rest = parts[2] if len(parts) == 3 else z3.Concat(*parts[2:])
                lemma2 = z3.SubString(s.t, z3.Length(parts[0]) + 1, z3.Length(s.t)) == rest
                if key not in self.lemmas_done:
                    self.lemmas_done.add(key)
                    self.lemma_ctx.oblige(key, path, lemma)
                    self.lemma_ctx.oblige(key.replace('first_equals_sign_separates', 'text_after_the_separator_is_the_value'), path, lemma2)
                path.assume(lemma)
                path.assume(lemma2)
                if concrete_of(args[1]) == (True, 1):
                    # by the two lemmas s.split('=', 1) == [s[:i], s[i+1:]] is exactly [key, rest]
                    return [(path, ex.new_list(path, [VStr(parts[0]), VStr(rest)]))]
        outs = Models13.str_method(self, ex, path, s, name, args, kw)
        if name == 'strip' and not args and self.reply_lines is not None and not concrete_of(s)[0]:
            # fact of str.strip(): text without any of its whitespace characters is returned unchanged
            no_ws = zand(*[z3.Not(z3.Contains(s.t, mk_str(c))) for c in ' \t\n\r\x0b\x0c\x1c\x1d\x1e\x1f'])
            for p_, r_ in outs:
                if isinstance(r_, VStr):
                    p_.assume(z3.Implies(no_ws, r_.t == s.t))
        return outs

    def contract_for(self, ex, path, f, args, kw):
        if f.qualname == 'unquote' and self.reply_lines is not None:
            return [(path, VStr(F_unq(args[0].t)))]
        return Models13.contract_for(self, ex, path, f, args, kw)


def _unq_eq(vt, x):
    """vt == unquote(x), stated on the arguments when vt is itself an application of the (uninterpreted) unquote contract"""
    vt = z3.simplify(vt)
    if z3.is_app(vt) and vt.decl().name() == 'unquote_spec':
        return vt.arg(0) == x
    return vt == F_unq(x)


def _partitions(n):
    if n == 0:
        yield []
        return
    for p in _partitions(n - 1):
        for i in range(len(p)):
            yield p[:i] + [p[i] + [n - 1]] + p[i + 1:]
        yield p + [[n - 1]]


def unit_parse(n, part, multiline):
    """n reply lines K_i=V_i whose keys are equal exactly within the blocks of `part`"""
    def run(ctx):
        ctx.fn(MODULE, 'parse_keywords')
        ex = ctx.ex
        path = ctx.new_path()
        K_ = [z3.String('key%d' % i) for i in range(n)]
        V_ = [z3.String('value%d' % i) for i in range(n)]
        lines = []
        for i in range(n):
            ctx.input('key%d' % i, VStr(K_[i]))
            ctx.input('value%d' % i, VStr(V_[i]))
            # A9: a keyword is non-empty and has no '=', space or line break; a value has no line break
            path.assume(z3.Length(K_[i]) > 0)
            for ch in ('=', ' ', '\n', '\t', '\r', '\x0b', '\x0c', '\x1c', '\x1d', '\x1e', '\x1f'):
                path.assume(z3.Not(z3.Contains(K_[i], mk_str(ch))))
            path.assume(z3.Not(z3.Contains(V_[i], mk_str('\n'))))
            lines.append(z3.Concat(K_[i], mk_str('='), V_[i]))
        block_of = {}
        for b, blk in enumerate(part):
            for i in blk:
                block_of[i] = b
        for i in range(n):
            for j in range(i + 1, n):
                path.assume(K_[i] == K_[j] if block_of[i] == block_of[j] else K_[i] != K_[j])
        ctx.models.reply_lines = lines
        ctx.models.lemma_ctx = ctx
        ctx.cover('pre_satisfiable', path)
        mi, node = extract.find(MODULE, 'parse_keywords')
        f = VFunc(node, MODULE, 'parse_keywords')
        kw = {} if multiline else {'multiline_values': VBool(False)}
        n_ok = 0
        for p, r in ex.call(path, f, [VStr(z3.String('reply_text'))], kw):
            if isinstance(r, Raise) or not isinstance(r, VDictLit):
                ctx.oblige('returns_a_dict', p, B(False))
                continue
            n_ok += 1
            pairs = p.heap[('dict', r.did)]
            ctx.oblige('post.one_entry_per_distinct_key', p, B(len(pairs) == len(part)),
                       clause='the parsed result maps each requested key to exactly its value')
            goals = []
            for blk in part:
                # the entry whose key is this block's key
                rep = K_[blk[0]]
                alts = []
                for k, v in pairs:
                    if len(blk) == 1:
                        okv = _unq_eq(v.t, V_[blk[0]]) if isinstance(v, VStr) else B(False)
                    else:
                        items = ex.list_items(p, v) if isinstance(v, VList) else None
                        okv = zand(*[_unq_eq(it.t, V_[j]) for it, j in zip(items, blk)]) if items is not None and len(items) == len(blk) \
                            and all(isinstance(it, VStr) for it in items) else B(False)
                    alts.append(z3.And(k.t == rep, okv) if isinstance(k, VStr) else B(False))
                goals.append(zor(*alts) if alts else B(False))
            ctx.oblige('post.every_key_maps_to_exactly_its_values_in_order', p, zand(*goals),
                       clause='an option Tor reports several times yields all its values as a list in Tor\'s order; empty values are kept')
        if not n_ok:
            ctx.oblige('some_normal_exit', path, B(False))
    return run


def unit_parse_shapes(shape, multiline):
    """shape 'bare': one line that is just a keyword (an unset option); 'continuation': K=V followed by a line without '='"""
    def run(ctx):
        ctx.fn(MODULE, 'parse_keywords')
        import txtorcon.torcontrolprotocol as tcp
        ex = ctx.ex
        path = ctx.new_path()
        K0, V0, C1 = z3.String('key0'), z3.String('value0'), z3.String('line1')
        for nm, t in (('key0', K0), ('value0', V0), ('line1', C1)):
            ctx.input(nm, VStr(t))
        path.assume(z3.Length(K0) > 0)
        for ch in ('=', ' ', '\n', '\t', '\r', '\x0b', '\x0c', '\x1c', '\x1d', '\x1e', '\x1f'):
            path.assume(z3.Not(z3.Contains(K0, mk_str(ch))))
        path.assume(z3.Not(z3.Contains(V0, mk_str('\n'))))
        path.assume(z3.Not(z3.Contains(C1, mk_str('\n'))))
        path.assume(z3.Not(z3.Contains(C1, mk_str('='))))
        path.assume(K0 != mk_str('OK'))
        if shape == 'continuation' and not multiline:
            # A9 (GETCONF): the second line is a bare keyword of another option
            for ch in (' ', '\t', '\r', '\x0b', '\x0c', '\x1c', '\x1d', '\x1e', '\x1f'):
                path.assume(z3.Not(z3.Contains(C1, mk_str(ch))))
            path.assume(C1 != K0)
        # a data line that reads OK is the recorded finding data-line-reads-OK: outside this unit
        from pyvc.models import re_ws
        ws = z3.Star(re_ws())
        path.assume(z3.simplify(z3.Not(z3.InRe(C1, z3.Concat(ws, z3.Re(mk_str('OK')), ws)))))
        if shape == 'bare':
            ctx.models.reply_lines = [K0]
        else:
            ctx.models.reply_lines = [z3.Concat(K0, mk_str('='), V0), C1]
        ctx.models.lemma_ctx = ctx
        ctx.cover('pre_satisfiable', path)
        mi, node = extract.find(MODULE, 'parse_keywords')
        f = VFunc(node, MODULE, 'parse_keywords')
        kw = {} if multiline else {'multiline_values': VBool(False)}
        n_ok = 0
        for p, r in ex.call(path, f, [VStr(z3.String('reply_text'))], kw):
            if isinstance(r, Raise) or not isinstance(r, VDictLit):
                ctx.oblige('returns_a_dict', p, B(False))
                continue
            n_ok += 1
            pairs = p.heap[('dict', r.did)]
            is_default = lambda v: (isinstance(v, VConc) and v.obj is tcp.DEFAULT_VALUE) or concrete_of(v) == (True, tcp.DEFAULT_VALUE)
            if shape == 'bare':
                ok = len(pairs) == 1 and isinstance(pairs[0][0], VStr) and is_default(pairs[0][1])
                ctx.oblige('post.keyword_without_value_reads_as_unset', p, zand(B(ok), pairs[0][0].t == K0) if ok else B(False),
                           clause="the result distinguishes 'unset' from 'set to the empty string'")
            elif multiline:
                ok = len(pairs) == 1 and isinstance(pairs[0][0], VStr) and isinstance(pairs[0][1], VStr)
                ctx.oblige('post.multi_line_value_keeps_all_its_lines_in_order', p,
                           zand(B(ok), pairs[0][0].t == K0, _unq_eq(pairs[0][1].t, z3.Concat(V0, mk_str('\n'), C1))) if ok else B(False),
                           clause='a multi-line value of a single requested key comes back with all its lines intact and in order')
            else:
                ok = len(pairs) == 2 and all(isinstance(k, VStr) for k, v in pairs)
                ctx.oblige('post.per_line_mode_gives_value_then_unset_keyword', p,
                           zand(B(ok and isinstance(pairs[0][1], VStr) and is_default(pairs[1][1])), pairs[0][0].t == K0, pairs[0][1].t == V0)
                           if ok and isinstance(pairs[0][1], VStr) else B(False),
                           clause="the result distinguishes 'unset' from 'set to the empty string'")
        if not n_ok:
            ctx.oblige('some_normal_exit', path, B(False))
    return run


def make_models_for(unit_name):
    return ParseModels() if 'parse_keywords@' in unit_name else Models13()


def units(tier='quick'):
    out = [('C13/unquote', unit_unquote()), ('C13/get_info_single', unit_single('get_info_single'))]
    for n in ((1, 2, 3) if tier == 'quick' else (1, 2, 3, 4)):
        for part in _partitions(n):
            tag = '+'.join(''.join(str(i) for i in blk) for blk in part)
            for ml in (True, False):
                out.append(('C13/parse_keywords@%d/%s/%s' % (n, tag, 'multiline' if ml else 'per_line'), unit_parse(n, part, ml)))
    for shape in ('bare', 'continuation'):
        for ml in (True, False):
            out.append(('C13/parse_keywords@%s/%s' % (shape, 'multiline' if ml else 'per_line'), unit_parse_shapes(shape, ml)))
    for ck in ('plain', 'percb'):
        out.append(('C13/data_block_line@%s' % ck, C01.unit_line('RECV_PLUS', ck)))
        out.append(('C13/data_block_start@%s' % ck, C01.unit_line('IDLE', ck)))
    # the reply text handed to the parsers is assembled by the line handlers: text of an asynchronous event that
    # arrives between replies must not leak into the next reply (units shared with C02: inv.idle_has_no_partial_reply)
    from props import C02
    for ck in ('none', 'plain', 'percb'):
        out.append(('C13/event_between_replies@%s' % ck, C02.unit_event_line('RECV', ck)))
    return out


# ==========================================================================================
from pyvc.report import adopt_twin
FINDING_PATTERNS = [(r'data_line_reads_OK\+data_line_starts_with_requested_key_eq', F_OKLINE),
                    (r'quote_wrapped_value', F_QUOTES), (r'data_line_reads_OK', F_OKLINE),
                    (r'data_line_starts_with_requested_key_eq', F_KEYLINE)]
twin, _replay_twin = adopt_twin('twin.tC13', FINDING_PATTERNS)


def replay(unit, name, model):
    if 'unquote' in unit:
        import txtorcon.torcontrolprotocol as tcp
        w = model.get('word')
        if not isinstance(w, str):
            return {'reproduced': False}
        got = tcp.unquote(w)
        wrapped = len(w) >= 1 and ((w[0] == '"' and w[-1] == '"') or (w[0] == "'" and w[-1] == "'"))
        return {'reproduced': got != w, 'what': 'unquote(%r) = %r' % (w, got), 'history': {'word': w},
                'finding': F_QUOTES if wrapped else None}
    if 'data_block' in unit:
        return C01.replay(unit.replace('C13/data_block_line', 'C01/lineReceived@RECV_PLUS').replace('@plain', '/plain').replace('@percb', '/percb'),
                          name, model)
    if 'parse_keywords@' in unit:
        import re
        import txtorcon.torcontrolprotocol as tcp
        m_ = re.search(r'parse_keywords@(\d)/([0-9+]+)/(multiline|per_line)', unit)
        if not m_:
            return {'reproduced': False, 'what': 'no native replay for this shape'}
        n = int(m_.group(1))
        keys = [model.get('key%d' % i) or ('K%d' % i) for i in range(n)]
        vals = [model.get('value%d' % i) or '' for i in range(n)]
        ws = ' \t\n\r\x0b\x0c\x1c\x1d\x1e\x1f='
        if any((not k) or any(c in k for c in ws) for k in keys) or any('\n' in v for v in vals):
            return {'reproduced': False, 'what': 'model is outside the precondition (keyword / value shape)'}
        text = '\n'.join('%s=%s' % kv for kv in zip(keys, vals))
        got = tcp.parse_keywords(text) if m_.group(3) == 'multiline' else tcp.parse_keywords(text, multiline_values=False)
        want = {}
        for k, v in zip(keys, vals):
            u = tcp.unquote(v)
            if k in want:
                want[k] = (want[k] if isinstance(want[k], list) else [want[k]]) + [u]
            else:
                want[k] = u
        # (values wrapped in quotes are the separate finding of C13/unquote: compared after unquote on both sides)
        return {'reproduced': got != want, 'what': 'parse_keywords(%r) = %r, expected %r' % (text, got, want)}
    return {'reproduced': False, 'what': 'no native replay for this unit'}


def replay_file(doc):
    if doc.get('kind') == 'twin':
        return _replay_twin(doc)
    unit, name = doc['obligation'].split('::')
    return replay(unit, name, doc['model'])
