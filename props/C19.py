"""C19 -- launch fires at most once; success only after full bootstrap; tempdir removed.

Proof units on the real TorProcessProtocol handlers: the 'outcome known <=> no pending
listeners' invariant preserved by each handler in any order (that is the permutation
quantifier), success only on PROGRESS=100, timeout => TERM + failure, processEnded => cleanup +
failure, late when_connected() gets the same outcome, and the await order of _tor_connected."""
import z3

from pyvc.exec import Raise, Unsupported
from pyvc.sym import (VInt, VBool, VStr, VBytes, VNone, NONE, VTuple, VInst, VOpaque, VUnion, VConc, VFunc, VSeq, VList,
                      concrete_of, mk_str, zand, zor, TOpaque)
from contracts import process as P

PROP = 'C19'
MODULE = 'txtorcon.controller'
FUNCS = ['TorProcessProtocol.__init__', 'TorProcessProtocol.when_connected', 'TorProcessProtocol._maybe_notify_connected',
         'TorProcessProtocol.outReceived', 'TorProcessProtocol.errReceived', 'TorProcessProtocol._timeout_expired',
         'TorProcessProtocol.processEnded', 'TorProcessProtocol.processExited', 'TorProcessProtocol.cleanup',
         'TorProcessProtocol._status_client', 'TorProcessProtocol._tor_connected', 'TorProcessProtocol._tor_connection_failed',
         'TorProcessProtocol.progress', 'launch']
TRUSTED = [
    'A2/A8 process transport delivers outReceived/errReceived/processExited/processEnded; spawnProcess; real temp directories (twin)',
    'A3 Deferred / inlineCallbacks semantics; A6 reactor timers fire once, DelayedCall.cancel',
    'A7 shlex.split / find_keywords on the STATUS_CLIENT text uninterpreted; int() model',
    'A9 Tor sends no event for a subscription before acknowledging its SETEVENTS (needed for "ownership requested before success")',
    'launch() units: tor_binary, socks_port, user, connection_creator and an opaque _tor_config (attribute writes recorded, config_args() empty, ControlPort unset) are given, not symbolic; os.mkdir succeeds or raises OSError, tempfile.mkdtemp returns a fresh path, os.path.exists either, euid / pid any integer, functools.partial kept as a tuple, reactor.addSystemEventTrigger / spawnProcess recorded (A2/A8); IReactorCore.providedBy true',
    'induction over handler sequences (DESIGN 3.4); pyvc semantics; z3/cvc5',
]
LEVEL = 'proof'
MANIFEST = {
    'category': 'proof',
    'technique': 'contract-based deductive verification: outcome invariant of TorProcessProtocol preserved by every handler (real bodies), loop by per-iteration contract, await order of the _tor_connected coroutine with every await allowed to fail (pyvc VCs, z3/cvc5); bounded CPython twin over event permutations',
    'text': 'Invariant "outcome known <=> _connected_listeners is None, every pending wait unfired, every wait ever handed out fired exactly once with the '
            'stored outcome" is proved preserved by when_connected, _maybe_notify_connected, _status_client, _timeout_expired and processEnded from both '
            'states, so it holds for every ordering of those events. Success is proved to be fired only by a BOOTSTRAP event with PROGRESS=100 (timer '
            'cancelled only then); timeout signals TERM and fails; processEnded deletes exactly to_delete and fails; in _tor_connected the STATUS_CLIENT '
            'listener is registered only after post_bootstrap resumed normally and TAKEOWNERSHIP is submitted right after the subscription resumes. '
            'launch(): a caller-supplied data directory is never put on to_delete nor given a shutdown trigger; without one, exactly the mkdtemp directory is DataDirectory, to_delete and the target of the shutdown trigger.',
    'level_note': 'Assumed (A): Deferred/inlineCallbacks/timer semantics, process transport, event text tokenisation uninterpreted, Tor sends no event before '
                  'acknowledging SETEVENTS. Bounded (B): permutations of the event set with real temp directories in the twin; launch() is under contract for the data-directory clauses (six units: caller directory / temporary directory x ControlPort 0 / TCP / default unix socket, real TorProcessProtocol.__init__ inlined) with tor_binary, socks_port, user, connection_creator and the TorConfig given (opaque config object; its attribute writes are recorded); the TorConfig() that launch() builds itself, find_tor_binary, available_tcp_port and the unix: control-socket directory checks only in the twin.',
}


def make_models():
    return P.ProcessModels()


def B(x):
    return z3.BoolVal(bool(x))


TD = TOpaque('Deferred')


def make_tpp(ctx, path, notified, with_timer=True, to_delete=1):
    import txtorcon.controller as ctl
    ex = ctx.ex
    H = path.heap
    tpp = ex.new_inst(path, ctl.TorProcessProtocol)
    o = tpp.oid
    pend0 = z3.Const('pending0', z3.SeqSort(z3.IntSort()))
    ctx.input('pending0', pend0)
    stored = VOpaque('outcome', 7500)
    if notified:
        H[('f', o, '_connected_listeners')] = NONE
        H[('f', o, '_connected_result')] = stored
    else:
        H[('f', o, '_connected_listeners')] = VSeq(pend0, TD)
        H[('f', o, '_connected_result')] = tpp   # placeholder until an outcome exists
    H[('f', o, 'transport')] = VOpaque('transport', 7400)
    H[('f', o, '_did_timeout')] = VBool(z3.Bool('did_timeout0'))
    H[('f', o, '_timeout_delayed_call')] = VOpaque('DelayedCall', 7300) if with_timer else NONE
    H[('f', o, 'to_delete')] = ex.new_list(path, [VStr(z3.String('tmpdir%d' % i)) for i in range(to_delete)])
    H[('f', o, 'progress_updates')] = VOpaque('progress_cb', 7200)
    H[('f', o, 'stdout')] = NONE
    H[('f', o, 'stderr')] = NONE
    H[('f', o, 'kill_on_stderr')] = VBool(True)
    H[('f', o, 'config')] = NONE
    # the control connection may or may not exist yet
    has_proto = z3.Bool('control_connection_exists')
    ctx.input('control_connection_exists', VBool(has_proto))
    ctx.input('attempted0', VBool(z3.Bool('attempted0')))
    H[('f', o, 'tor_protocol')] = VUnion([(has_proto, VOpaque('proto', 7902)), (z3.Not(has_proto), NONE)])
    H[('f', o, 'attempted_connect')] = VBool(z3.Bool('attempted0'))
    H[('f', o, 'connection_creator')] = VOpaque('connection_creator', 7100)
    H[('f', o, '_on_exit')] = ex.new_list(path, [])
    return tpp, dict(pend0=pend0, stored=stored)


def outcome_posts(ctx, p, tpp, pre, notified, expect, arg_check=None):
    """expect: 'none' (no outcome produced now) | 'ok' | 'err'"""
    fired = ctx.models.glog(p, 'fired')
    na = p.heap.get(('g', 'notified_all'), ())
    lst = p.heap[('f', tpp.oid, '_connected_listeners')]
    out = []
    if notified:
        out.append(('outcome_fires_at_most_once', zand(B(len(na) == 0), B(isinstance(lst, VNone)),
                                                       B(len([f for f in fired if f[0].kind == 'Deferred' and f not in ()]) == len(fired)))))
        out.append(('stored_outcome_unchanged', B(p.heap[('f', tpp.oid, '_connected_result')] is pre['stored'])))
    elif expect == 'none':
        out.append(('no_outcome_before_its_cause', zand(B(len(na) == 0), B(isinstance(lst, VSeq)),
                                                        lst.t == pre['pend0'] if isinstance(lst, VSeq) else B(False))))
    else:
        ok = len(na) == 1
        out.append(('every_pending_wait_notified_exactly_once', zand(B(ok), na[0].t == pre['pend0'] if ok else B(False),
                                                                     B(isinstance(lst, VNone)))))
        res = p.heap.get(('f', tpp.oid, '_connected_result'))
        arg = p.heap.get(('g', 'notify_arg_seen'))
        out.append(('outcome_remembered_for_late_requests', B(arg_check(res) if arg_check else True)))
    return out


class NotifyModels(P.ProcessModels):
    """records the argument of _maybe_notify_connected while its body runs inline"""
    def contract_for(self, ex, path, f, args, kw):
        if f.qualname.endswith('TorProcessProtocol._maybe_notify_connected') and not path.heap.get(('g', 'in_notify')):
            path.heap[('g', 'notify_arg')] = args[0]
            path.heap[('g', 'notify_arg_seen')] = args[0]
        return P.ProcessModels.contract_for(self, ex, path, f, args, kw)


def make_models():
    return NotifyModels()


def is_failure(p, v):
    import twisted.python.failure as tf
    return isinstance(v, VInst) and v.cls is tf.Failure


def unit_handler(handler, notified):
    def run(ctx):
        for q in FUNCS:
            try:
                ctx.fn(MODULE, q)
            except KeyError:
                ctx.notes.append('function %s not found' % q)
        ex = ctx.ex
        path = ctx.new_path()
        tpp, pre = make_tpp(ctx, path, notified)
        ctx.cover('pre_satisfiable', path)
        prog = None
        if handler == 'when_connected':
            args = []
        elif handler == '_maybe_notify_connected':
            args = [VOpaque('outcome', 7501)]
        elif handler == '_timeout_expired':
            args = []
        elif handler == 'processEnded':
            args = [VOpaque('status', 7502)]
        elif handler in ('outReceived', 'errReceived'):
            data = z3.String('process_output')
            ctx.input('process_output', VBytes(data))
            args = [VBytes(data)]
        elif handler == '_status_client':
            args = [VStr(z3.String('event_text'))]
            # A9: PROGRESS is a plain decimal number
            path.assume(z3.InRe(z3.String('progress_text'), z3.Plus(z3.Range('0', '9'))))
        outs = ex.getattr_v(path, tpp, handler)
        outs = ex.call(outs[0][0], outs[0][1], args, {})
        for p, r in outs:
            if isinstance(r, Raise) and handler == 'errReceived':
                # stderr output kills the launch attempt: the connection to the process is dropped; the outcome itself
                # comes from processEnded, never from here
                lose = ctx.models.glog(p, 'lose')
                ctx.oblige('post.stderr_output_drops_the_process_connection', p, B(len(lose) == 1 and isinstance(r.exc, VInst) and r.exc.cls is RuntimeError))
                for name, g in outcome_posts(ctx, p, tpp, pre, notified, 'none'):
                    ctx.oblige('post.' + name, p, g, clause='it fails if the process exits first (not merely because it wrote to stderr)')
                continue
            if isinstance(r, Raise):
                cname = r.exc.cls.__name__ if isinstance(r.exc, VInst) else '?'
                if handler == '_status_client':
                    # malformed event text (non-numeric PROGRESS): outside A9
                    ctx.oblige('exception_only_for_malformed_event[%s]' % cname, p,
                               z3.Not(z3.InRe(z3.String('progress_text'), z3.Plus(z3.Range('0', '9')))))
                else:
                    ctx.oblige('no_exception[%s]' % cname, p, B(False))
                continue
            fired = ctx.models.glog(p, 'fired')
            signals = ctx.models.glog(p, 'signals')
            cancelled = ctx.models.glog(p, 'cancelled')
            deleted = ctx.models.glog(p, 'deleted')
            posts = []
            if handler == 'when_connected':
                alloc = ctx.models.glog(p, 'allocated')
                okd = isinstance(r, VOpaque) and r.kind == 'Deferred' and len(alloc) == 1
                posts.append(('returns_a_fresh_wait', B(okd)))
                lst = p.heap[('f', tpp.oid, '_connected_listeners')]
                if notified:
                    posts.append(('late_request_gets_the_stored_outcome_at_once', B(
                        okd and len(fired) == 1 and fired[0][0] is alloc[0] and fired[0][2] is pre['stored'])))
                    posts.append(('state_unchanged', B(isinstance(lst, VNone))))
                else:
                    posts.append(('early_request_waits', zand(B(len(fired) == 0),
                                                              lst.t == z3.Concat(pre['pend0'], z3.Unit(r.t)) if (okd and isinstance(lst, VSeq)) else B(False))))
            elif handler == '_maybe_notify_connected':
                posts.extend(outcome_posts(ctx, p, tpp, pre, notified, 'ok', lambda res: res is args[0]))
            elif handler == '_timeout_expired':
                term = len(signals) == 1 and concrete_of(signals[0]) == (True, 'TERM')
                posts.append(('timeout_signals_the_process_to_terminate', B(term)))
                posts.extend(outcome_posts(ctx, p, tpp, pre, notified, 'err', lambda res: is_failure(p, res)))
            elif handler == 'processEnded':
                td = p.heap[('f', tpp.oid, 'to_delete')]
                posts.append(('temporary_directory_removed_once_the_process_ended',
                              zand(B(len(deleted) == 1 and isinstance(deleted[0], VStr)),
                                   deleted[0].t == z3.String('tmpdir0') if len(deleted) == 1 and isinstance(deleted[0], VStr) else B(False),
                                   B(len(ex.list_items(p, td)) == 0 if hasattr(td, 'lid') else False))))
                posts.extend(outcome_posts(ctx, p, tpp, pre, notified, 'err', lambda res: is_failure(p, res)))
            elif handler == 'outReceived':
                connects = ctx.models.glog(p, 'connects')
                chained = ctx.models.glog(p, 'chained')
                marker = z3.Contains(z3.String('process_output'), mk_str('Opening Control listener'))
                attempted0 = z3.Bool('attempted0')
                start = z3.And(z3.Not(attempted0), marker)
                okc = len(connects) == 1
                if okc and chained:
                    # the outcome of the connection attempt is routed by running what was registered on its Deferred
                    from pyvc import chain as CH
                    d0 = chained[0][0]
                    entries = CH.entries_of(chained, d0)
                    for fails in (False, True):
                        q = p.fork()
                        q.heap[('g', 'summarise_steps')] = True
                        val = VOpaque('failure', 41) if fails else VOpaque('proto', 7903)
                        for q2, v, bad in CH.run(ex, q, entries, val, failed=fails, models=ctx.models):
                            steps = ctx.models.glog(q2, 'steps')
                            want = '_tor_connection_failed' if fails else '_tor_connected'
                            ctx.oblige('post.connection_%s_reaches_%s' % ('failure' if fails else 'result', want), q2,
                                       B(len(steps) == 1 and steps[0][0] == want and steps[0][1] is val),
                                       clause='success only after Tor reported 100% bootstrap over the authenticated control connection')
                posts.append(('control_connection_attempted_once_when_the_listener_is_announced', z3.If(start, B(okc and len(chained) >= 1), B(len(connects) == 0 and len(chained) == 0))))
                att = p.heap[('f', tpp.oid, 'attempted_connect')]
                posts.append(('attempt_remembered', att.t == z3.Or(attempted0, marker) if isinstance(att, VBool) else B(False)))
                # process output never produces an outcome: success needs the 100% event on the authenticated control connection
                posts.extend(outcome_posts(ctx, p, tpp, pre, notified, 'none') if not notified else outcome_posts(ctx, p, tpp, pre, True, 'none'))
                posts.append(('timeout_stays_armed', B(len(cancelled) == 0)))
            elif handler == 'errReceived':
                posts.append(('unreachable_with_kill_on_stderr', B(False)))
            elif handler == '_status_client':
                kind = z3.String('event_kind')
                ptxt = z3.String('progress_text')
                is_boot = kind == mk_str('BOOTSTRAP')
                done = z3.And(is_boot, z3.StrToInt(ptxt) == 100, z3.InRe(ptxt, z3.Plus(z3.Range('0', '9'))))
                na = p.heap.get(('g', 'notified_all'), ())
                produced = len(na) == 1 or (notified and False)
                lst = p.heap[('f', tpp.oid, '_connected_listeners')]
                if not notified:
                    posts.append(('success_only_on_100_percent_bootstrap', z3.Implies(B(len(na) == 1), done)))
                    posts.append(('100_percent_bootstrap_succeeds_with_the_protocol',
                                  z3.Implies(done, zand(B(len(na) == 1), na[0].t == pre['pend0'] if len(na) == 1 else B(False),
                                                        B(p.heap.get(('g', 'notify_arg_seen')) is tpp)))))
                    posts.append(('nothing_happens_below_100_percent', z3.Implies(z3.Not(done), zand(
                        B(len(na) == 0), B(isinstance(lst, VSeq)), B(len(cancelled) == 0),
                        B(isinstance(p.heap[('f', tpp.oid, '_timeout_delayed_call')], VOpaque))))))
                    posts.append(('timeout_cancelled_only_at_100_percent', z3.Implies(B(len(cancelled) > 0), done)))
                else:
                    posts.extend(outcome_posts(ctx, p, tpp, pre, True, 'none'))
            for name, g in posts:
                ctx.oblige('post.' + name, p, g, clause=name)
            # Inv: listeners None <=> an outcome is stored
            lst = p.heap[('f', tpp.oid, '_connected_listeners')]
            ctx.oblige('inv.pending_list_is_list_or_none', p, B(isinstance(lst, (VNone, VSeq))))
    return run


def unit_tor_connected():
    def run(ctx):
        ctx.fn(MODULE, 'TorProcessProtocol._tor_connected')
        ex = ctx.ex
        path = ctx.new_path()
        tpp, pre = make_tpp(ctx, path, False)
        proto = VOpaque('proto', 7901)
        ctx.cover('pre_satisfiable', path)
        outs = ex.getattr_v(path, tpp, '_tor_connected')
        outs = ex.call(outs[0][0], outs[0][1], [proto], {})
        n_normal = 0
        for p, r in outs:
            calls = ctx.models.glog(p, 'proto_calls')
            awaited = ctx.models.glog(p, 'awaited')
            names = []
            for c in calls:
                a0 = c[1][0] if c[1] else None
                names.append((c[0], concrete_of(a0)[1] if a0 is not None and concrete_of(a0)[0] else None))
            want = [('add_event_listener', 'STATUS_CLIENT'), ('queue_command', 'TAKEOWNERSHIP'),
                    ('queue_command', 'RESETCONF __OwningControllerProcess')]
            ctx.oblige('post.calls_are_a_prefix_of_subscribe_takeownership_resetconf', p, B(names == want[:len(names)]),
                       clause='ownership of the process is requested on the authenticated control connection')
            # the listener is registered only after post_bootstrap was awaited (first await) and resumed normally
            if names:
                first_is_post_bootstrap = (len(awaited) >= 1 and isinstance(awaited[0][0], VOpaque) and
                                           z3.is_true(z3.simplify(awaited[0][0].t == 7700)) and awaited[0][1] == 0)
                ctx.oblige('post.bootstrap_listener_registered_only_after_post_bootstrap_succeeded', p, B(first_is_post_bootstrap),
                           clause='succeeds only after Tor reported 100% bootstrap over the authenticated control connection')
                cb = calls[0][1][1] if len(calls[0][1]) > 1 else None
                ctx.oblige('post.listener_is_the_bootstrap_status_handler', p,
                           B(isinstance(cb, VFunc) and cb.qualname.endswith('_status_client')))
            if len(names) >= 2:
                # no await between the resume from the subscription and the TAKEOWNERSHIP submission:
                # the second await is the subscription (1 call made), the third is TAKEOWNERSHIP (2 calls made)
                ok = len(awaited) >= 3 and awaited[1][1] == 1 and awaited[2][1] == 2
                ctx.oblige('post.takeownership_submitted_in_the_turn_the_subscription_resumes', p, B(ok),
                           clause='ownership is requested before a bootstrap event can complete the launch')
            if not isinstance(r, Raise):
                n_normal += 1
                ctx.oblige('post.normal_completion_made_all_three_calls', p, B(names == want))
        if not n_normal:
            ctx.oblige('some_normal_exit', path, B(False))
    return run


class InitModels19(NotifyModels):
    """externals of TorProcessProtocol.__init__: IReactorTime(x) adapts to x itself, reactor.callLater is recorded, StringIO()"""
    def callable_(self, ex, path, obj, args, kw):
        import io
        from twisted.internet.interfaces import IReactorTime
        if obj is IReactorTime:
            return [(path, args[0])]
        if obj is io.StringIO:
            return [(path, VOpaque('stringio', ex.fresh_int(path, 'sio')))]
        return NotifyModels.callable_(self, ex, path, obj, args, kw)

    def method(self, ex, path, recv, name, args, kw):
        if isinstance(recv, VOpaque) and recv.kind == 'reactor' and name == 'callLater':
            self.assumptions.add('A6 IReactorTime.callLater(delay, f): f runs once, delay seconds from now (a relative delay)')
            c = VOpaque('DelayedCall', ex.fresh_int(path, 'call'))
            self.glog_add(path, 'callLater', (tuple(args), c))
            return [(path, c)]
        if isinstance(recv, VOpaque) and recv.kind == 'reactor' and name == 'seconds' and not args:
            from pyvc.sym import VFloat
            return [(path, VInt(z3.Int('reactor_clock_now')))]      # whatever the reactor clock reads at launch
        return NotifyModels.method(self, ex, path, recv, name, args, kw)


def unit_init(with_timeout):
    """the constructor establishes what the handler units start from: nobody waiting yet, no outcome, and - with a timeout - one
    pending call of _timeout_expired exactly `timeout` seconds from now"""
    def run(ctx):
        ctx.fn(MODULE, 'TorProcessProtocol.__init__')
        import txtorcon.controller as ctl
        ex = ctx.ex
        path = ctx.new_path()
        tpp = ex.new_inst(path, ctl.TorProcessProtocol)
        t = z3.Int('timeout')
        ctx.input('timeout', t)
        path.assume(t > 0)
        react = VOpaque('reactor', 7001)
        kw = {'ireactortime': react, 'timeout': VInt(t)} if with_timeout else {}
        ctx.cover('pre_satisfiable', path)
        g = ex.getattr_v(path, tpp, '__init__')
        n_ok = 0
        for p, r in ex.call(g[0][0], g[0][1], [VOpaque('connection_creator', 7100), VOpaque('progress_cb', 7200)], kw):
            if isinstance(r, Raise):
                ctx.oblige('no_exception', p, B(False))
                continue
            n_ok += 1
            H = p.heap
            o = tpp.oid
            lst = H.get(('f', o, '_connected_listeners'))
            ctx.oblige('post.nobody_waiting_and_no_outcome_yet', p,
                       B(isinstance(lst, VList) and len(ex.list_items(p, lst)) == 0 and H.get(('f', o, '_connected_result')) is tpp),
                       clause='the launch result fires at most once (it starts unfired)')
            calls = ctx.models.glog(p, 'callLater')
            dc = H.get(('f', o, '_timeout_delayed_call'))
            if with_timeout:
                ok = (len(calls) == 1 and len(calls[0][0]) == 2 and isinstance(calls[0][0][0], VInt) and isinstance(calls[0][0][1], VFunc)
                      and calls[0][0][1].qualname.endswith('TorProcessProtocol._timeout_expired') and calls[0][0][1].bound is tpp and dc is calls[0][1])
                ctx.oblige('post.timeout_armed_once_for_exactly_the_given_delay', p, zand(B(ok), calls[0][0][0].t == t) if ok else B(False),
                           clause='it fails if the timeout elapses first (the timeout counts from the launch, whatever the reactor clock reads)')
            else:
                ctx.oblige('post.no_timer_without_a_timeout', p, B(len(calls) == 0 and isinstance(dc, VNone)))
        if not n_ok:
            ctx.oblige('some_normal_exit', path, B(False))
    return run


F_abspath = z3.Function('os_path_abspath', z3.StringSort(), z3.StringSort())
F_realpath = z3.Function('os_path_realpath', z3.StringSort(), z3.StringSort())


class DeleteModels19(NotifyModels):
    """externals of util.delete_file_or_tree: os.unlink (succeeds or raises OSError), shutil.rmtree, os.path.abspath / realpath
    (uninterpreted: a path may or may not be reached through a symbolic link)"""
    def contract_for(self, ex, path, f, args, kw):
        return CommonModels19.contract_for(self, ex, path, f, args, kw)

    def callable_(self, ex, path, obj, args, kw):
        import os
        import shutil
        if obj is os.unlink or obj is os.remove:
            self.glog_add(path, 'unlink', args[0])
            pr = path.fork()
            b = ex.fresh_bool(pr, 'unlink_fails')
            pr.assume(b)
            path.assume(z3.Not(b))
            return [(path, NONE)] + ex.raise_(pr, OSError, 'is a directory')
        if obj is shutil.rmtree:
            self.glog_add(path, 'rmtree', (args[0], dict(kw)))
            return [(path, NONE)]
        if obj is os.path.abspath and isinstance(args[0], VStr):
            return [(path, VStr(F_abspath(args[0].t)))]
        if obj is os.path.realpath and isinstance(args[0], VStr):
            return [(path, VStr(F_realpath(args[0].t)))]
        return NotifyModels.callable_(self, ex, path, obj, args, kw)


from contracts.common import CommonModels as CommonModels19


def unit_delete(n):
    """util.delete_file_or_tree(*paths): every path is removed - as a file, or else as a tree - however it is spelled (the path
    itself, its absolute or its resolved form); no path is skipped"""
    def run(ctx):
        ctx.fn('txtorcon.util', 'delete_file_or_tree')
        from pyvc import extract
        ex = ctx.ex
        path = ctx.new_path()
        mi, node = extract.find('txtorcon.util', 'delete_file_or_tree')
        f = VFunc(node, 'txtorcon.util', 'delete_file_or_tree')
        ps = [z3.String('path%d' % i) for i in range(n)]
        for i, x in enumerate(ps):
            ctx.input('path%d' % i, VStr(x))
        ctx.cover('pre_satisfiable', path)
        n_ok = 0
        for p, r in ex.call(path, f, [VStr(x) for x in ps], {}):
            if isinstance(r, Raise):
                ctx.oblige('no_exception', p, B(False), clause='deletion errors are ignored')
                continue
            n_ok += 1
            un = ctx.models.glog(p, 'unlink')
            rm = ctx.models.glog(p, 'rmtree')
            goals = []
            for x in ps:
                spellings = [x, F_abspath(x), F_realpath(x)]
                hit = [zor(*[u.t == sp for sp in spellings]) for u in un if isinstance(u, VStr)] + \
                      [zor(*[a.t == sp for sp in spellings]) for (a, k) in rm if isinstance(a, VStr)]
                goals.append(zor(*hit) if hit else B(False))
            ctx.oblige('post.every_given_path_is_removed_as_a_file_or_as_a_tree', p, zand(*goals) if goals else B(True),
                       clause='a temporary data directory created for the launch is removed once the process has ended')
        if not n_ok:
            ctx.oblige('some_normal_exit', path, B(False))
    return run


class LaunchModels19(InitModels19):
    """externals of controller.launch(): os.mkdir (succeeds or raises OSError), tempfile.mkdtemp (a fresh path), functools.partial (kept as a
    tuple), reactor.addSystemEventTrigger / spawnProcess (recorded), euid / pid (any integer), os.path.exists (either), os.chown, pwd.getpwnam,
    IReactorCore.providedBy (true: the other answer raises at once), TorConfig as an opaque object whose attribute writes are recorded"""
    def callable_(self, ex, path, obj, args, kw):
        import functools, os, tempfile, pwd
        if obj is os.mkdir:
            pr = path.fork()
            b = ex.fresh_bool(pr, 'mkdir_fails')
            pr.assume(b)
            path.assume(z3.Not(b))
            self.glog_add(path, 'mkdir', args[0])
            return [(path, NONE)] + ex.raise_(pr, OSError, 'exists')
        if obj is tempfile.mkdtemp:
            self.glog_add(path, 'mkdtemp', NONE)
            return [(path, VStr(z3.String('tmpdir')))]
        if obj is os.geteuid:
            return [(path, VInt(ex.fresh_int(path, 'euid')))]
        if obj is os.getpid:
            return [(path, VInt(ex.fresh_int(path, 'pid')))]
        if obj is os.chown:
            self.glog_add(path, 'chown', tuple(args))
            return [(path, NONE)]
        if obj is pwd.getpwnam:
            return [(path, VOpaque('pwent', 7003))]
        if obj is os.path.exists:
            return [(path, VBool(ex.fresh_bool(path, 'exists')))]
        if obj is os.path.realpath and isinstance(args[0], VStr):
            return [(path, VStr(F_realpath(args[0].t)))]
        if obj is os.path.join and all(isinstance(a, VStr) for a in args):
            t = args[0].t
            for a in args[1:]:
                t = z3.Concat(t, z3.StringVal('/'), a.t)
            return [(path, VStr(t))]
        if obj is functools.partial:
            return [(path, VTuple([VConc('partial')] + list(args)))]
        return InitModels19.callable_(self, ex, path, obj, args, kw)

    def opaque_attr(self, ex, path, obj, name):
        if obj.kind == 'config' and name == 'ControlPort':
            return [(path, NONE)]          # the caller's config leaves ControlPort open (units *_unix_default)
        if obj.kind == 'pwent' and name == 'pw_uid':
            return [(path, VInt(ex.fresh_int(path, 'uid')))]
        return InitModels19.opaque_attr(self, ex, path, obj, name)

    def method(self, ex, path, recv, name, args, kw):
        if isinstance(recv, VConc) and name == 'providedBy':
            return [(path, VBool(True))]
        if isinstance(recv, VOpaque):
            k = recv.kind
            if k == 'reactor' and name == 'addSystemEventTrigger':
                self.glog_add(path, 'triggers', tuple(args))
                return [(path, NONE)]
            if k == 'reactor' and name == 'spawnProcess':
                self.glog_add(path, 'spawn', (tuple(args), dict(kw)))
                return [(path, VOpaque('transport', 7002))]
            if k == 'transport' and name == 'closeStdin':
                return [(path, NONE)]
            if k == 'config' and name == 'config_args':
                return [(path, VTuple([]))]
        return InitModels19.method(self, ex, path, recv, name, args, kw)


def _is_delete_partial(v, dd_t):
    import txtorcon.util as util
    if not (isinstance(v, VTuple) and len(v.items) == 3 and isinstance(v.items[0], VConc) and v.items[0].obj == 'partial'):
        return None
    fn, a = v.items[1], v.items[2]
    is_del = (isinstance(fn, VFunc) and fn.qualname == 'delete_file_or_tree') or (isinstance(fn, VConc) and fn.obj is util.delete_file_or_tree)
    if not (is_del and isinstance(a, VStr)):
        return None
    return a.t == dd_t


def unit_launch(caller_dir, ctl):
    """controller.launch(): a caller-supplied data directory is never registered for deletion (neither on the process protocol nor as a
    shutdown trigger) and is the DataDirectory / HOME Tor gets; without one, exactly the directory mkdtemp returned is DataDirectory, is the
    protocol's to_delete and has a shutdown trigger deleting it.  The real TorProcessProtocol.__init__ is inlined."""
    def run(ctx):
        ctx.fn(MODULE, 'launch')
        from pyvc import extract
        import txtorcon.controller as ctlmod
        ex = ctx.ex
        path = ctx.new_path()
        mi, node = extract.find(MODULE, 'launch')
        f = VFunc(node, MODULE, 'launch')
        cfg = VOpaque('config', 7300)
        kw = {'tor_binary': VStr('/usr/bin/tor'), '_tor_config': cfg, 'socks_port': VInt(9050), 'user': VStr('u'),
              'connection_creator': VOpaque('connection_creator', 7100)}
        if ctl == 'zero':
            kw['control_port'] = VInt(0)
        elif ctl == 'tcp':
            cp = z3.Int('control_port')
            ctx.input('control_port', cp)
            path.assume(cp > 0)
            kw['control_port'] = VInt(cp)
        if caller_dir:
            dd = z3.String('data_directory')
            ctx.input('data_directory', dd)
            kw['data_directory'] = VStr(dd)
            the_dir = dd
        else:
            the_dir = z3.String('tmpdir')
        ctx.cover('pre_satisfiable', path)
        n_ok = 0
        for p, r in ex.call(path, f, [VOpaque('reactor', 7001)], kw):
            H = p.heap
            trig = ctx.models.glog(p, 'triggers')
            spawn = ctx.models.glog(p, 'spawn')
            sets = [(n, v) for (o, n, v) in ctx.models.glog(p, 'set') if o is cfg or (isinstance(o, VOpaque) and o.kind == 'config')]
            mk = ctx.models.glog(p, 'mkdtemp')
            dds = [v for (n, v) in sets if n == 'DataDirectory']
            ctx.oblige('post.DataDirectory_is_the_directory_in_use', p,
                       zand(B(len(dds) == 1 and isinstance(dds[0], VStr)), dds[0].t == the_dir) if dds and isinstance(dds[0], VStr) else B(False),
                       clause='a temporary data directory created for the launch / a caller-supplied directory')
            tos = []
            if spawn:
                pp = spawn[0][0][0]
                if isinstance(pp, VInst):
                    lst = H.get(('f', pp.oid, 'to_delete'))
                    tos = ex.list_items(p, lst) if isinstance(lst, VList) else None
                else:
                    tos = None
            if caller_dir:
                ctx.oblige('post.caller_directory_is_never_registered_for_deletion', p,
                           B(len(trig) == 0 and len(mk) == 0 and tos is not None and len(tos) == 0),
                           clause='a caller-supplied directory is never removed')
            else:
                dels = [_is_delete_partial(t[2], the_dir) if len(t) == 3 else None for t in trig]
                when_ok = all(len(t) == 3 and concrete_of(t[0]) == (True, 'before') and concrete_of(t[1]) == (True, 'shutdown') for t in trig)
                ctx.oblige('post.exactly_one_temporary_directory_is_created', p, B(len(mk) == 1),
                           clause='a temporary data directory created for the launch')
                ctx.oblige('post.shutdown_trigger_deletes_the_temporary_directory', p,
                           zand(B(bool(trig) and when_ok and all(d is not None for d in dels)), *[d for d in dels if d is not None]),
                           clause='a temporary data directory created for the launch is removed (fallback at reactor shutdown)')
                if spawn:
                    ok = tos is not None and len(tos) == 1 and isinstance(tos[0], VStr)
                    ctx.oblige('post.spawned_protocol_deletes_exactly_the_temporary_directory', p,
                               zand(B(ok), tos[0].t == the_dir) if ok else B(False),
                               clause='a temporary data directory created for the launch is removed once the process has ended')
            if spawn:
                env = spawn[0][1].get('env')
                home = None
                if env is not None:
                    try:
                        for p2, v in ex.index(p.fork(), env, VStr('HOME')) if hasattr(ex, 'index') else []:
                            home = v
                    except Exception:
                        home = None
                ctx.notes.append('spawn recorded; env HOME %s' % ('read' if home is not None else 'not inspected'))
            if isinstance(r, Raise):
                continue
            n_ok += 1
            ctx.oblige('post.process_was_spawned_once_before_success', p, B(len(spawn) == 1),
                       clause='launch succeeds only after the process was started')
        if not n_ok:
            ctx.oblige('some_normal_exit', path, B(False))
    return run


def make_models_for(unit_name):
    if 'delete_file_or_tree' in unit_name:
        return DeleteModels19()
    if 'C19/launch@' in unit_name:
        return LaunchModels19()
    return InitModels19() if '__init__' in unit_name else NotifyModels()


def units():
    out = [('C19/TorProcessProtocol.__init__@timeout', unit_init(True)), ('C19/TorProcessProtocol.__init__@no_timeout', unit_init(False)),
           ('C19/delete_file_or_tree@1', unit_delete(1)), ('C19/delete_file_or_tree@2', unit_delete(2))]
    for h in ('when_connected', '_maybe_notify_connected', '_timeout_expired', 'processEnded', '_status_client', 'outReceived', 'errReceived'):
        for notified in (False, True):
            out.append(('C19/%s@%s' % (h, 'outcome_known' if notified else 'pending'), unit_handler(h, notified)))
    out.append(('C19/_tor_connected', unit_tor_connected()))
    for caller_dir in (True, False):
        for ctl in ('zero', 'tcp', 'unix_default'):
            out.append(('C19/launch@%s_%s' % ('caller_dir' if caller_dir else 'tempdir', ctl), unit_launch(caller_dir, ctl)))
    return out


# ==========================================================================================
# bounded twin (B): stand-alone module twin/tC19.py (real classes, oracle from the statement)
from pyvc.report import adopt_twin
FINDING_PATTERNS = []
twin, _replay_twin = adopt_twin('twin.tC19', FINDING_PATTERNS)


def replay(unit, name, model):
    """native replay of a solver model on the real classes (props/replay_misc.py)"""
    if 'wait_requested_during_notification' in name:
        # the canonical history: one observer asks again from inside its callback; the way the outcome comes about follows the unit
        from twin import tC19
        tail = {'_timeout_expired': [tC19.E_TO], 'processEnded': [tC19.EXITS[0]]}.get(unit.split('/', 1)[1].split('@')[0],
                                                                                     [tC19.E_CONN, tC19.E_CTL, tC19.E_B100])
        h = {'scenario': tC19.scenario(1), 'events': [tC19.E_LISTEN, ['when_re']] + tail}
        try:
            v = [x for x in tC19.replay_history(h) if 'never_fired' in x.get('key', '')]
        except Exception as e:
            return {'reproduced': False, 'what': repr(e)}
        return {'reproduced': bool(v), 'history': h, 'what': v[0]['what'] if v else 'every hand-out fired on the real TorProcessProtocol'}
    from props import replay_misc
    return replay_misc.replay(unit, name, model)


def replay_file(doc):
    if doc.get('kind') == 'twin':
        return _replay_twin(doc)
    unit, name = doc['obligation'].split('::')
    return replay(unit, name, doc['model'])
