"""C07 -- live state lists exactly Tor's circuits and streams, attachments consistent.

Proof units on the real code, one event from an arbitrary object state (the induction step of the
history invariant; the twin runs whole histories):
  Stream.update@<status>/<attachment case>   attachment fields on both sides after the event, frame on other streams
  Stream.update@first_sight                  status, target and source address are the ones Tor reported
  Circuit.update@<status>                    status, purpose, flags, hop path recorded
  TorState.stream_closed / stream_failed     the stream is dropped from the table, nothing else
  TorState.circuit_new / circuit_launched / circuit_destroy   circuit table add / drop
  TorState._circuit_update / _stream_update  an event goes to the object with that id (created on first sight), once
  TorState._circuit_status / _stream_status  every snapshot line is applied once, in order"""
import z3

from pyvc.exec import Raise, Unsupported
from pyvc.sym import (VInt, VBool, VStr, VBytes, VNone, NONE, VTuple, VInst, VOpaque, VUnion, VConc, VFunc, VSeq, VList, VBoundExt,
                      VMap, VDictLit, TMap, TInt, TOpaque, TOpt, concrete_of, mk_str, zand, zor)
from pyvc import extract
from contracts.common import F_tok, F_ntok
from props import C08 as K

PROP = 'C07'
TRUSTED = [
    'A9 control-spec: a stream changes circuit only through DETACHED (an event never names another non-zero circuit while the stream is attached); '
    'every STREAM line is StreamID Status CircuitID Target ...; keyword names are upper-case',
    'find_keywords(args) yields the KEY=value arguments (C13); maybe_ip_addr returns the address it is given (as text or ip_address object)',
    'router_from_id returns the router object for a $-name (C16)',
    'listener notifications other than TorState\'s own are C08; logging has no effect',
    'induction over the event history (DESIGN 3.4): each unit is one step from an arbitrary consistent state',
    'pyvc semantics; z3/cvc5',
]
LEVEL = 'proof'
MANIFEST = {
    'category': 'proof',
    'technique': 'contract-based deductive verification of the real Stream.update, Circuit.update/update_path, TorState._circuit_update/_stream_update/'
                 '_circuit_status/_stream_status and TorState\'s own listener callbacks, one event from an arbitrary state (pyvc VCs, z3/cvc5); bounded CPython '
                 'twin over event histories checked after every event',
    'text': 'Per event: a stream that Tor reports closed, failed or detached (or on circuit 0) ends up with no circuit and is removed from exactly the circuit it was '
            'listed under, other streams of that circuit untouched; a stream reported on circuit N that was unattached is listed under find_circuit(N) exactly once; an '
            'attached stream stays listed once. Status, flags, target (first sight, in any status) and source address are the reported ones. A circuit records status, '
            'purpose, build flags, keyword flags and the path of its leading $-hops. stream_closed/stream_failed drop exactly that stream from the table; '
            'circuit_new/circuit_launched add, circuit_destroy drops exactly that circuit. An event is applied exactly once to the object registered under its id, '
            'which is created and registered on first sight; snapshot lines are each applied once in order.',
    'level_note': 'Bounded (B): whole histories (<= 3 circuits x 3 streams, tours of 12, long histories of 20-60 events, id reuse, relays outside the consensus), '
                  'consistency checked after every event - twin. Assumed (A): Tor never moves an attached stream without DETACHED; keyword extraction.',
}

B = K.B


class Models07(K.Models08):
    def __init__(self):
        K.Models08.__init__(self)
        self.lines = None
        self.summarise = False
        self.lemma_ctx = None

    def split_hook(self, ex, path, s, args, kw):
        if len(args) == 1 and concrete_of(args[0]) == (True, '\n') and self.lines is not None:
            self.assumptions.add('the snapshot text is split at newlines (Python str.split)')
            return [(path, ex.new_list(path, [VStr(l) for l in self.lines]))]
        return K.Models08.split_hook(self, ex, path, s, args, kw)

    def str_method(self, ex, path, s, name, args, kw):
        outs = K.Models08.str_method(self, ex, path, s, name, args, kw)
        if name == 'rfind' and self.lemma_ctx is not None and len(args) == 1 and concrete_of(args[0]) == (True, ':') and outs:
            # proof cut: for text of the shape a + ':' + digits the last colon is the separator.  The lemma is an
            # obligation of its own (stated where the path condition is still small) and is then used as a hypothesis.
            parts = []

            def flat(t):
                if t.decl().kind() == z3.Z3_OP_SEQ_CONCAT:
                    for c in t.children():
                        flat(c)
                else:
                    parts.append(t)
            flat(s.t)
            if len(parts) == 3 and z3.is_string_value(parts[1]) and parts[1].as_string() == ':':
                for p, r in outs:
                    if isinstance(r, VInt) and not concrete_of(r)[0]:
                        lemma = r.t == z3.Length(parts[0])
                        self.lemma_ctx.oblige('lemma.last_colon_separates[%s]' % parts[0], p, lemma)
                        p.assume(lemma)
        return outs

    def contract_for(self, ex, path, f, args, kw):
        if self.summarise and f.qualname in ('TorState._circuit_update', 'TorState._stream_update', 'TorState._maybe_attach'):
            self.glog_add(path, 'dispatched', (f.qualname.split('.')[-1], tuple(args)))
            return [(path, NONE)]
        return K.Models08.contract_for(self, ex, path, f, args, kw)

    def opaque_call(self, ex, path, f, args, kw):
        if f.kind == 'stream_factory':
            s = VOpaque('streamobj', ex.fresh_int(path, 'newstream'))
            self.glog_add(path, 'created', s)
            return [(path, s)]
        return K.Models08.opaque_call(self, ex, path, f, args, kw)


def make_models():
    return Models07()


def make_models_for(unit_name):
    if 'router_from_id' in unit_name:
        from props import C16
        return C16.make_models()        # base64 / hex codecs of Router.update (uninterpreted, as in C16)
    return Models07()


def _fns(ctx):
    K._fns(ctx)
    for q in ('TorState._circuit_update', 'TorState._stream_update', 'TorState._circuit_status', 'TorState._stream_status',
              'TorState.stream_closed', 'TorState.stream_failed', 'TorState.circuit_launched', 'TorState.find_circuit'):
        ctx.fn(K.TST, q)


def _items(ex, p, lst):
    return list(ex.list_items(p, lst))


def unit_stream_attach(status, attached_before, where):
    """where: 'zero' | 'same' | 'N' (N only when unattached before)"""
    def run(ctx):
        _fns(ctx)
        import txtorcon.circuit as cm
        ex = ctx.ex
        path = ctx.new_path()
        obj, ls = K._stream(ctx, path, listeners=1)
        o = obj.oid
        H = path.heap
        sid = z3.Int('stream_id')
        idtxt = z3.String('id_text')
        path.assume(z3.InRe(idtxt, z3.Plus(z3.Range('0', '9'))))
        path.assume(z3.StrToInt(idtxt) == sid)
        H[('f', o, 'target_host')] = VStr(z3.String('host0'))
        H[('f', o, 'target_port')] = VInt(z3.Int('port0'))
        cidtxt = z3.String('circ_text')
        path.assume(z3.InRe(cidtxt, z3.Plus(z3.Range('0', '9'))))
        cid = z3.StrToInt(cidtxt)
        other_a, other_f = VOpaque('streamobj', 400), VOpaque('streamobj', 401)
        a_id = z3.Int('attached_circ_id')
        path.assume(a_id > 0)
        circ_a = ex.new_inst(path, cm.Circuit)
        H[('f', circ_a.oid, 'id')] = VInt(a_id)
        H[('f', circ_a.oid, 'streams')] = ex.new_list(path, [other_a, obj] if attached_before else [other_a])
        circ_f = ex.new_inst(path, cm.Circuit)
        H[('f', circ_f.oid, 'id')] = VInt(cid)
        H[('f', circ_f.oid, 'streams')] = ex.new_list(path, [other_f])
        H[('g', 'found_circuit')] = circ_f
        if attached_before:
            H[('f', o, 'circuit')] = circ_a
        if where == 'zero':
            path.assume(cid == 0)
        elif where == 'same':
            path.assume(cid == a_id)       # A9: an attached stream is only ever reported on its circuit
        else:
            path.assume(cid > 0)
        ctx.models.kw_pairs = [(mk_str('REASON'), z3.String('reason'))] if status in ('CLOSED', 'FAILED', 'DETACHED') else []
        args = [VStr(idtxt), VStr(status), VStr(cidtxt), VStr(z3.String('target')), VStr(z3.String('kwtext'))]
        ctx.cover('pre_satisfiable', path)
        for p, r in K._call(ctx, path, obj, 'update', [ex.new_list(path, args)]):
            if isinstance(r, Raise):
                cname = r.exc.cls.__name__ if isinstance(r.exc, VInst) else '?'
                ctx.oblige('no_exception[%s]' % cname, p, B(False))
                continue
            now = p.heap[('f', o, 'circuit')]
            on_a = _items(ex, p, p.heap[('f', circ_a.oid, 'streams')])
            on_f = _items(ex, p, p.heap[('f', circ_f.oid, 'streams')])
            stt = p.heap[('f', o, 'state')]
            ctx.oblige('post.status_recorded', p, B(concrete_of(stt) == (True, status)), clause='each stream with its latest status')
            detaches = status in ('CLOSED', 'FAILED', 'DETACHED') or where == 'zero'
            if detaches:
                ctx.oblige('post.detached_stream_has_no_circuit', p, B(isinstance(now, VNone)),
                           clause='under none after it is detached, closed or failed')
                ctx.oblige('post.removed_from_exactly_its_circuit_others_untouched', p,
                           B(len(on_a) == 1 and on_a[0] is other_a and len(on_f) == 1 and on_f[0] is other_f),
                           clause='a stream appears under exactly the circuit it is on, once, and under none after it is detached, closed or failed')
            elif attached_before:
                ctx.oblige('post.attached_stream_stays_listed_once', p,
                           B(now is circ_a and len(on_a) == 2 and on_a[0] is other_a and on_a[1] is obj and len(on_f) == 1 and on_f[0] is other_f),
                           clause='a stream appears under exactly the circuit it is on, once')
            else:
                finds = ctx.models.glog(p, 'find_circuit')
                ctx.oblige('post.attached_to_the_reported_circuit_once', p,
                           zand(B(now is circ_f and len(on_f) == 2 and on_f[0] is other_f and on_f[1] is obj and len(on_a) == 1 and on_a[0] is other_a
                                  and len(finds) == 1 and isinstance(finds[0], VInt)),
                                finds[0].t == cid if len(finds) == 1 and isinstance(finds[0], VInt) else B(False)),
                           clause='attachment is consistent in both directions and matches what Tor reported')
    return run


def unit_stream_first_sight(status):
    def run(ctx):
        _fns(ctx)
        ex = ctx.ex
        path = ctx.new_path()
        obj, ls = K._stream(ctx, path, listeners=1)
        o = obj.oid
        H = path.heap
        H[('f', o, 'id')] = NONE
        H[('f', o, 'flags')] = ex.new_dict(path, [(VStr('REASON'), VStr(z3.String('old_reason')))])
        idtxt = z3.String('id_text')
        path.assume(z3.InRe(idtxt, z3.Plus(z3.Range('0', '9'))))
        host, port = z3.String('host'), z3.String('port_text')
        path.assume(z3.InRe(port, z3.Plus(z3.Range('0', '9'))))
        target = z3.Concat(host, mk_str(':'), port)
        shost, sport = z3.String('src_host'), z3.String('src_port_text')
        path.assume(z3.InRe(sport, z3.Plus(z3.Range('0', '9'))))
        src = z3.Concat(shost, mk_str(':'), sport)
        for nm, t in (('id_text', idtxt), ('host', host), ('port_text', port), ('src_host', shost), ('src_port_text', sport)):
            ctx.input(nm, VStr(t))
        ctx.models.kw_pairs = [(mk_str('SOURCE_ADDR'), src), (mk_str('PURPOSE'), z3.String('purpose'))]
        args = [VStr(idtxt), VStr(status), VStr('0'), VStr(target), VStr(z3.String('kwtext'))]
        ctx.cover('pre_satisfiable', path)
        ctx.models.lemma_ctx = ctx
        n = 0
        for p, r in K._call(ctx, path, obj, 'update', [ex.new_list(path, args)]):
            if isinstance(r, Raise):
                cname = r.exc.cls.__name__ if isinstance(r.exc, VInst) else '?'
                ctx.oblige('no_exception[%s]' % cname, p, B(False))
                continue
            n += 1
            g = lambda f: p.heap.get(('f', o, f))
            th, tp, sa, sp, idv = g('target_host'), g('target_port'), g('source_addr'), g('source_port'), g('id')
            ctx.oblige('post.id_recorded', p, idv.t == z3.StrToInt(idtxt) if isinstance(idv, VInt) else B(False))
            cl = 'each stream with its latest status, target and source address'
            ctx.oblige('post.target_host_is_the_reported_one', p, th.t == host if isinstance(th, VStr) else B(False), clause=cl)
            ctx.oblige('post.target_port_is_the_reported_one', p, tp.t == z3.StrToInt(port) if isinstance(tp, VInt) else B(False), clause=cl)
            ctx.oblige('post.source_host_is_the_reported_one', p, sa.t == shost if isinstance(sa, VStr) else B(False), clause=cl)
            ctx.oblige('post.source_port_is_the_reported_one', p, sp.t == z3.StrToInt(sport) if isinstance(sp, VInt) else B(False), clause=cl)
            fl = g('flags')
            okf = isinstance(fl, VDictLit)
            if okf:
                fp = p.heap[('dict', fl.did)]
                okf = [concrete_of(k)[1] for k, v in fp] == ['SOURCE_ADDR', 'PURPOSE']
            ctx.oblige('post.flags_are_exactly_the_event_keywords', p, B(okf), clause='each stream with its latest status (keywords of the latest report only)')
        if not n:
            ctx.oblige('some_normal_exit', path, B(False))
    return run


def unit_circuit_fields(status, nhops):
    def run(ctx):
        _fns(ctx)
        ex = ctx.ex
        path = ctx.new_path()
        obj, ls = K._circuit(ctx, path, listeners=1)
        o = obj.oid
        H = path.heap
        cid = z3.Int('circ_id')
        idtxt = z3.String('id_text')
        path.assume(z3.InRe(idtxt, z3.Plus(z3.Range('0', '9'))))
        path.assume(z3.StrToInt(idtxt) == cid)
        H[('f', o, 'path')] = ex.new_list(path, [VOpaque('router', 50)])
        # one stream is attached to this circuit (both directions of the relation)
        import txtorcon.stream as strm
        s0 = ex.new_inst(path, strm.Stream)
        H[('f', s0.oid, 'circuit')] = obj
        H[('f', s0.oid, 'id')] = VInt(z3.Int('stream_id'))
        streams0 = ex.new_list(path, [s0])
        H[('f', o, 'streams')] = streams0
        # the previous report carried a keyword this one does not
        H[('f', o, 'flags')] = ex.new_dict(path, [(VStr('HS_STATE'), VStr(z3.String('old_hs_state')))])
        hops = [z3.String('hop%d' % i) for i in range(nhops)]
        for h in hops:
            path.assume(z3.Length(h) > 0)
            ctx.input(str(h), VStr(h))
        purpose, bf = z3.String('purpose'), z3.String('build_flags')
        ctx.models.kw_pairs = [(mk_str('PURPOSE'), purpose), (mk_str('BUILD_FLAGS'), bf)]
        ctx.models.hops = hops
        with_path = nhops > 0
        args = [VStr(idtxt), VStr(status)] + ([VStr(z3.String('path_text'))] if with_path else []) + [VStr(z3.String('kwtext'))]
        ctx.cover('pre_satisfiable', path)
        # build_flags are split at ',' too: the hop model answers every split(','), so check them through the same list
        for p, r in K._call(ctx, path, obj, 'update', [ex.new_list(path, args)]):
            if isinstance(r, Raise):
                cname = r.exc.cls.__name__ if isinstance(r.exc, VInst) else '?'
                ctx.oblige('no_exception[%s]' % cname, p, B(False))
                continue
            g = lambda f: p.heap.get(('f', o, f))
            ctx.oblige('post.status_recorded', p, B(concrete_of(g('state')) == (True, status)), clause='each circuit with its latest status')
            pu = g('purpose')
            ctx.oblige('post.purpose_recorded', p, pu.t == purpose if isinstance(pu, VStr) else B(False), clause='purpose')
            fl = g('flags')
            okf = isinstance(fl, VDictLit)
            if okf:
                fp = p.heap[('dict', fl.did)]
                okf = len(fp) == 2 and [concrete_of(k)[1] for k, v in fp] == ['PURPOSE', 'BUILD_FLAGS'] and all(isinstance(v, VStr) for k, v in fp)
            ctx.oblige('post.flags_are_exactly_the_event_keywords', p,
                       zand(B(okf), fp[0][1].t == purpose, fp[1][1].t == bf) if okf else B(False),
                       clause='each circuit with its latest flags (a keyword Tor no longer reports is gone)')
            st1 = g('streams')
            items1 = ex.list_items(p, st1) if isinstance(st1, VList) else None
            ctx.oblige('frame.a_circuit_event_leaves_the_attachment_relation_alone_in_both_directions', p,
                       B(items1 is not None and len(items1) == 1 and items1[0] is s0 and p.heap.get(('f', s0.oid, 'circuit')) is obj),
                       clause='attachment is consistent in both directions and matches what Tor reported (a stream stays listed under its '
                              'circuit, and names it, until a stream event says otherwise - even if that circuit closes first)')
            routers = ctx.models.glog(p, 'routers')
            newpath = _items(ex, p, g('path'))
            if status == 'LAUNCHED':
                ctx.oblige('post.launched_circuit_has_no_hops', p, B(len(newpath) == 0), clause='hop path')
            elif status in ('CLOSED', 'FAILED') or not with_path:
                ctx.oblige('post.path_untouched_without_a_path_field', p, B(len(newpath) == 1 and str(newpath[0].t) == '50'))
            else:
                lead = []
                for h in hops:
                    lead.append(z3.And(*([z3.PrefixOf(mk_str('$'), h)] + ([lead[-1]] if lead else []))))
                for k in range(nhops + 1):
                    cond = z3.And(*([lead[i] for i in range(k)] + ([z3.Not(lead[k])] if k < nhops else [])))
                    ok = (len(newpath) == k and len(routers) >= k and all(newpath[i] is routers[i][1] for i in range(k))
                          and all(isinstance(routers[i][0], VStr) and z3.eq(routers[i][0].t, hops[i]) for i in range(k)))
                    ctx.oblige('post.path_is_the_reported_leading_hops[%d]' % k, p, z3.Implies(cond, B(ok)),
                               clause='each circuit with its latest hop path (relays outside the consensus included)')
    return run


def unit_stream_gone(which):
    def run(ctx):
        _fns(ctx)
        import txtorcon.torstate as ts
        ex = ctx.ex
        path = ctx.new_path()
        st = ex.new_inst(path, ts.TorState)
        obj, ls = K._stream(ctx, path, listeners=0)
        sid = z3.Int('stream_id')
        tm = TMap(TInt(), TOpaque('streamobj'))
        streams = tm.fresh('streams0')
        opt = TOpt(streams.vt)
        path.assume(z3.Not(opt.is_none(z3.Select(streams.t, sid))))
        path.heap[('f', st.oid, 'streams')] = streams
        ctx.cover('pre_satisfiable', path)
        for p, r in K._call(ctx, path, st, which, [obj], {'REASON': VStr(z3.String('reason'))}):
            if isinstance(r, Raise):
                ctx.oblige('no_exception', p, B(False))
                continue
            m = p.heap[('f', st.oid, 'streams')]
            ctx.oblige('post.exactly_this_stream_dropped', p, m.t == z3.Store(streams.t, sid, opt.dt.constructor(0)()),
                       clause='closed or failed ones are gone (and nothing else)')
    return run


def unit_circuit_table(which):
    def run(ctx):
        _fns(ctx)
        import txtorcon.torstate as ts
        ex = ctx.ex
        path = ctx.new_path()
        st = ex.new_inst(path, ts.TorState)
        obj, ls = K._circuit(ctx, path, listeners=0)
        cid = z3.Int('circ_id')
        if which == 'circuit_destroy':
            tm = TMap(TInt(), TOpaque('circ'))
            circuits = tm.fresh('circuits0')
            opt = TOpt(circuits.vt)
            path.assume(z3.Not(opt.is_none(z3.Select(circuits.t, cid))))
            path.heap[('f', st.oid, 'circuits')] = circuits
            still = [VOpaque('streamobj', 400), VOpaque('streamobj', 401)]
            path.heap[('f', obj.oid, 'streams')] = ex.new_list(path, still)
        else:
            # table with one other entry (concrete spine, symbolic key)
            other_id = z3.Int('other_id')
            other = VOpaque('circ', 300)
            path.heap[('f', st.oid, 'circuits')] = ex.new_dict(path, [(VInt(other_id), other)])
        ctx.cover('pre_satisfiable', path)
        for p, r in K._call(ctx, path, st, which, [obj]):
            if isinstance(r, Raise):
                ctx.oblige('no_exception', p, B(False))
                continue
            m = p.heap[('f', st.oid, 'circuits')]
            if which == 'circuit_destroy':
                ctx.oblige('post.exactly_this_circuit_dropped', p, m.t == z3.Store(circuits.t, cid, opt.dt.constructor(0)()),
                           clause='closed or failed ones are gone')
                left = _items(ex, p, p.heap[('f', obj.oid, 'streams')])
                ctx.oblige('post.streams_still_listed_under_the_closed_circuit_until_their_own_event', p,
                           B(len(left) == 2 and left[0] is still[0] and left[1] is still[1]),
                           clause='under none after it is detached, closed or failed, even if that circuit closed first')
            else:
                pairs = p.heap[('dict', m.did)]
                mine = [v for k, v in pairs if v is obj]
                keys_ok = zand(*[k.t == cid for k, v in pairs if v is obj])
                rest = [(k, v) for k, v in pairs if v is not obj]
                rest_ok = B(all(v is other for k, v in rest) and len(rest) <= 1)
                kept = zor(other_id == cid, B(len(rest) == 1)) if True else None
                ctx.oblige('post.circuit_listed_under_its_id_others_untouched', p,
                           zand(B(len(mine) == 1), keys_ok, rest_ok, kept, *[k.t == other_id for k, v in rest]),
                           clause='the live state lists exactly the circuits Tor still has')
    return run


def unit_dispatch(kind, known):
    """_circuit_update / _stream_update: the event reaches the object registered under its id (created on first sight), once"""
    def run(ctx):
        _fns(ctx)
        import txtorcon.torstate as ts
        ex = ctx.ex
        path = ctx.new_path()
        st = ex.new_inst(path, ts.TorState)
        H = path.heap
        line = z3.String('line')
        ctx.input('line', VStr(line))
        oid = z3.StrToInt(F_tok(line, 0))
        path.assume(F_ntok(line) >= 3)
        path.assume(z3.InRe(F_tok(line, 0), z3.Plus(z3.Range('0', '9'))))
        path.assume(z3.Not(z3.Contains(line, mk_str('stream-status='))))
        field = 'circuits' if kind == 'circuit' else 'streams'
        okind = 'circ' if kind == 'circuit' else 'streamobj'
        tm = TMap(TInt(), TOpaque(okind))
        table = tm.fresh(field + '0')
        opt = TOpt(table.vt)
        H[('f', st.oid, field)] = table
        was = z3.Not(opt.is_none(z3.Select(table.t, oid)))
        path.assume(was if known else z3.Not(was))
        ls = [VOpaque('listener', 40), VOpaque('listener', 41)]
        H[('f', st.oid, 'circuit_listeners' if kind == 'circuit' else 'stream_listeners')] = ex.new_list(path, ls)
        H[('f', st.oid, 'circuit_factory' if kind == 'circuit' else 'stream_factory')] = VOpaque('circuit_factory' if kind == 'circuit' else 'stream_factory', 9)
        H[('f', st.oid, 'addrmap')] = VOpaque('addrmap', 6)
        H[('f', st.oid, '_attacher')] = NONE
        ctx.cover('pre_satisfiable', path)
        for p, r in K._call(ctx, path, st, '_circuit_update' if kind == 'circuit' else '_stream_update', [VStr(line)]):
            if isinstance(r, Raise):
                cname = r.exc.cls.__name__ if isinstance(r.exc, VInst) else '?'
                ctx.oblige('no_exception[%s]' % cname, p, B(False))
                continue
            ups = ctx.models.glog(p, 'updates')
            created = ctx.models.glog(p, 'created')
            listens = ctx.models.glog(p, 'listen')
            ctx.oblige('post.event_applied_exactly_once', p, B(len(ups) == 1), clause='after any history of circuit and stream events')
            if len(ups) != 1:
                continue
            target = ups[0][0]
            if known:
                want = z3.Select(table.t, oid)
                ctx.oblige('post.applied_to_the_object_registered_under_that_id', p,
                           zand(B(isinstance(target, VOpaque) and not created and not listens), opt.unwrap(target) == want if isinstance(target, VOpaque) else B(False)),
                           clause='each circuit / stream with its latest status')
            else:
                same = len(created) == 1 and isinstance(target, VOpaque) and (target is created[0] or z3.eq(z3.simplify(target.t), z3.simplify(created[0].t)))
                ok = same and len(listens) == 3 and all(l[0] is created[0] for l in listens) \
                    and listens[0][1] is st and listens[1][1] is ls[0] and listens[2][1] is ls[1]
                ctx.oblige('post.first_sight_creates_one_object_with_state_and_global_listeners', p, B(ok))
                if kind == 'stream':
                    m = p.heap[('f', st.oid, 'streams')]
                    ctx.oblige('post.new_stream_registered_under_its_id', p,
                               m.t == z3.Store(table.t, oid, opt.unwrap(target)) if isinstance(target, VOpaque) else B(False),
                               clause='the live state lists exactly the streams Tor still has')
    return run


def unit_snapshot(kind, nlines):
    def run(ctx):
        _fns(ctx)
        import txtorcon.torstate as ts
        ex = ctx.ex
        path = ctx.new_path()
        st = ex.new_inst(path, ts.TorState)
        data = z3.String('data')
        first = z3.String('first_piece')
        rest = [z3.String('line%d' % i) for i in range(nlines)]
        ctx.models.summarise = True
        if kind == 'circuit':
            # 'circuit-status=' + first piece, then one piece per line
            ctx.models.lines = [first] + rest
            empty_first = z3.Bool('first_piece_blank')
            # A9: pieces of a reply are printable ASCII, tab or CR (str.strip() would also strip \x0b \x0c \x1c-\x1f)
            path.assume(z3.InRe(first, z3.Star(z3.Union(z3.Range(' ', '~'), z3.Re('\t'), z3.Re('\r')))))
            path.assume(empty_first == z3.InRe(first, z3.Star(z3.Union(z3.Re(' '), z3.Re('\t'), z3.Re('\r')))))
            ctx.input('first_piece', VStr(first))
        else:
            ctx.models.lines = [z3.Concat(mk_str('stream-status='), first)] + rest
            ctx.input('first_piece', VStr(first))
        ctx.cover('pre_satisfiable', path)
        for p, r in K._call(ctx, path, st, '_circuit_status' if kind == 'circuit' else '_stream_status', [VStr(data)]):
            if isinstance(r, Raise):
                cname = r.exc.cls.__name__ if isinstance(r.exc, VInst) else '?'
                ctx.oblige('no_exception[%s]' % cname, p, B(False))
                continue
            got = [d[1][0] for d in ctx.models.glog(p, 'dispatched')]
            if kind == 'circuit':
                with_first = B(len(got) == nlines + 1 and all(isinstance(x, VStr) for x in got) and z3.eq(got[0].t, first)
                               and all(z3.eq(got[i + 1].t, rest[i]) for i in range(nlines))) if len(got) == nlines + 1 else B(False)
                without = B(len(got) == nlines and all(z3.eq(got[i].t, rest[i]) for i in range(nlines))) if len(got) == nlines else B(False)
                ctx.oblige('post.every_snapshot_line_applied_once_in_order', p, z3.If(z3.Bool('first_piece_blank'), without, with_first),
                           clause='after the initial status snapshot')
            else:
                if nlines == 0:
                    want1 = B(len(got) == 1 and isinstance(got[0], VStr)) if len(got) == 1 else B(False)
                    ctx.oblige('post.single_line_snapshot_applied_once_unless_empty', p,
                               z3.If(z3.Length(first) > 0, zand(want1, got[0].t == first) if len(got) == 1 else B(False), B(len(got) == 0)),
                               clause='after the initial status snapshot')
                else:
                    ok = len(got) == nlines and all(isinstance(x, VStr) and z3.eq(x.t, rest[i]) for i, x in enumerate(got))
                    ctx.oblige('post.every_snapshot_line_applied_once_in_order', p, B(ok), clause='after the initial status snapshot')
    return run


def unit_router_from_id(known):
    """TorState.router_from_id for a $fingerprint~nickname hop: the consensus relay with that fingerprint, or - for a relay
    outside the consensus - a fresh Router carrying exactly that fingerprint (never some other relay that shares the nickname)"""
    def run(ctx):
        ctx.fn(K.TST, 'TorState.router_from_id')
        import txtorcon.torstate as ts
        import txtorcon.router as rt
        ex = ctx.ex
        path = ctx.new_path()
        st = ex.new_inst(path, ts.TorState)
        H = path.heap
        fp, nick, sep = z3.String('fingerprint'), z3.String('nickname'), z3.String('separator')
        for nm, t in (('fingerprint', fp), ('nickname', nick), ('separator', sep)):
            ctx.input(nm, VStr(t))
        path.assume(z3.Length(fp) == 40)
        path.assume(z3.Not(z3.PrefixOf(mk_str('$'), fp)))          # hex digits
        path.assume(z3.Or(sep == mk_str('~'), sep == mk_str('=')))
        path.assume(z3.Length(nick) > 0)
        path.assume(z3.Not(z3.PrefixOf(mk_str('$'), nick)))
        # A7 codec laws at the terms that occur (the round trip itself is C16/codec's obligation); Tor reports upper-case hex
        from props.C16 import F_unhex, F_b64e, F_b64d, F_hex, F_upper
        raw = F_unhex(fp)
        enc = F_b64e(raw)
        path.assume(F_upper(F_hex(raw)) == fp)
        path.assume(F_b64d(enc) == raw)
        path.assume(z3.SuffixOf(mk_str('='), enc))
        rid = z3.Concat(mk_str('$'), fp, sep, nick)
        key41 = z3.Concat(mk_str('$'), fp)
        by_fp = ex.new_inst(path, rt.Router)
        namesake = ex.new_inst(path, rt.Router)
        other_fp = z3.String('other_fingerprint_key')
        path.assume(z3.Length(other_fp) == 41)
        path.assume(z3.PrefixOf(mk_str('$'), other_fp))
        path.assume(other_fp != key41)
        entries = [(VStr(other_fp), namesake), (VStr(nick), namesake)]     # a consensus relay that happens to use the same nickname
        if known:
            entries = [(VStr(key41), by_fp)] + entries
        routers = ex.new_dict(path, entries)
        H[('f', st.oid, 'routers')] = routers
        H[('f', st.oid, 'protocol')] = VOpaque('proto', 1)
        ctx.cover('pre_satisfiable', path)
        n_ok = 0
        for p, r in K._call(ctx, path, st, 'router_from_id', [VStr(rid)]):
            if isinstance(r, Raise):
                cname = r.exc.cls.__name__ if isinstance(r.exc, VInst) else '?'
                ctx.oblige('no_exception[%s]' % cname, p, B(False))
                continue
            n_ok += 1
            pairs = p.heap[('dict', routers.did)]
            if known:
                ctx.oblige('post.consensus_relay_found_by_fingerprint', p, B(r is by_fp and len(pairs) == 3),
                           clause='each circuit with its latest hop path')
            else:
                fresh = isinstance(r, VInst) and r.cls is rt.Router and r is not namesake and r is not by_fp
                ctx.oblige('post.relay_outside_the_consensus_gets_its_own_router', p, B(fresh),
                           clause='hop path (relays not in the consensus included): never another relay that shares the nickname')
                if fresh:
                    nm = p.heap.get(('f', r.oid, 'name'))
                    ctx.oblige('post.new_router_carries_the_reported_nickname', p, nm.t == nick if isinstance(nm, VStr) else B(False))
                    ih = p.heap.get(('f', r.oid, 'id_hex'))
                    ctx.oblige('post.new_router_carries_the_reported_fingerprint', p, ih.t == key41 if isinstance(ih, VStr) else B(False))
                    mine = [k for k, v in pairs if v is r]
                    ctx.oblige('post.new_router_registered_once_existing_entries_untouched', p,
                               B(len(mine) == 1 and len(pairs) == 3 and pairs[0][1] is namesake and pairs[1][1] is namesake))
        if not n_ok:
            ctx.oblige('some_normal_exit', path, B(False))
    return run


ATTACH_STATES = ('NEW', 'SUCCEEDED', 'REMAP', 'SENTCONNECT', 'DETACHED', 'CLOSED', 'FAILED')


def units():
    us = []
    for status in ATTACH_STATES:
        for attached in (False, True):
            if status in ('CLOSED', 'FAILED', 'DETACHED'):
                wheres = ('same',) if attached else ('N',)
            else:
                wheres = ('zero', 'same') if attached else ('zero', 'N')
            for w in wheres:
                us.append(('C07/Stream.update@%s/%s/%s' % (status, 'attached' if attached else 'unattached', w), unit_stream_attach(status, attached, w)))
    for status in ('NEW', 'SENTCONNECT', 'SUCCEEDED', 'REMAP', 'DETACHED'):
        us.append(('C07/Stream.update@first_sight/%s' % status, unit_stream_first_sight(status)))
    for status in K.CIRC_STATES:
        nh = 0 if status in ('LAUNCHED', 'CLOSED', 'FAILED') else 2
        us.append(('C07/Circuit.update@%s' % status, unit_circuit_fields(status, nh)))
    us.append(('C07/TorState.stream_closed', unit_stream_gone('stream_closed')))
    us.append(('C07/TorState.stream_failed', unit_stream_gone('stream_failed')))
    for w in ('circuit_new', 'circuit_launched', 'circuit_destroy'):
        us.append(('C07/TorState.%s' % w, unit_circuit_table(w)))
    # closed or failed circuits are gone from the table whichever reason keywords the event carries (units shared with C08)
    for wh in ('circuit_closed', 'circuit_failed'):
        for nm, shp in (('reason', ('REASON',)), ('no_reason', ()), ('both_reasons', ('REASON', 'REMOTE_REASON')), ('remote_reason_only', ('REMOTE_REASON',))):
            us.append(('C07/TorState.%s@%s' % (wh, nm), K.unit_destroy(wh, shp)))
    us.append(('C07/TorState.router_from_id@in_consensus', unit_router_from_id(True)))
    us.append(('C07/TorState.router_from_id@not_in_consensus', unit_router_from_id(False)))
    for kind in ('circuit', 'stream'):
        for known in (True, False):
            us.append(('C07/TorState._%s_update@%s' % (kind, 'known' if known else 'first_sight'), unit_dispatch(kind, known)))
        for n in (0, 1, 2):
            us.append(('C07/TorState._%s_status@%d' % (kind, n), unit_snapshot(kind, n)))
    return us


# ==========================================================================================
# bounded twin (B): stand-alone module twin/tC07.py (real classes, oracle from the statement)
from pyvc.report import adopt_twin
FINDING_PATTERNS = []
twin, _replay_twin = adopt_twin('twin.tC07', FINDING_PATTERNS)


def replay(unit, name, model):
    """native replay of a solver model on the real classes (props/replay_state.py)"""
    from props import replay_state
    return replay_state.replay(unit, name, model)


def replay_file(doc):
    if doc.get('kind') == 'twin':
        return _replay_twin(doc)
    unit, name = doc['obligation'].split('::')
    return replay(unit, name, doc['model'])
