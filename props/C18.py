"""C18 -- choosing a SOCKS port never alters Tor's existing SOCKS listeners.

Proof units: _endpoint_from_socksport_line (first word decides; option words ignored),
TorConfig.socks_endpoint (first-word matching over the configured entries; port 0 = no listener),
TorClientEndpoint.connect (fallback ports in order, move on only after ConnectError, last error
reported; every await may fail).  The SETCONF re-listing of _create_socks_endpoint is checked by
the bounded twin."""
import z3

from pyvc.exec import Raise, Unsupported
from pyvc.sym import (VInt, VBool, VStr, VBytes, VNone, NONE, VTuple, VInst, VOpaque, VUnion, VConc, VFunc, VSeq, VList,
                      concrete_of, mk_str, zand, zor)
from pyvc import extract
from contracts.common import CommonModels, F_tok, F_ntok, split_axioms

PROP = 'C18'
F_AUTO = 'auto-socksport-not-relisted'
TRUSTED = [
    'A3 inlineCallbacks / Deferred semantics; TorSocksEndpoint.connect is used through its contract (returns a protocol or fails)',
    'A7 str.split() tokens uninterpreted (first token characterised exactly; a string without whitespace is its own single token); int() model',
    'twisted TCP4ClientEndpoint / UNIXClientEndpoint are plain records of their constructor arguments',
    '_create_socks_endpoint (GETCONF answer -> single SETCONF re-listing every entry verbatim) is NOT under contract: bounded twin only',
    'pyvc semantics; z3/cvc5',
]
LEVEL = 'proof'
MANIFEST = {
    'category': 'proof',
    'technique': 'contract-based deductive verification of the SOCKSPort line interpreter, of first-word matching in TorConfig.socks_endpoint and of the fallback loop of TorClientEndpoint.connect with every await allowed to fail (pyvc VCs, z3/cvc5); bounded CPython twin for the SETCONF re-listing',
    'text': 'Proved for every line text: _endpoint_from_socksport_line builds a unix endpoint for the first word minus "unix:" or a TCP endpoint for the first '
            'word (host:port or bare port on 127.0.0.1), ignoring option words; TorConfig.socks_endpoint returns the entry whose first word equals the request '
            '(or the first usable entry), never one with port 0, else raises, and leaves unsaved untouched; TorClientEndpoint.connect without a SOCKS endpoint '
            'tries 9050 then 9150, moves on only after a ConnectError, re-raises the last one, lets any other error through at once, returns the first success.',
    'level_note': 'Bounded (B, never counted as proved): the clause about the single SETCONF re-listing every existing SOCKSPort entry verbatim '
                  '(_create_socks_endpoint / TorConfig.create_socks_endpoint) - twin over SOCKSPort configurations x requests x entry points. '
                  'Known finding: an existing "auto" SOCKSPort is not re-listed by TorConfig.create_socks_endpoint.',
}


def B(x):
    return z3.BoolVal(bool(x))


class Models18(CommonModels):
    def callable_(self, ex, path, obj, args, kw):
        from twisted.internet.endpoints import TCP4ClientEndpoint, UNIXClientEndpoint
        if obj is TCP4ClientEndpoint or obj is UNIXClientEndpoint:
            inst = ex.new_inst(path, obj)
            names = ['reactor', 'host', 'port'] if obj is TCP4ClientEndpoint else ['reactor', 'path']
            for n, v in zip(names, args):
                path.heap[('f', inst.oid, n)] = v
            self.glog_add(path, 'endpoints', inst)
            return [(path, inst)]
        return CommonModels.callable_(self, ex, path, obj, args, kw)

    def contract_for(self, ex, path, f, args, kw):
        if f.qualname == '_endpoint_from_socksport_line' and path.heap.get(('g', 'line_contract')):
            # contract proved by the unit C18/_endpoint_from_socksport_line: the endpoint of that line
            self.glog_add(path, 'lines_used', args[1])
            return [(path, VOpaque('endpoint', ex.fresh_int(path, 'ep')))]
        if f.qualname == 'TorSocksEndpoint.connect':
            ep = path.heap.get(('f', f.bound.oid, '_proxy_ep'))
            port = path.heap.get(('f', ep.oid, 'port')) if isinstance(ep, VInst) else None
            self.glog_add(path, 'tried', port)
            return [(path, VOpaque('Deferred', ex.fresh_int(path, 'connd')))]
        if f.qualname == 'TorSocksEndpoint._get_address':
            return [(path, VOpaque('Deferred', ex.fresh_int(path, 'addrd')))]
        return CommonModels.contract_for(self, ex, path, f, args, kw)

    def opaque_attr(self, ex, path, obj, name):
        from pyvc.sym import VBoundExt
        return [(path, VBoundExt(obj, name))]

    def method(self, ex, path, recv, name, args, kw):
        if isinstance(recv, VOpaque) and recv.kind == 'Deferred' and name in ('addCallback', 'addErrback', 'addBoth'):
            return [(path, recv)]
        return CommonModels.method(self, ex, path, recv, name, args, kw)

    def attr_hook(self, ex, path, obj, name):
        if isinstance(obj, VInst) and obj.cls.__name__ == 'TorConfig' and name in ('SocksPort', 'unsaved'):
            return [(path, path.heap[('f', obj.oid, '__' + name)])]
        return CommonModels.attr_hook(self, ex, path, obj, name)

    def await_(self, ex, path, fr, v, node):
        """three outcomes per await: a result, a ConnectError, some other error"""
        from twisted.internet import error
        self.assumptions.add('A3 inlineCallbacks: a yield resumes with the Deferred result or throws its failure into the generator')
        n = len(self.glog(path, 'awaited'))
        p1, p2 = path.fork(), path.fork()
        tag = z3.Int('await_outcome_%d' % n)
        path.assume(tag == 0)
        p1.assume(tag == 1)
        p2.assume(tag == 2)
        for p, o in ((path, 'ok'), (p1, 'connect_error'), (p2, 'other_error')):
            self.glog_add(p, 'awaited', o)
        e1 = ex.new_inst(p1, error.ConnectionRefusedError, args=VTuple([VStr('refused')]))
        p1.heap[('g', 'last_connect_error')] = e1
        e2 = ex.new_inst(p2, RuntimeError, args=VTuple([VStr('socks failure')]))
        proto = VOpaque('proto', ex.fresh_int(path, 'proto'))
        path.heap[('g', 'proto')] = proto
        return [(path, proto), (p1, Raise(e1)), (p2, Raise(e2))]


def make_models():
    return Models18()


def unit_line(kind):
    def run(ctx):
        ctx.fn('txtorcon.torconfig', '_endpoint_from_socksport_line')
        from twisted.internet.endpoints import TCP4ClientEndpoint, UNIXClientEndpoint
        ex = ctx.ex
        path = ctx.new_path()
        s = z3.String('line')
        ctx.input('line', VStr(s))
        path.assume(F_ntok(s) >= 1)
        for c in split_axioms(s):
            path.assume(c)
        tok = F_tok(s, 0)
        # A9: a SOCKSPort line starts with its first word, words are separated by single spaces
        path.assume(z3.PrefixOf(tok, s))
        for c in '\t\n\r\x0b\x0c\x1c\x1d\x1e\x1f':
            path.assume(z3.Not(z3.Contains(s, mk_str(c))))
        if kind == 'one_word':
            path.assume(z3.Not(z3.Contains(s, mk_str(' '))))
            # A7 instance: a line without whitespace is its own (only) word
            path.assume(tok == s)
        else:
            rest = z3.String('options')
            path.assume(s == z3.Concat(tok, mk_str(' '), rest))
        ctx.cover('pre_satisfiable', path)
        mi, node = extract.find('txtorcon.torconfig', '_endpoint_from_socksport_line')
        f = VFunc(node, 'txtorcon.torconfig', '_endpoint_from_socksport_line')
        is_unix = z3.PrefixOf(mk_str('unix:'), tok)
        for p, r in ex.call(path, f, [VOpaque('reactor', 1), VStr(s)], {}):
            if isinstance(r, Raise):
                # only malformed port numbers may raise
                ctx.oblige('post.raises_only_for_non_numeric_tcp_port', p, z3.Not(is_unix), clause='option words are ignored')
                continue
            H = p.heap
            if isinstance(r, VInst) and r.cls is UNIXClientEndpoint:
                pth = H[('f', r.oid, 'path')]
                ctx.oblige('post.unix_endpoint_path_is_first_word_without_prefix', p,
                           zand(is_unix, pth.t == z3.SubString(tok, 5, z3.Length(tok)) if isinstance(pth, VStr) else B(False)),
                           clause='an existing unix: entry is used as Tor reported it; option words are not part of the path')
            elif isinstance(r, VInst) and r.cls is TCP4ClientEndpoint:
                host, port = H[('f', r.oid, 'host')], H[('f', r.oid, 'port')]
                colon = z3.IndexOf(tok, mk_str(':'), 0)
                want_host = z3.If(colon >= 0, z3.SubString(tok, 0, colon), mk_str('127.0.0.1'))
                ptxt = z3.If(colon >= 0, z3.SubString(tok, colon + 1, z3.Length(tok)), tok)
                plain = z3.InRe(ptxt, z3.Plus(z3.Range('0', '9')))
                ctx.oblige('post.tcp_endpoint_from_first_word', p,
                           zand(z3.Not(is_unix), host.t == want_host if isinstance(host, VStr) else B(False),
                                z3.Implies(plain, port.t == z3.StrToInt(ptxt)) if isinstance(port, VInt) else B(False)),
                           clause='host:port or bare port of the first word; trailing option words ignored')
            else:
                ctx.oblige('post.returns_an_endpoint', p, B(False))
    return run


def unit_connect():
    def run(ctx):
        ctx.fn('txtorcon.endpoints', 'TorClientEndpoint.connect')
        import txtorcon.endpoints as ep
        ex = ctx.ex
        path = ctx.new_path()
        tce = ex.new_inst(path, ep.TorClientEndpoint)
        H = path.heap
        o = tce.oid
        H[('f', o, '_socks_username')] = NONE
        H[('f', o, '_socks_password')] = NONE
        H[('f', o, '_socks_endpoint')] = NONE
        H[('f', o, '_reactor')] = VOpaque('reactor', 1)
        H[('f', o, 'host')] = VStr(z3.String('host'))
        H[('f', o, 'port')] = VInt(z3.Int('port'))
        H[('f', o, '_tls')] = VBool(False)
        import txtorcon.util as util
        H[('f', o, '_when_address')] = ex.new_inst(path, util.SingleObserver)
        ctx.cover('pre_satisfiable', path)
        want_ports = list(ep.TorClientEndpoint.socks_ports_to_try)
        ctx.oblige('post.well_known_ports_are_9050_then_9150', path, B(want_ports == [9050, 9150]),
                   clause='tries the well-known local ports in order')
        outs = ex.getattr_v(path, tce, 'connect')
        outs = ex.call(outs[0][0], outs[0][1], [VOpaque('factory', 2)], {})
        for p, r in outs:
            tried = [concrete_of(t)[1] if t is not None and concrete_of(t)[0] else None for t in ctx.models.glog(p, 'tried')]
            awaited = ctx.models.glog(p, 'awaited')
            ctx.oblige('post.ports_tried_in_order', p, B(tried == want_ports[:len(tried)] and len(tried) == len(awaited)),
                       clause='tries the well-known local ports in order')
            ctx.oblige('post.moves_on_only_after_connect_error', p, B(all(a == 'connect_error' for a in awaited[:-1])),
                       clause='moves on only after a connection error')
            last = awaited[-1] if awaited else None
            if last == 'ok':
                ctx.oblige('post.first_success_is_returned', p, B(not isinstance(r, Raise) and r is p.heap.get(('g', 'proto'))))
            elif last == 'other_error':
                ctx.oblige('post.other_errors_propagate_at_once', p, B(isinstance(r, Raise) and r.exc.cls is RuntimeError))
            else:
                ctx.oblige('post.all_failed_reports_the_last_error', p,
                           B(isinstance(r, Raise) and len(tried) == len(want_ports) and r.exc is p.heap.get(('g', 'last_connect_error'))),
                           clause='reports the last error if all fail')
    return run


def unit_socks_endpoint(req):
    """TorConfig.socks_endpoint over two configured entries; req: None / 'present' / 'absent'"""
    def run(ctx):
        ctx.fn('txtorcon.torconfig', 'TorConfig.socks_endpoint')
        ctx.fn('txtorcon.torconfig', '_endpoint_from_socksport_line')
        import txtorcon.torconfig as tc
        ex = ctx.ex
        path = ctx.new_path()
        cfg = ex.new_inst(path, tc.TorConfig)
        e = [z3.String('entry0'), z3.String('entry1')]
        for i, x in enumerate(e):
            ctx.input('entry%d' % i, VStr(x))
            path.assume(F_ntok(x) >= 1)
            for c in split_axioms(x):
                path.assume(c)
            path.assume(z3.PrefixOf(F_tok(x, 0), x))
            for c in '\t\n\r\x0b\x0c\x1c\x1d\x1e\x1f':
                path.assume(z3.Not(z3.Contains(x, mk_str(c))))
        path.heap[('f', cfg.oid, '__SocksPort')] = ex.new_list(path, [VStr(x) for x in e])
        unsaved0 = ex.new_dict(path, [])
        path.heap[('f', cfg.oid, '__unsaved')] = unsaved0
        path.heap[('g', 'line_contract')] = True
        t0, t1 = F_tok(e[0], 0), F_tok(e[1], 0)
        zero = mk_str('0')
        if req is None:
            arg = NONE
        else:
            r_ = z3.String('request')
            ctx.input('request', VStr(r_))
            path.assume(z3.Not(z3.Contains(r_, mk_str(' '))))
            path.assume(r_ != zero)
            arg = VStr(r_)
            if req == 'present':
                path.assume(z3.Or(t0 == r_, t1 == r_))
            else:
                path.assume(z3.And(t0 != r_, t1 != r_))
        ctx.cover('pre_satisfiable', path)
        outs = ex.getattr_v(path, cfg, 'socks_endpoint')
        outs = ex.call(outs[0][0], outs[0][1], [VOpaque('reactor', 1), arg], {})
        from twisted.internet.endpoints import TCP4ClientEndpoint, UNIXClientEndpoint
        for p, r in outs:
            ctx.oblige('frame.pending_changes_untouched', p, B(len(p.heap[('dict', unsaved0.did)]) == 0),
                       clause='an existing port is used without changing Tor\'s configuration')
            eps = ctx.models.glog(p, 'endpoints')
            if isinstance(r, Raise):
                if req == 'absent':
                    ctx.oblige('post.unconfigured_request_is_refused', p, B(True))
                elif req is None:
                    # only when no entry is usable (both port 0) or the chosen entry has a non-numeric port
                    pass
                continue
            if req == 'absent':
                ctx.oblige('post.unconfigured_request_is_refused', p, B(False), clause='only a port Tor already has configured is used')
                continue
            used = ctx.models.glog(p, 'lines_used')
            if len(used) != 1 or not isinstance(used[0], VStr):
                ctx.oblige('post.exactly_one_entry_is_turned_into_an_endpoint', p, B(False))
                continue
            u = used[0].t
            if req is None:
                ctx.oblige('post.first_usable_entry_is_used', p, z3.If(t0 != zero, u == e[0], z3.And(t1 != zero, u == e[1])),
                           clause='a port the connected Tor already has configured is used; "0" is not a listener')
            else:
                ctx.oblige('post.entry_whose_first_word_equals_the_request_is_used', p,
                           z3.If(z3.And(t0 == r_, t0 != zero), u == e[0], u == e[1]),
                           clause='matched by the first word of the entry')
    return run


def units():
    return [('C18/_endpoint_from_socksport_line/one_word', unit_line('one_word')),
            ('C18/_endpoint_from_socksport_line/with_options', unit_line('with_options')), ('C18/TorClientEndpoint.connect', unit_connect()),
            ('C18/TorConfig.socks_endpoint/any', unit_socks_endpoint(None)),
            ('C18/TorConfig.socks_endpoint/present', unit_socks_endpoint('present')),
            ('C18/TorConfig.socks_endpoint/absent', unit_socks_endpoint('absent'))]


# ==========================================================================================
from pyvc.report import adopt_twin
FINDING_PATTERNS = [(r'setconf_relists_existing_verbatim:TorConfig.create_socks_endpoint:entry_missing', F_AUTO)]
twin, _replay_twin = adopt_twin('twin.tC18', FINDING_PATTERNS)


def replay(unit, name, model):
    return {'reproduced': False, 'what': 'no native replay for proof counterexamples of this unit'}


def replay_file(doc):
    if doc.get('kind') == 'twin':
        return _replay_twin(doc)
    unit, name = doc['obligation'].split('::')
    return replay(unit, name, doc['model'])
