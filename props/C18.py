"""C18 -- choosing a SOCKS port never alters Tor's existing SOCKS listeners.

Proof units: _endpoint_from_socksport_line (first word decides; option words ignored),
TorConfig.socks_endpoint (first-word matching over the configured entries; port 0 = no listener),
TorClientEndpoint.connect (fallback ports in order, move on only after ConnectError, last error
reported; every await may fail), endpoints._create_socks_endpoint over GETCONF answers with 0..2 entries
(an existing usable listener is used without SETCONF; otherwise one SETCONF re-lists every entry verbatim).
TorConfig.create_socks_endpoint and the DEFAULT / __SocksPort branch are checked by the bounded twin."""
import z3

from pyvc.exec import Raise, Unsupported
from pyvc.sym import (VInt, VBool, VStr, VBytes, VNone, NONE, VTuple, VInst, VOpaque, VUnion, VConc, VFunc, VSeq, VList,
                      concrete_of, mk_str, zand, zor)
from pyvc import extract
from contracts.common import CommonModels, F_tok, F_ntok, split_axioms

PROP = 'C18'
F_AUTO = 'auto-socksport-not-relisted'
TRUSTED = [
    'A3 inlineCallbacks / Deferred semantics; TorSocksEndpoint.connect is used through its contract (returns a protocol or fails)',
    'A7 str.split() tokens uninterpreted (first token characterised exactly; a string without whitespace is its own single token); int() model',
    'twisted TCP4ClientEndpoint / UNIXClientEndpoint are plain records of their constructor arguments',
    'endpoints._create_socks_endpoint is under contract for explicit GETCONF answers of 0..2 entries (Python sets of strings modelled with a concrete spine, '
    'iteration order = insertion order; the obligations are order-independent); its DEFAULT / __SocksPort branch and TorConfig.create_socks_endpoint: bounded twin only',
    'pyvc semantics; z3/cvc5',
]
LEVEL = 'proof'
MANIFEST = {
    'category': 'proof',
    'technique': 'contract-based deductive verification of the SOCKSPort line interpreter, of endpoints._create_socks_endpoint (existing listener used / single verbatim re-listing SETCONF), of first-word matching in TorConfig.socks_endpoint and of the fallback loop of TorClientEndpoint.connect with every await allowed to fail (pyvc VCs, z3/cvc5); bounded CPython twin for the SETCONF re-listing',
    'text': 'Proved for every line text: _endpoint_from_socksport_line builds a unix endpoint for the first word minus "unix:" or a TCP endpoint for the first '
            'word (host:port or bare port on 127.0.0.1), ignoring option words; TorConfig.socks_endpoint returns the entry whose first word equals the request '
            '(or the first usable entry), never one with port 0, else raises, and leaves unsaved untouched; TorClientEndpoint.connect without a SOCKS endpoint '
            'tries 9050 then 9150, moves on only after a ConnectError, re-raises the last one, lets any other error through at once, returns the first success. '
            '_create_socks_endpoint (0..2 configured entries, any texts, with or without a requested port): if an entry whose first word is the requested port '
            '(or any entry, when none is requested) is usable, its endpoint is returned and no SETCONF is sent; otherwise exactly one SETCONF is sent and it lists every '
            'existing entry verbatim in order followed by the new one.',
    'level_note': 'Bounded (B, never counted as proved): TorConfig.create_socks_endpoint, the DEFAULT / __SocksPort branch, more than two configured entries '
                  '- twin over SOCKSPort configurations x requests x entry points. '
                  'Known findings: an existing "auto" SOCKSPort is not re-listed by TorConfig.create_socks_endpoint; a *requested* "auto" is added by SETCONF but no endpoint can be built for it (ValueError).',
}


def B(x):
    return z3.BoolVal(bool(x))


class Models18(CommonModels):
    def callable_(self, ex, path, obj, args, kw):
        from twisted.internet.endpoints import TCP4ClientEndpoint, UNIXClientEndpoint
        if obj is TCP4ClientEndpoint or obj is UNIXClientEndpoint:
            inst = ex.new_inst(path, obj)
            names = ['reactor', 'host', 'port'] if obj is TCP4ClientEndpoint else ['reactor', 'path']
            for n, v in zip(names, args):
                path.heap[('f', inst.oid, n)] = v
            self.glog_add(path, 'endpoints', inst)
            return [(path, inst)]
        return CommonModels.callable_(self, ex, path, obj, args, kw)

    def contract_for(self, ex, path, f, args, kw):
        if f.qualname == '_endpoint_from_socksport_line' and path.heap.get(('g', 'line_contract')):
            # contract proved by the unit C18/_endpoint_from_socksport_line: the endpoint of that line
            self.glog_add(path, 'lines_used', args[1])
            return [(path, VOpaque('endpoint', ex.fresh_int(path, 'ep')))]
        if f.qualname == 'TorSocksEndpoint.connect':
            ep = path.heap.get(('f', f.bound.oid, '_proxy_ep'))
            port = path.heap.get(('f', ep.oid, 'port')) if isinstance(ep, VInst) else None
            self.glog_add(path, 'tried', port)
            # what this attempt asks the proxy for, and whether its local address is already being forwarded
            mine = [d for (o_, d) in self.glog(path, 'addr_deferreds') if o_ == f.bound.oid]
            fwd = [a for (d, a) in self.glog(path, 'addr_chained') if any(d is m for m in mine)]
            self.glog_add(path, 'attempts', (path.heap.get(('f', f.bound.oid, '_host')), path.heap.get(('f', f.bound.oid, '_port')), tuple(fwd)))
            return [(path, VOpaque('Deferred', ex.fresh_int(path, 'connd')))]
        if f.qualname == 'TorSocksEndpoint._get_address':
            d = VOpaque('Deferred', ex.fresh_int(path, 'addrd'))
            self.glog_add(path, 'addr_deferreds', (f.bound.oid, d))
            return [(path, d)]
        return CommonModels.contract_for(self, ex, path, f, args, kw)

    def opaque_attr(self, ex, path, obj, name):
        from pyvc.sym import VBoundExt
        return [(path, VBoundExt(obj, name))]

    def method(self, ex, path, recv, name, args, kw):
        if isinstance(recv, VOpaque) and recv.kind == 'Deferred' and name in ('addCallback', 'addErrback', 'addBoth'):
            if name in ('addCallback', 'addBoth') and args:
                self.glog_add(path, 'addr_chained', (recv, args[0]))
            return [(path, recv)]
        return CommonModels.method(self, ex, path, recv, name, args, kw)

    def attr_hook(self, ex, path, obj, name):
        if isinstance(obj, VInst) and obj.cls.__name__ == 'TorConfig' and name in ('SocksPort', 'unsaved'):
            return [(path, path.heap[('f', obj.oid, '__' + name)])]
        return CommonModels.attr_hook(self, ex, path, obj, name)

    def await_(self, ex, path, fr, v, node):
        """three outcomes per await: a result, a ConnectError, some other error"""
        from twisted.internet import error
        self.assumptions.add('A3 inlineCallbacks: a yield resumes with the Deferred result or throws its failure into the generator')
        n = len(self.glog(path, 'awaited'))
        p1, p2 = path.fork(), path.fork()
        tag = z3.Int('await_outcome_%d' % n)
        path.assume(tag == 0)
        p1.assume(tag == 1)
        p2.assume(tag == 2)
        for p, o in ((path, 'ok'), (p1, 'connect_error'), (p2, 'other_error')):
            self.glog_add(p, 'awaited', o)
        e1 = ex.new_inst(p1, error.ConnectionRefusedError, args=VTuple([VStr('refused')]))
        p1.heap[('g', 'last_connect_error')] = e1
        e2 = ex.new_inst(p2, RuntimeError, args=VTuple([VStr('socks failure')]))
        proto = VOpaque('proto', ex.fresh_int(path, 'proto'))
        path.heap[('g', 'proto')] = proto
        return [(path, proto), (p1, Raise(e1)), (p2, Raise(e2))]


def make_models():
    return Models18()


def unit_line(kind):
    def run(ctx):
        ctx.fn('txtorcon.torconfig', '_endpoint_from_socksport_line')
        from twisted.internet.endpoints import TCP4ClientEndpoint, UNIXClientEndpoint
        ex = ctx.ex
        path = ctx.new_path()
        s = z3.String('line')
        ctx.input('line', VStr(s))
        path.assume(F_ntok(s) >= 1)
        for c in split_axioms(s):
            path.assume(c)
        tok = F_tok(s, 0)
        # A9: a SOCKSPort line starts with its first word, words are separated by single spaces
        path.assume(z3.PrefixOf(tok, s))
        for c in '\t\n\r\x0b\x0c\x1c\x1d\x1e\x1f':
            path.assume(z3.Not(z3.Contains(s, mk_str(c))))
        if kind == 'one_word':
            path.assume(z3.Not(z3.Contains(s, mk_str(' '))))
            # A7 instance: a line without whitespace is its own (only) word
            path.assume(tok == s)
        else:
            rest = z3.String('options')
            path.assume(s == z3.Concat(tok, mk_str(' '), rest))
        ctx.cover('pre_satisfiable', path)
        mi, node = extract.find('txtorcon.torconfig', '_endpoint_from_socksport_line')
        f = VFunc(node, 'txtorcon.torconfig', '_endpoint_from_socksport_line')
        is_unix = z3.PrefixOf(mk_str('unix:'), tok)
        for p, r in ex.call(path, f, [VOpaque('reactor', 1), VStr(s)], {}):
            if isinstance(r, Raise):
                # only malformed port numbers may raise
                ctx.oblige('post.raises_only_for_non_numeric_tcp_port', p, z3.Not(is_unix), clause='option words are ignored')
                continue
            H = p.heap
            if isinstance(r, VInst) and r.cls is UNIXClientEndpoint:
                pth = H[('f', r.oid, 'path')]
                ctx.oblige('post.unix_endpoint_path_is_first_word_without_prefix', p,
                           zand(is_unix, pth.t == z3.SubString(tok, 5, z3.Length(tok)) if isinstance(pth, VStr) else B(False)),
                           clause='an existing unix: entry is used as Tor reported it; option words are not part of the path')
            elif isinstance(r, VInst) and r.cls is TCP4ClientEndpoint:
                host, port = H[('f', r.oid, 'host')], H[('f', r.oid, 'port')]
                colon = z3.IndexOf(tok, mk_str(':'), 0)
                want_host = z3.If(colon >= 0, z3.SubString(tok, 0, colon), mk_str('127.0.0.1'))
                ptxt = z3.If(colon >= 0, z3.SubString(tok, colon + 1, z3.Length(tok)), tok)
                plain = z3.InRe(ptxt, z3.Plus(z3.Range('0', '9')))
                ctx.oblige('post.tcp_endpoint_from_first_word', p,
                           zand(z3.Not(is_unix), host.t == want_host if isinstance(host, VStr) else B(False),
                                z3.Implies(plain, port.t == z3.StrToInt(ptxt)) if isinstance(port, VInt) else B(False)),
                           clause='host:port or bare port of the first word; trailing option words ignored')
            else:
                ctx.oblige('post.returns_an_endpoint', p, B(False))
    return run


def unit_connect():
    def run(ctx):
        ctx.fn('txtorcon.endpoints', 'TorClientEndpoint.connect')
        import txtorcon.endpoints as ep
        ex = ctx.ex
        path = ctx.new_path()
        tce = ex.new_inst(path, ep.TorClientEndpoint)
        H = path.heap
        o = tce.oid
        H[('f', o, '_socks_username')] = NONE
        H[('f', o, '_socks_password')] = NONE
        H[('f', o, '_socks_endpoint')] = NONE
        H[('f', o, '_reactor')] = VOpaque('reactor', 1)
        H[('f', o, 'host')] = VStr(z3.String('host'))
        H[('f', o, 'port')] = VInt(z3.Int('port'))
        H[('f', o, '_tls')] = VBool(False)
        import txtorcon.util as util
        H[('f', o, '_when_address')] = ex.new_inst(path, util.SingleObserver)
        ctx.cover('pre_satisfiable', path)
        want_ports = list(ep.TorClientEndpoint.socks_ports_to_try)
        ctx.oblige('post.well_known_ports_are_9050_then_9150', path, B(want_ports == [9050, 9150]),
                   clause='tries the well-known local ports in order')
        outs = ex.getattr_v(path, tce, 'connect')
        outs = ex.call(outs[0][0], outs[0][1], [VOpaque('factory', 2)], {})
        for p, r in outs:
            tried = [concrete_of(t)[1] if t is not None and concrete_of(t)[0] else None for t in ctx.models.glog(p, 'tried')]
            awaited = ctx.models.glog(p, 'awaited')
            ctx.oblige('post.ports_tried_in_order', p, B(tried == want_ports[:len(tried)] and len(tried) == len(awaited)),
                       clause='tries the well-known local ports in order')
            ctx.oblige('post.moves_on_only_after_connect_error', p, B(all(a == 'connect_error' for a in awaited[:-1])),
                       clause='moves on only after a connection error')
            # every attempt asks the proxy for the caller's target (not for the proxy's own port), and the local address of the
            # attempt is forwarded to whoever waits for it *before* the attempt starts (the via-circuit matcher needs it by
            # the time Tor announces the stream)
            att = ctx.models.glog(p, 'attempts')
            wa = p.heap[('f', o, '_when_address')]
            goals = [B(len(att) == len(tried))]
            for (h_, po_, fwd) in att:
                okf = any(isinstance(a_, VFunc) and a_.qualname.endswith('SingleObserver.fire') and a_.bound is wa for a_ in fwd)
                goals.append(B(isinstance(h_, VStr) and isinstance(po_, VInt) and okf))
                if isinstance(h_, VStr) and isinstance(po_, VInt):
                    goals.append(z3.And(h_.t == z3.String('host'), po_.t == z3.Int('port')))
            ctx.oblige('post.every_attempt_targets_the_callers_host_and_port_and_forwards_its_local_address_first', p, zand(*goals),
                       clause='the connection goes to the requested target through the SOCKS port found')
            last = awaited[-1] if awaited else None
            if last == 'ok':
                ctx.oblige('post.first_success_is_returned', p, B(not isinstance(r, Raise) and r is p.heap.get(('g', 'proto'))))
            elif last == 'other_error':
                ctx.oblige('post.other_errors_propagate_at_once', p, B(isinstance(r, Raise) and r.exc.cls is RuntimeError))
            else:
                ctx.oblige('post.all_failed_reports_the_last_error', p,
                           B(isinstance(r, Raise) and len(tried) == len(want_ports) and r.exc is p.heap.get(('g', 'last_connect_error'))),
                           clause='reports the last error if all fail')
    return run


def unit_socks_endpoint(req):
    """TorConfig.socks_endpoint over two configured entries; req: None / 'present' / 'absent'"""
    def run(ctx):
        ctx.fn('txtorcon.torconfig', 'TorConfig.socks_endpoint')
        ctx.fn('txtorcon.torconfig', '_endpoint_from_socksport_line')
        import txtorcon.torconfig as tc
        ex = ctx.ex
        path = ctx.new_path()
        cfg = ex.new_inst(path, tc.TorConfig)
        e = [z3.String('entry0'), z3.String('entry1')]
        for i, x in enumerate(e):
            ctx.input('entry%d' % i, VStr(x))
            path.assume(F_ntok(x) >= 1)
            for c in split_axioms(x):
                path.assume(c)
            path.assume(z3.PrefixOf(F_tok(x, 0), x))
            for c in '\t\n\r\x0b\x0c\x1c\x1d\x1e\x1f':
                path.assume(z3.Not(z3.Contains(x, mk_str(c))))
        path.heap[('f', cfg.oid, '__SocksPort')] = ex.new_list(path, [VStr(x) for x in e])
        unsaved0 = ex.new_dict(path, [])
        path.heap[('f', cfg.oid, '__unsaved')] = unsaved0
        path.heap[('g', 'line_contract')] = True
        t0, t1 = F_tok(e[0], 0), F_tok(e[1], 0)
        zero = mk_str('0')
        if req is None:
            arg = NONE
        else:
            r_ = z3.String('request')
            ctx.input('request', VStr(r_))
            path.assume(z3.Not(z3.Contains(r_, mk_str(' '))))
            path.assume(r_ != zero)
            arg = VStr(r_)
            if req == 'present':
                path.assume(z3.Or(t0 == r_, t1 == r_))
            else:
                path.assume(z3.And(t0 != r_, t1 != r_))
        ctx.cover('pre_satisfiable', path)
        outs = ex.getattr_v(path, cfg, 'socks_endpoint')
        outs = ex.call(outs[0][0], outs[0][1], [VOpaque('reactor', 1), arg], {})
        from twisted.internet.endpoints import TCP4ClientEndpoint, UNIXClientEndpoint
        for p, r in outs:
            ctx.oblige('frame.pending_changes_untouched', p, B(len(p.heap[('dict', unsaved0.did)]) == 0),
                       clause='an existing port is used without changing Tor\'s configuration')
            eps = ctx.models.glog(p, 'endpoints')
            if isinstance(r, Raise):
                if req == 'absent':
                    ctx.oblige('post.unconfigured_request_is_refused', p, B(True))
                elif req is None:
                    # only when no entry is usable (both port 0) or the chosen entry has a non-numeric port
                    pass
                continue
            if req == 'absent':
                ctx.oblige('post.unconfigured_request_is_refused', p, B(False), clause='only a port Tor already has configured is used')
                continue
            used = ctx.models.glog(p, 'lines_used')
            if len(used) != 1 or not isinstance(used[0], VStr):
                ctx.oblige('post.exactly_one_entry_is_turned_into_an_endpoint', p, B(False))
                continue
            u = used[0].t
            if req is None:
                ctx.oblige('post.first_usable_entry_is_used', p, z3.If(t0 != zero, u == e[0], z3.And(t1 != zero, u == e[1])),
                           clause='a port the connected Tor already has configured is used; "0" is not a listener')
            else:
                ctx.oblige('post.entry_whose_first_word_equals_the_request_is_used', p,
                           z3.If(z3.And(t0 == r_, t0 != zero), u == e[0], u == e[1]),
                           clause='matched by the first word of the entry')
    return run


class VSetLit(VTuple):
    """a Python set with a concrete spine (elements pairwise different on the path); iteration order = insertion order
    (the obligations below do not depend on the order)"""
    pass


class CreateModels18(CommonModels):
    """externals of endpoints._create_socks_endpoint: the control protocol (GETCONF / SETCONF through their contracts, C13 / C12),
    available_tcp_port, _endpoint_from_socksport_line (contract proved by the units above), Python sets of strings"""
    def callable_(self, ex, path, obj, args, kw):
        import twisted.python.failure as tf
        if obj is set and len(args) == 1:
            items = ex.iter_concrete(path, args[0])
            outs = [(path, [])]
            for x in items:
                nxt = []
                for p, kept in outs:
                    rest = p
                    dup = False
                    for y in kept:
                        pt, rest = ex.branch(rest, ex.eq_term(rest, x, y))
                        if pt is not None:
                            nxt.append((pt, kept))
                        if rest is None:
                            dup = True
                            break
                    if rest is not None and not dup:
                        nxt.append((rest, kept + [x]))
                outs = nxt
            return [(p, VSetLit(kept)) for p, kept in outs]
        if obj is tf.Failure and not args:
            return [(path, VOpaque('failure', ex.fresh_int(path, 'f')))]
        return CommonModels.callable_(self, ex, path, obj, args, kw)

    def binop(self, ex, path, op, a, b):
        import ast
        if isinstance(a, VSetLit) and isinstance(b, VSetLit) and isinstance(op, ast.Sub):
            outs = [(path, [])]
            for x in a.items:
                nxt = []
                for p, kept in outs:
                    rest = p
                    removed = False
                    for y in b.items:
                        pt, rest = ex.branch(rest, ex.eq_term(rest, x, y))
                        if pt is not None:
                            nxt.append((pt, kept))
                        if rest is None:
                            removed = True
                            break
                    if rest is not None and not removed:
                        nxt.append((rest, kept + [x]))
                outs = nxt
            return [(p, VSetLit(kept)) for p, kept in outs]
        return None

    def contract_for(self, ex, path, f, args, kw):
        if f.qualname == '_endpoint_from_socksport_line':
            # contract (units C18/_endpoint_from_socksport_line): the endpoint of that line, or an exception for a malformed one
            line = args[1]
            bad = z3.Function('line_is_malformed', z3.StringSort(), z3.BoolSort())(line.t)
            out = []
            pt, pf = ex.branch(path, bad)
            if pf is not None:
                ep = VOpaque('endpoint', ex.fresh_int(pf, 'ep'))
                self.glog_add(pf, 'endpoints', (line, ep))
                out.append((pf, ep))
            if pt is not None:
                out.extend(ex.raise_(pt, ValueError, 'malformed SOCKSPort line'))
            return out
        if f.qualname == 'available_tcp_port':
            return [(path, VOpaque('d_port', 1))]
        return CommonModels.contract_for(self, ex, path, f, args, kw)

    def opaque_attr(self, ex, path, obj, name):
        from pyvc.sym import VBoundExt
        return [(path, VBoundExt(obj, name))]

    def method(self, ex, path, recv, name, args, kw):
        if isinstance(recv, VOpaque) and recv.kind == 'proto':
            if name == 'get_conf':
                return [(path, VOpaque('d_getconf', 1))]
            if name == 'get_conf_single':
                return [(path, VOpaque('d_single', 1))]
            if name == 'set_conf':
                self.glog_add(path, 'setconf', tuple(args))
                return [(path, VOpaque('d_setconf', 1))]
        return CommonModels.method(self, ex, path, recv, name, args, kw)

    def await_(self, ex, path, fr, v, node):
        self.assumptions.add('A3 inlineCallbacks: a yield resumes with the Deferred result or throws its failure into the generator')
        n = len(self.glog(path, 'awaited'))
        kind = v.kind if isinstance(v, VOpaque) else '?'
        pr = path.fork()
        b = z3.Bool('await%d_fails' % n)
        pr.assume(b)
        path.assume(z3.Not(b))
        self.glog_add(path, 'awaited', (kind, 'ok'))
        self.glog_add(pr, 'awaited', (kind, 'fail'))
        # a failure of some class: a handler narrower than Exception may or may not catch it
        exc = ex.new_inst(pr, Exception, args=VTuple([VStr('failure of ' + kind)]))
        pr.heap[('f', exc.oid, '__unknown_class__')] = VBool(True)
        if kind == 'd_getconf':
            res = path.heap[('g', 'getconf_answer')]
        elif kind == 'd_single':
            res = VStr(z3.String('default_socksport'))
        elif kind == 'd_port':
            res = VInt(z3.Int('free_port'))
        else:
            res = VOpaque('result', ex.fresh_int(path, 'res'))
        return [(path, res), (pr, Raise(exc))]


def unit_create(nlines, requested):
    """endpoints._create_socks_endpoint over a GETCONF answer with nlines SOCKSPort entries"""
    def run(ctx):
        ctx.fn('txtorcon.endpoints', '_create_socks_endpoint')
        ex = ctx.ex
        path = ctx.new_path()
        L = [z3.String('line%d' % i) for i in range(nlines)]
        T = [F_tok(l, 0) for l in L]
        for i, l in enumerate(L):
            ctx.input('line%d' % i, VStr(l))
            path.assume(F_ntok(l) >= 1)
            path.assume(z3.Length(T[i]) > 0)
            # (an explicit list, not the DEFAULT marker: that branch asks __SocksPort and is exercised by the twin)
            path.assume(l != mk_str('DEFAULT'))
        lines = ex.new_list(path, [VStr(l) for l in L])
        path.heap[('g', 'getconf_answer')] = ex.new_dict(path, [(VStr('SOCKSPort'), lines)]) if nlines else ex.new_dict(path, [])
        req = z3.String('requested')
        if requested:
            ctx.input('requested', VStr(req))
            path.assume(z3.Length(req) > 0)
        bad = z3.Function('line_is_malformed', z3.StringSort(), z3.BoolSort())
        usable = [zand(T[i] != mk_str('0'), z3.Not(bad(T[i])), (T[i] == req) if requested else B(True)) for i in range(nlines)]
        any_usable = zor(*usable) if usable else B(False)
        ctx.cover('pre_satisfiable', path)
        if nlines:
            ctx.cover('pre_usable', path, any_usable)
            ctx.cover('pre_none_usable', path, z3.Not(any_usable))
        mi, node = extract.find('txtorcon.endpoints', '_create_socks_endpoint')
        f = VFunc(node, 'txtorcon.endpoints', '_create_socks_endpoint')
        args = [VOpaque('reactor', 1), VOpaque('proto', 2)] + ([VStr(req)] if requested else [])
        n_ok = 0
        for p, r in ex.call(path, f, args, {}):
            sc = ctx.models.glog(p, 'setconf')
            eps = ctx.models.glog(p, 'endpoints')
            aw = ctx.models.glog(p, 'awaited')
            ctx.oblige('post.at_most_one_setconf', p, B(len(sc) <= 1), clause='by a single SETCONF')
            new = req if requested else None
            if sc:
                a = sc[0]
                okshape = len(a) == 2 * (nlines + 1) and all(concrete_of(a[2 * i]) == (True, 'SOCKSPort') for i in range(nlines + 1)) \
                    and all(isinstance(a[2 * i + 1], VStr) for i in range(nlines + 1))
                verbatim = zand(*[a[2 * i + 1].t == L[i] for i in range(nlines)]) if okshape else B(False)
                if okshape and not requested:
                    newt = a[2 * nlines + 1].t
                    fp = z3.Int('free_port')
                    isnew = newt == z3.If(fp >= 0, z3.IntToStr(fp), z3.Concat(mk_str('-'), z3.IntToStr(-fp)))
                elif okshape:
                    isnew = a[2 * nlines + 1].t == req
                else:
                    isnew = B(False)
                ctx.oblige('post.setconf_relists_every_existing_entry_verbatim_in_order_plus_the_new_one', p, zand(B(okshape), verbatim, isnew),
                           clause='otherwise a new listener is added by a single SETCONF that re-lists every existing entry verbatim')
                ctx.oblige('post.configuration_changed_only_when_nothing_usable_is_configured', p, z3.Not(any_usable),
                           clause='one that the connected Tor already has configured is used without changing Tor\'s configuration')
            if isinstance(r, Raise):
                failed = any(x[1] == 'fail' for x in aw)
                ctx.oblige('post.fails_only_when_a_command_failed_or_the_new_line_is_malformed', p,
                           B(failed) if not sc else zor(B(failed), bad(req) if requested else B(True)))
                continue
            n_ok += 1
            used = [e for e in eps if e[1] is r]
            ctx.oblige('post.result_is_an_endpoint_of_a_configured_line', p, B(len(used) == 1))
            if len(used) == 1:
                ut = used[0][0].t
                if sc:
                    pass
                else:
                    ctx.oblige('post.existing_listener_used_is_the_requested_one_and_usable', p,
                               zand(zor(*[zand(ut == T[i], usable[i]) for i in range(nlines)]) if nlines else B(False)),
                               clause='a requested SOCKS port that the connected Tor already has configured is used')
                    ctx.oblige('post.no_setconf_when_usable', p, B(len(sc) == 0))
            if not sc:
                ctx.oblige('post.unchanged_configuration_only_with_a_usable_entry', p, any_usable)
        if not n_ok:
            ctx.oblige('some_normal_exit', path, B(False))
    return run


class ConfigCreateModels(Models18):
    """externals of TorConfig.create_socks_endpoint: post_bootstrap (already fired), TorConfig.save (contract C10: sends every
    pending list option whole, in list order, in one SETCONF - here it records the SocksPort list it is asked to send and
    either succeeds or fails with the TorProtocolError of the refused SETCONF)"""
    def attr_hook(self, ex, path, obj, name):
        if isinstance(obj, VInst) and obj.cls.__name__ == 'TorConfig' and name == 'post_bootstrap':
            return [(path, VOpaque('d_bootstrap', 1))]
        return Models18.attr_hook(self, ex, path, obj, name)

    def contract_for(self, ex, path, f, args, kw):
        if f.qualname == 'TorConfig.save':
            lst = path.heap[('f', f.bound.oid, '__SocksPort')]
            self.glog_add(path, 'saved', tuple(ex.list_items(path, lst)))
            return [(path, VOpaque('d_save', 1))]
        return Models18.contract_for(self, ex, path, f, args, kw)

    def await_(self, ex, path, fr, v, node):
        import txtorcon.torcontrolprotocol as tcp
        self.assumptions.add('A3 inlineCallbacks: a yield resumes with the Deferred result or throws its failure into the generator')
        kind = v.kind if isinstance(v, VOpaque) else '?'
        if kind == 'd_bootstrap':
            return [(path, VOpaque('result', 1))]
        if kind == 'd_save':
            pr = path.fork()
            b = z3.Bool('tor_refuses_the_setconf')
            pr.assume(b)
            path.assume(z3.Not(b))
            self.glog_add(path, 'awaited', 'ok')
            self.glog_add(pr, 'awaited', 'refused')
            exc = ex.new_inst(pr, tcp.TorProtocolError)
            pr.heap[('f', exc.oid, 'code')] = VInt(z3.IntVal(552))
            pr.heap[('f', exc.oid, 'text')] = VStr(z3.String('refusal_text'))
            pr.heap[('f', exc.oid, 'args')] = VTuple([VInt(z3.IntVal(552)), VStr(z3.String('refusal_text'))])
            return [(path, VOpaque('result', 2)), (pr, Raise(exc))]
        raise Unsupported('await of %r' % (v,))


def unit_config_create(req):
    """TorConfig.create_socks_endpoint over two configured entries; req: None / 'present' / 'absent'"""
    def run(ctx):
        ctx.fn('txtorcon.torconfig', 'TorConfig.create_socks_endpoint')
        import txtorcon.torconfig as tc
        ex = ctx.ex
        path = ctx.new_path()
        cfg = ex.new_inst(path, tc.TorConfig)
        e = [z3.String('entry0'), z3.String('entry1')]
        for i, x in enumerate(e):
            ctx.input('entry%d' % i, VStr(x))
            path.assume(F_ntok(x) >= 1)
            for c in split_axioms(x):
                path.assume(c)
            path.assume(z3.PrefixOf(F_tok(x, 0), x))
            for c in '\t\n\r\x0b\x0c\x1c\x1d\x1e\x1f':
                path.assume(z3.Not(z3.Contains(x, mk_str(c))))
        items0 = [VStr(x) for x in e]
        lst = ex.new_list(path, items0)
        path.heap[('f', cfg.oid, '__SocksPort')] = lst
        path.heap[('f', cfg.oid, '__unsaved')] = ex.new_dict(path, [])
        path.heap[('g', 'line_contract')] = True
        t0, t1 = F_tok(e[0], 0), F_tok(e[1], 0)
        zero = mk_str('0')
        if req is None:
            arg = NONE
        else:
            r_ = z3.String('request')
            ctx.input('request', VStr(r_))
            path.assume(F_ntok(r_) >= 1)
            for c in split_axioms(r_):
                path.assume(c)
            path.assume(z3.PrefixOf(F_tok(r_, 0), r_))
            arg = VStr(r_)
            w = F_tok(r_, 0)
            if req == 'present':
                path.assume(z3.Or(t0 == w, t1 == w))
            else:
                path.assume(z3.And(t0 != w, t1 != w))
        ctx.cover('pre_satisfiable', path)
        if req == 'absent':
            ctx.cover('pre_an_existing_entry_is_0', path, e[0] == zero)
        outs = ex.getattr_v(path, cfg, 'create_socks_endpoint')
        outs = ex.call(outs[0][0], outs[0][1], [VOpaque('reactor', 1), arg], {})
        n_ok = 0
        for p, r in outs:
            saved = ctx.models.glog(p, 'saved')
            aw = ctx.models.glog(p, 'awaited')
            now = ex.list_items(p, p.heap[('f', cfg.oid, '__SocksPort')])
            same_list = p.heap[('f', cfg.oid, '__SocksPort')] is lst or getattr(p.heap[('f', cfg.oid, '__SocksPort')], 'lid', None) == lst.lid
            if req == 'absent':
                ok = len(saved) == 1 and len(saved[0]) == 3 and all(isinstance(x, VStr) for x in saved[0])
                ctx.oblige('post.one_save_that_lists_every_existing_entry_verbatim_plus_the_new_one', p,
                           zand(saved[0][0].t == e[0], saved[0][1].t == e[1], saved[0][2].t == r_) if ok else B(False),
                           clause='added in a single SETCONF that re-lists every existing SOCKSPort entry exactly as Tor reported it plus the new one')
                if 'refused' in aw:
                    ctx.oblige('post.refusal_is_reported_to_the_caller', p, B(isinstance(r, Raise) and isinstance(r.exc, VInst) and r.exc.cls is RuntimeError))
                    ctx.oblige('post.refused_port_is_taken_out_of_the_configuration_view_again', p,
                               zand(B(same_list and len(now) == 2), *[now[i].t == e[i] for i in range(2)]) if len(now) == 2 else B(False),
                               clause='when Tor refuses, the port is not configured (and the entries Tor reported stay as they were)')
                    continue
            else:
                ctx.oblige('post.configuration_untouched_when_an_existing_port_serves', p,
                           zand(B(len(saved) == 0 and same_list and len(now) == 2), *[now[i].t == e[i] for i in range(2)]) if len(now) == 2 else B(False),
                           clause='a port the connected Tor already has configured is used without changing Tor\'s configuration')
            if isinstance(r, Raise):
                if req is None:
                    ctx.oblige('post.refused_only_when_no_entry_is_usable', p, z3.And(t0 == zero, t1 == zero))
                else:
                    cname = r.exc.cls.__name__ if isinstance(r.exc, VInst) else '?'
                    ctx.oblige('no_exception[%s]' % cname, p, B(False))
                continue
            n_ok += 1
            used = ctx.models.glog(p, 'lines_used')
            if len(used) != 1 or not isinstance(used[0], VStr):
                ctx.oblige('post.exactly_one_line_is_turned_into_an_endpoint', p, B(False))
                continue
            u = used[0].t
            if req is None:
                ctx.oblige('post.first_usable_entry_is_used', p, z3.If(t0 != zero, u == e[0], z3.And(t1 != zero, u == e[1])),
                           clause='a port the connected Tor already has configured is used; "0" is not a listener')
            else:
                ctx.oblige('post.endpoint_is_for_the_requested_line', p, u == r_)
        if not n_ok:
            ctx.oblige('some_normal_exit', path, B(False))
    return run


def make_models_for(unit_name):
    if 'TorConfig.create_socks_endpoint' in unit_name:
        return ConfigCreateModels()
    return CreateModels18() if '_create_socks_endpoint' in unit_name else Models18()


def units(tier='quick'):
    extra = []
    for n in ((0, 1, 2) if tier == 'quick' else (0, 1, 2, 3)):
        for req in (False, True):
            extra.append(('C18/_create_socks_endpoint@%d/%s' % (n, 'requested' if req else 'any'), unit_create(n, req)))
    return extra + [('C18/_endpoint_from_socksport_line/one_word', unit_line('one_word')),
            ('C18/_endpoint_from_socksport_line/with_options', unit_line('with_options')), ('C18/TorClientEndpoint.connect', unit_connect()),
            ('C18/TorConfig.socks_endpoint/any', unit_socks_endpoint(None)),
            ('C18/TorConfig.socks_endpoint/present', unit_socks_endpoint('present')),
            ('C18/TorConfig.socks_endpoint/absent', unit_socks_endpoint('absent')),
            ('C18/TorConfig.create_socks_endpoint/any', unit_config_create(None)),
            ('C18/TorConfig.create_socks_endpoint/present', unit_config_create('present')),
            ('C18/TorConfig.create_socks_endpoint/absent', unit_config_create('absent'))]


# ==========================================================================================
from pyvc.report import adopt_twin
F_REQ_AUTO = 'requested-auto-socksport-unusable'
# (the listed finding is the 'auto' entry only: any other entry that is not re-listed is a violation)
FINDING_PATTERNS = [(r"setconf_relists_existing_verbatim:TorConfig.create_socks_endpoint:entry_missing \| .*not re-listed verbatim: \['auto[^',]*'(, 'auto[^',]*')*\]$", F_AUTO),
                    (r"failed_after_setconf_ValueError \| .*\(req='auto'\)", F_REQ_AUTO)]
twin, _replay_twin = adopt_twin('twin.tC18', FINDING_PATTERNS)


def replay(unit, name, model):
    """native replay of a solver model on the real classes (props/replay_misc.py)"""
    from props import replay_misc
    return replay_misc.replay(unit, name, model)


def replay_file(doc):
    if doc.get('kind') == 'twin':
        return _replay_twin(doc)
    unit, name = doc['obligation'].split('::')
    return replay(unit, name, doc['model'])
