"""C09 -- each new stream gets exactly one attachment decision, honouring the attacher.

Proof units on the real code:
  _maybe_attach@prologue          who is consulted, once, and how the answer is chained (real TorState._maybe_attach)
  issue_stream_attach@<answer>    the real closure, taken from the Deferred chain built by _maybe_attach, per answer kind
  set_attacher@<slot>/<arg>       single attacher slot, __LeaveStreamsUnattached toggling (real set_attacher / undo_attacher)
  _stream_update@new|known        the attacher is consulted exactly for streams seen for the first time
  PriorityAttacher.attach_stream  most important live sub-attacher with a preference wins
The via-circuit part (source address matching, concurrency) is decided by the bounded twin."""
import z3

from pyvc.exec import Raise, Unsupported
from pyvc.sym import (VInt, VBool, VStr, VBytes, VNone, NONE, VTuple, VInst, VOpaque, VUnion, VConc, VFunc, VSeq, VList, VBoundExt,
                      VMap, TMap, TInt, TOpaque, concrete_of, mk_str, zand, zor)
from pyvc import extract
from contracts.torstate import StateModels, StopUnit

PROP = 'C09'
MODULE = 'txtorcon.torstate'
TRUSTED = [
    'A3 Deferred semantics: callbacks added to a Deferred run once, in order, with the previous result; a raised exception goes to the next errback; '
    'defer.maybeDeferred calls its function exactly once',
    'util.maybe_coroutine passes non-coroutine values through and awaits coroutines (bounded twin exercises coroutine answers)',
    'queue_command / set_conf contracts (C01, C12): the text reaches Tor verbatim as one command',
    'zope.interface adaptation returns the provider itself; reactor system-event triggers only store the callable',
    'Stream.update is summarised for _stream_update (it may drop the stream from TorState.streams on CLOSED/FAILED); its own behaviour is C07/C08',
    'str.format of non-negative ints is their decimal text (z3 int.to.str); stream and circuit ids are non-negative',
    'pyvc semantics; z3/cvc5',
]
LEVEL = 'proof'
MANIFEST = {
    'category': 'proof',
    'technique': 'contract-based deductive verification of the real TorState._maybe_attach (with its issue_stream_attach closure), set_attacher/undo_attacher, '
                 'the new-stream gate of _stream_update and PriorityAttacher.attach_stream (pyvc VCs, z3/cvc5); bounded CPython twin for via-circuit '
                 'connections (source-port matching, concurrent connects, races with circuit events)',
    'text': 'Proved for every stream id, target host and attacher slot: without an attacher or for a target ending in .exit nobody is consulted and nothing is sent; '
            'otherwise the attacher is consulted exactly once with (stream, circuits) and its answer is chained through maybe_coroutine into issue_stream_attach '
            'with _attacher_error as errback. issue_stream_attach sends exactly one command: ATTACHSTREAM <id> 0 for None, ATTACHSTREAM <id> <circuit id> for a '
            'Circuit whose id is known and whose state is BUILT; nothing for DO_NOT_ATTACH; RuntimeError and nothing sent for a non-circuit, an unknown circuit '
            'or a circuit not BUILT. set_attacher: a second different attacher raises RuntimeError and changes nothing; the same one is a no-op; installing sends '
            '__LeaveStreamsUnattached=1 and registers undo_attacher before shutdown; removing sends __LeaveStreamsUnattached=0 and unregisters the trigger. '
            '_stream_update consults the attacher exactly once for a stream id seen for the first time (and still listed after its first update), never for a known one. '
            'PriorityAttacher consults live sub-attachers by (priority, insertion) and returns the first non-None answer.',
    'level_note': 'Bounded (B): _CircuitAttacher / TorCircuitEndpoint.connect (source address matching, several concurrent connects, unrelated streams, circuits '
                  'closing meanwhile, SETCONF acknowledgement timing), Deferred and coroutine answers - twin (3650 histories quick). Assumed (A): Deferred chain semantics, '
                  'maybe_coroutine, Stream.update summary.',
}


def B(x):
    return z3.BoolVal(bool(x))


class Models09(StateModels):
    def __init__(self):
        StateModels.__init__(self)
        self.summarise_maybe_attach = False

    def method(self, ex, path, recv, name, args, kw):
        if isinstance(recv, VOpaque) and recv.kind == 'stream':
            if name == 'listen':
                self.glog_add(path, 'listen', (recv, args[0]))
                return [(path, NONE)]
            if name == 'update':
                # Stream.update may drop the stream from TorState.streams (CLOSED / FAILED): havoc membership of this id
                self.glog_add(path, 'stream_updates', (recv, args[0]))
                st = path.heap[('g', 'state_inst')]
                sid = path.heap[('g', 'sid')]
                cell = ('f', st.oid, 'streams')
                m = path.heap[cell]
                gone = ex.fresh_bool(path, 'dropped_by_update')
                from pyvc.sym import TOpt
                opt = TOpt(m.vt)
                path.heap[cell] = VMap(z3.If(gone, z3.Store(m.t, sid, opt.dt.constructor(0)()), m.t), m.kt, m.vt)
                return [(path, NONE)]
        if isinstance(recv, VOpaque) and recv.kind == 'sub' and name == 'attach_stream':
            self.glog_add(path, 'consulted', recv)
            ans = path.heap[('g', 'answer', str(recv.t))]
            return [(path, ans)]
        return StateModels.method(self, ex, path, recv, name, args, kw)

    def contract_for(self, ex, path, f, args, kw):
        if self.summarise_maybe_attach and f.qualname == 'TorState._maybe_attach':
            self.glog_add(path, 'maybe_attach_calls', tuple(args))
            return [(path, NONE)]
        if f.qualname == 'TorState._attacher_error' and getattr(self, 'summarise_attacher_error', False):
            # the error report (prints the failure and passes it on); logged so that 'reported' can be observed
            self.glog_add(path, 'reported', args[0])
            return [(path, args[0])]
        if f.qualname == 'maybe_coroutine':
            self.assumptions.add('util.maybe_coroutine passes a non-coroutine value through unchanged')
            return [(path, args[0])]
        if f.qualname == 'Circuit.when_built':
            return [(path, VOpaque('Deferred', ex.fresh_int(path, 'builtd')))]
        if f.qualname == 'maybe_ip_addr':
            return [(path, args[0])]
        return StateModels.contract_for(self, ex, path, f, args, kw)

    def await_(self, ex, path, fr, v, node):
        n = len(self.glog(path, 'awaited'))
        self.glog_add(path, 'awaited', v)
        self.assumptions.add('A3 inlineCallbacks: a yield resumes with the Deferred result or throws its failure into the generator')
        pr = path.fork()
        b = z3.Bool('await%d_fails' % n)
        pr.assume(b)
        path.assume(z3.Not(b))
        exc = ex.new_inst(pr, Exception, args=VTuple([VStr('awaited deferred failed')]))
        return [(path, VOpaque('result', ex.fresh_int(path, 'res'))), (pr, Raise(exc))]

    def opaque_attr(self, ex, path, obj, name):
        if obj.kind == 'address' and name in ('host', 'port'):
            return [(path, path.heap[('g', 'addr_' + name)])]
        return StateModels.opaque_attr(self, ex, path, obj, name)

    def opaque_call(self, ex, path, f, args, kw):
        if f.kind == 'stream_factory':
            s = VOpaque('stream', ex.fresh_int(path, 'newstream'))
            self.glog_add(path, 'created', s)
            return [(path, s)]
        return StateModels.opaque_call(self, ex, path, f, args, kw)


def make_models():
    return Models09()


def make_models_for(unit_name):
    if unit_name.endswith('TorClientEndpoint.connect'):
        from props import C18
        return C18.Models18()
    return Models09()


def _state(ctx, path, attacher):
    import txtorcon.torstate as ts
    ex = ctx.ex
    H = path.heap
    st = ex.new_inst(path, ts.TorState)
    o = st.oid
    H[('f', o, '_attacher')] = attacher
    H[('f', o, 'protocol')] = VOpaque('proto', 1)
    H[('f', o, 'circuits')] = TMap(TInt(), TOpaque('Circuit')).fresh('circuits0')
    H[('f', o, '_cleanup')] = NONE
    return st


def _stream(ctx, path, host):
    import txtorcon.stream as sm
    ex = ctx.ex
    s = ex.new_inst(path, sm.Stream)
    sid = z3.Int('stream_id')
    path.assume(sid >= 0)
    path.heap[('f', s.oid, 'id')] = VInt(sid)
    path.heap[('f', s.oid, 'target_host')] = host
    return s, sid


def _fns(ctx):
    for q in ('TorState._maybe_attach', 'TorState._maybe_attach.issue_stream_attach', 'TorState.set_attacher', 'TorState.undo_attacher',
              'TorState._stream_update'):
        ctx.fn(MODULE, q)
    ctx.fn('txtorcon.attacher', 'PriorityAttacher.attach_stream')


def _run_maybe_attach(ctx, path, st, stream):
    ex = ctx.ex
    g = ex.getattr_v(path, st, '_maybe_attach')
    return ex.call(g[0][0], g[0][1], [stream], {})


def unit_prologue():
    def run(ctx):
        _fns(ctx)
        import txtorcon.torstate as ts
        import txtorcon.util as util
        ex = ctx.ex
        path = ctx.new_path()
        has_att = z3.Bool('attacher_installed')
        att = VOpaque('attacher', 7)
        st = _state(ctx, path, VUnion([(has_att, att), (z3.Not(has_att), NONE)]))
        has_host = z3.Bool('has_target_host')
        host = z3.String('target_host')
        ctx.input('target_host', VStr(host))
        ctx.input('attacher_installed', VBool(has_att))
        ctx.input('has_target_host', VBool(has_host))
        stream, sid = _stream(ctx, path, VUnion([(has_host, VStr(host)), (z3.Not(has_host), NONE)]))
        is_exit = z3.And(has_host, z3.SuffixOf(mk_str('.exit'), host))
        ctx.cover('pre_satisfiable', path)
        ctx.cover('pre_exit', path, z3.And(has_att, is_exit))
        ctx.cover('pre_lookalike', path, z3.And(has_att, has_host, z3.Contains(host, mk_str('.exit')), z3.Not(is_exit)))
        for p, r in _run_maybe_attach(ctx, path, st, stream):
            if isinstance(r, Raise):
                ctx.oblige('no_exception', p, B(False))
                continue
            calls = ctx.models.glog(p, 'maybeDeferred')
            chain = ctx.models.glog(p, 'chain')
            sent = ctx.models.glog(p, 'proto_calls')
            consulted = (len(calls) == 1 and isinstance(calls[0][1], VBoundExt) and calls[0][1].recv is att and calls[0][1].name == 'attach_stream'
                         and len(calls[0][2]) == 2 and calls[0][2][0] is stream
                         and isinstance(calls[0][2][1], VMap) and z3.eq(calls[0][2][1].t, p.heap[('f', st.oid, 'circuits')].t))
            ctx.oblige('post.nothing_sent_synchronously', p, B(len(sent) == 0))
            ctx.oblige('post.no_attacher_nobody_consulted', p, z3.Implies(z3.Not(has_att), B(len(calls) == 0 and len(chain) == 0)))
            ctx.oblige('post.exit_target_nobody_consulted', p, z3.Implies(is_exit, B(len(calls) == 0 and len(chain) == 0)),
                       clause='nothing at all when the target is a .exit address')
            ctx.oblige('post.attachable_stream_consults_attacher_exactly_once', p,
                       z3.Implies(z3.And(has_att, z3.Not(is_exit)), B(consulted)),
                       clause='every new attachable stream results in exactly one decision')

            # (what the registered callbacks do with the answer is the subject of the issue_stream_attach@<answer> units,
            # which run them; here only: something is registered to receive the answer)
            ctx.oblige('post.the_answer_is_received_by_registered_callbacks', p,
                       z3.Implies(z3.And(has_att, z3.Not(is_exit)), B(bool(calls) and any(c[0] is calls[0][0] for c in chain))),
                       clause='the attacher answer is translated to one decision; invalid answers are reported')
    return run


ANSWERS = ('none', 'dna', 'circuit', 'int', 'stream_obj')


def unit_issue(answer):
    def run(ctx):
        _fns(ctx)
        import txtorcon.torstate as ts
        import txtorcon.circuit as cm
        import txtorcon.stream as sm
        ex = ctx.ex
        path = ctx.new_path()
        att = VOpaque('attacher', 7)
        st = _state(ctx, path, att)
        host = z3.String('target_host')
        path.assume(z3.Not(z3.SuffixOf(mk_str('.exit'), host)))
        stream, sid = _stream(ctx, path, VStr(host))
        ctx.input('stream_id', VInt(sid))
        outs = _run_maybe_attach(ctx, path, st, stream)
        outs = [(p, r) for p, r in outs if not isinstance(r, Raise)]
        if not outs:
            ctx.oblige('prologue_has_a_normal_exit', path, B(False))
            return
        for p0, _ in outs:
            calls = ctx.models.glog(p0, 'maybeDeferred')
            if len(calls) != 1:
                ctx.oblige('post.attachable_stream_consults_the_attacher_once', p0, B(False),
                           clause='every new attachable stream results in exactly one decision')
                continue
            from pyvc import chain as CH
            entries = CH.entries_of(ctx.models.glog(p0, 'chain'), calls[0][0])
            _issue_on(ctx, p0, entries, answer, st, sid)
    return run


def _issue_on(ctx, p0, entries, answer, st, sid):
    """the attacher's answer travels down the callbacks registered on the maybeDeferred (run, not pattern-matched)"""
    from pyvc import chain as CH
    import txtorcon.torstate as ts
    import txtorcon.circuit as cm
    import txtorcon.stream as sm
    ex = ctx.ex
    if True:
        cid = z3.Int('circuit_id')
        cstate = z3.String('circuit_state')
        circuits = p0.heap[('f', st.oid, 'circuits')]
        from pyvc.sym import TOpt
        known = z3.Not(TOpt(circuits.vt).is_none(z3.Select(circuits.t, cid)))
        if answer == 'none':
            arg = NONE
        elif answer == 'dna':
            arg = VConc(ts.TorState.DO_NOT_ATTACH)
        elif answer == 'circuit':
            arg = ex.new_inst(p0, cm.Circuit)
            p0.assume(cid >= 0)
            p0.heap[('f', arg.oid, 'id')] = VInt(cid)
            p0.heap[('f', arg.oid, 'state')] = VStr(cstate)
            ctx.input('circuit_id', VInt(cid))
            ctx.input('circuit_state', VStr(cstate))
            ctx.input('circuit_known', VBool(known))
        elif answer == 'int':
            arg = VInt(cid)
        else:
            arg = ex.new_inst(p0, sm.Stream)
        ctx.cover('pre_satisfiable', p0)
        if answer == 'circuit':
            ctx.cover('pre_usable', p0, z3.And(known, cstate == mk_str('BUILT')))
            ctx.cover('pre_unknown', p0, z3.Not(known))
            ctx.cover('pre_not_built', p0, z3.And(known, cstate != mk_str('BUILT')))
        n0 = len(ctx.models.glog(p0, 'proto_calls'))
        ctx.models.summarise_attacher_error = True
        for p, r, failed in CH.run(ex, p0, entries, arg, models=ctx.models):
            sent = ctx.models.glog(p, 'proto_calls')[n0:]
            reported = ctx.models.glog(p, 'reported')
            rt_err = len(reported) == 1 and isinstance(reported[0], VInst) and reported[0].cls is RuntimeError
            raised = len(reported) > 0 or failed

            def one_attach(circ_text):
                if len(sent) != 1 or sent[0][0] != 'queue_command' or len(sent[0][1]) != 1 or not isinstance(sent[0][1][0], VBytes):
                    return B(False)
                want = z3.Concat(mk_str('ATTACHSTREAM '), z3.IntToStr(sid), mk_str(' '), circ_text)
                return sent[0][1][0].t == want
            if answer == 'none':
                ctx.oblige('post.no_preference_lets_tor_choose', p, zand(B(not raised), one_attach(mk_str('0'))),
                           clause="'let Tor choose' when it returned no preference")
            elif answer == 'dna':
                ctx.oblige('post.do_not_attach_sends_nothing', p, B(not raised and len(sent) == 0),
                           clause='nothing at all when it returned the do-not-attach marker')
            elif answer == 'circuit':
                usable = z3.And(known, cstate == mk_str('BUILT'))
                if raised:
                    ctx.oblige('post.refusal_only_for_unusable_circuit', p, zand(z3.Not(usable), B(rt_err and len(sent) == 0)),
                               clause='invalid answers are reported and send nothing')
                else:
                    ctx.oblige('post.known_built_circuit_attached_exactly', p, zand(usable, one_attach(z3.IntToStr(cid))),
                               clause='the circuit the attacher returned (which must be a known, BUILT circuit)')
            else:
                ctx.oblige('post.non_circuit_answer_reported_nothing_sent', p, B(rt_err and len(sent) == 0),
                           clause='invalid answers are reported and send nothing')


SLOTS = ('empty', 'same', 'other')
ARGS = ('install', 'remove')


def unit_set_attacher(slot, what):
    def run(ctx):
        _fns(ctx)
        ex = ctx.ex
        path = ctx.new_path()
        a1 = VOpaque('attacher', 7)
        a2 = VOpaque('attacher', 8)
        cur = {'empty': NONE, 'same': a1, 'other': a2}[slot]
        st = _state(ctx, path, cur)
        o = st.oid
        had_trigger = slot != 'empty'
        trig = VOpaque('trigger', 3)
        if had_trigger:
            path.heap[('f', o, '_cleanup')] = trig
        react = VOpaque('reactor', 2)
        arg = a1 if what == 'install' else NONE
        if what == 'install_priority':
            # the library's own PriorityAttacher, installed before any sub-attacher has been added to it
            import txtorcon.attacher as at
            a1 = ex.new_inst(path, at.PriorityAttacher)
            path.heap[('f', a1.oid, '_attacher_to_entry')] = ex.new_dict(path, [])
            path.heap[('f', a1.oid, '_attacher_heap')] = ex.new_list(path, [])
            arg = a1
            what_ = 'install'
        else:
            what_ = what
        ctx.cover('pre_satisfiable', path)
        g = ex.getattr_v(path, st, 'set_attacher')
        for p, r in ex.call(g[0][0], g[0][1], [arg, react], {}):
            sent = ctx.models.glog(p, 'proto_calls')
            rc = ctx.models.glog(p, 'reactor_calls')
            slot_now = p.heap[('f', o, '_attacher')]
            raised = isinstance(r, Raise)

            def setconf(val):
                if len(sent) != 1 or sent[0][0] != 'set_conf' or len(sent[0][1]) != 2:
                    return False
                k, v = sent[0][1]
                return concrete_of(k) == (True, '__LeaveStreamsUnattached') and concrete_of(v) in ((True, val), (True, str(val)))
            if what_ == 'install' and slot == 'other':
                ctx.oblige('post.second_different_attacher_refused', p,
                           B(raised and isinstance(r.exc, VInst) and r.exc.cls is RuntimeError and slot_now is a2 and not sent and not rc),
                           clause='installing a second, different attacher is refused')
            elif what_ == 'install' and slot == 'same':
                ctx.oblige('post.same_attacher_again_is_a_noop', p, B(not raised and slot_now is a1 and not sent and not rc))
            elif what_ == 'install':
                trig_ok = (len(rc) == 1 and rc[0][0] == 'addSystemEventTrigger' and len(rc[0][1]) == 3
                           and concrete_of(rc[0][1][0]) == (True, 'before') and concrete_of(rc[0][1][1]) == (True, 'shutdown')
                           and isinstance(rc[0][1][2], VFunc) and rc[0][1][2].qualname.endswith('undo_attacher'))
                ctx.oblige('post.install_tells_tor_to_leave_streams_unattached', p, B(not raised and slot_now is a1 and setconf(1)),
                           clause='while a stream attacher is installed Tor leaves new streams to it')
                ctx.oblige('post.install_registers_undo_before_shutdown', p, B(not raised and trig_ok and p.heap[('f', o, '_cleanup')] is not NONE))
            else:
                ctx.oblige('post.removal_tells_tor_to_resume_attaching', p,
                           B(not raised and isinstance(slot_now, VNone) and setconf(0)),
                           clause='removing the attacher tells Tor to resume attaching streams itself')
                if had_trigger:
                    ok = (len(rc) == 1 and rc[0][0] == 'removeSystemEventTrigger' and rc[0][1][0] is trig
                          and isinstance(p.heap[('f', o, '_cleanup')], VNone))
                else:
                    ok = len(rc) == 0
                ctx.oblige('post.removal_unregisters_shutdown_trigger', p, B(not raised and ok))
    return run


def unit_stream_update(known_before):
    def run(ctx):
        _fns(ctx)
        from contracts.common import F_tok, F_ntok
        from pyvc.sym import TOpt
        ex = ctx.ex
        path = ctx.new_path()
        st = _state(ctx, path, VOpaque('attacher', 7))
        o = st.oid
        H = path.heap
        line = z3.String('line')
        ctx.input('line', VStr(line))
        sid = z3.StrToInt(F_tok(line, 0))
        path.assume(F_ntok(line) >= 3)
        path.assume(z3.InRe(F_tok(line, 0), z3.Plus(z3.Range('0', '9'))))
        # (the 'stream-status=' header of an empty snapshot is not an event)
        path.assume(z3.Not(z3.Contains(line, mk_str('stream-status='))))
        tm = TMap(TInt(), TOpaque('stream'))
        streams = tm.fresh('streams0')
        H[('f', o, 'streams')] = streams
        was_known = z3.Not(TOpt(streams.vt).is_none(z3.Select(streams.t, sid)))
        path.assume(was_known if known_before else z3.Not(was_known))
        H[('f', o, 'stream_factory')] = VOpaque('stream_factory', 5)
        H[('f', o, 'addrmap')] = VOpaque('addrmap', 6)
        H[('f', o, 'stream_listeners')] = ex.new_list(path, [VOpaque('listener', 11), VOpaque('listener', 12)])
        H[('g', 'state_inst')] = st
        H[('g', 'sid')] = sid
        ctx.models.summarise_maybe_attach = True
        ctx.cover('pre_satisfiable', path)
        g = ex.getattr_v(path, st, '_stream_update')
        for p, r in ex.call(g[0][0], g[0][1], [VStr(line)], {}):
            if isinstance(r, Raise):
                cname = r.exc.cls.__name__ if isinstance(r.exc, VInst) else '?'
                ctx.oblige('no_exception[%s]' % cname, p, B(False))
                continue
            calls = ctx.models.glog(p, 'maybe_attach_calls')
            ups = ctx.models.glog(p, 'stream_updates')
            created = ctx.models.glog(p, 'created')
            m = p.heap[('f', o, 'streams')]
            still = z3.Not(TOpt(m.vt).is_none(z3.Select(m.t, sid)))
            ctx.oblige('post.event_applied_to_the_stream_exactly_once', p, B(len(ups) == 1))
            if known_before:
                ctx.oblige('post.known_stream_never_consults_attacher', p, B(len(calls) == 0 and len(created) == 0),
                           clause='exactly one decision per new stream (none for later events of the same stream)')
            else:
                ctx.oblige('post.new_stream_object_created_once', p, B(len(created) == 1))
                ctx.oblige('post.new_stream_consults_attacher_exactly_once_if_still_listed', p,
                           z3.If(still, B(len(calls) == 1), B(len(calls) == 0)),
                           clause='every new attachable stream results in exactly one decision')
                if len(calls) == 1:
                    ctx.oblige('post.consulted_about_the_new_stream', p, B(len(created) == 1 and isinstance(calls[0][0], VOpaque)
                                                                       and calls[0][0].kind == 'stream'))
    return run


def _holds(v, pred):
    """condition under which the (possibly guarded-union) value satisfies the python predicate"""
    if isinstance(v, VUnion):
        return zor(*[z3.And(g, _holds(a, pred)) for g, a in v.alts])
    return B(pred(v))


def unit_priority(n):
    """PriorityAttacher.attach_stream over a heap list of n entries [priority, counter, attacher-or-None]"""
    def run(ctx):
        _fns(ctx)
        import txtorcon.attacher as at
        ex = ctx.ex
        path = ctx.new_path()
        pa = ex.new_inst(path, at.PriorityAttacher)
        H = path.heap
        items = []
        prios, live, answers, subs = [], [], [], []
        for i in range(n):
            pr = z3.Int('prio%d' % i)
            cnt = z3.Int('count%d' % i)
            alive = z3.Bool('live%d' % i)
            sub = VOpaque('sub', 100 + i)
            has_pref = z3.Bool('has_pref%d' % i)
            ans = VUnion([(has_pref, VOpaque('answer', 200 + i)), (z3.Not(has_pref), NONE)])
            H[('g', 'answer', str(sub.t))] = ans
            items.append(ex.new_list(path, [VInt(pr), VInt(cnt), VUnion([(alive, sub), (z3.Not(alive), NONE)])]))
            prios.append((pr, cnt))
            live.append(alive)
            answers.append(has_pref)
            subs.append(sub)
            ctx.input('prio%d' % i, VInt(pr))
            ctx.input('count%d' % i, VInt(cnt))
            ctx.input('live%d' % i, VBool(alive))
            ctx.input('has_pref%d' % i, VBool(has_pref))
        # insertion counters are unique (itertools.count)
        for i in range(n):
            for j in range(i + 1, n):
                path.assume(prios[i][1] != prios[j][1])
        H[('f', pa.oid, '_attacher_heap')] = ex.new_list(path, items)
        ctx.cover('pre_satisfiable', path)

        def before(i, j):
            return z3.Or(prios[i][0] < prios[j][0], z3.And(prios[i][0] == prios[j][0], prios[i][1] < prios[j][1]))
        g = ex.getattr_v(path, pa, 'attach_stream')
        for p, r in ex.call(g[0][0], g[0][1], [VOpaque('stream', 1), VOpaque('circmap', 2)], {}):
            if isinstance(r, Raise):
                ctx.oblige('no_exception', p, B(False))
                continue
            # spec: winner = the live sub-attacher with a preference that is before all other such
            cands = [z3.And(live[i], answers[i]) for i in range(n)]
            for i in range(n):
                wins = z3.And(cands[i], *[z3.Implies(cands[j], before(i, j)) for j in range(n) if j != i])
                got = _holds(r, lambda v: isinstance(v, VOpaque) and v.kind == 'answer' and str(v.t) == str(200 + i))
                ctx.oblige('post.most_important_preference_wins[%d]' % i, p, z3.Implies(wins, got),
                           clause='honouring the attacher: sub-attachers are consulted most important first')
            ctx.oblige('post.no_preference_anywhere_gives_none', p, z3.Implies(z3.Not(z3.Or(*cands)), _holds(r, lambda v: isinstance(v, VNone))))
            consulted = ctx.models.glog(p, 'consulted')
            ctx.oblige('post.each_sub_attacher_consulted_at_most_once', p, B(len(set(id(c) for c in consulted)) == len(consulted)))
    return run


def _circuit_attacher(ctx, path):
    import txtorcon.circuit as cm
    ex = ctx.ex
    at = ex.new_inst(path, cm._CircuitAttacher)
    host0, port0 = z3.String('registered_host'), z3.Int('registered_port')
    circ = ex.new_inst(path, cm.Circuit)
    cstate = z3.String('circuit_state')
    path.heap[('f', circ.oid, 'state')] = VStr(cstate)
    path.heap[('f', circ.oid, 'id')] = VInt(z3.Int('circuit_id'))
    d = VOpaque('Deferred', 610)
    path.heap[('f', at.oid, '_circuit_targets')] = ex.new_dict(path, [(VTuple([VStr(host0), VInt(port0)]), VTuple([circ, d]))])
    return at, circ, d, host0, port0, cstate


def _src_stream(ctx, path):
    import txtorcon.stream as sm
    s = ctx.ex.new_inst(path, sm.Stream)
    sa, sp = z3.String('source_addr'), z3.Int('source_port')
    path.heap[('f', s.oid, 'source_addr')] = VStr(sa)
    path.heap[('f', s.oid, 'source_port')] = VInt(sp)
    return s, sa, sp


def unit_via_attach():
    """_CircuitAttacher.attach_stream: matching by local source address and port; unrelated streams are left to Tor"""
    def run(ctx):
        import txtorcon.torstate as ts
        ctx.fn('txtorcon.circuit', '_CircuitAttacher.attach_stream')
        ctx.fn('txtorcon.circuit', '_CircuitAttacher._do_not_attach')
        ex = ctx.ex
        path = ctx.new_path()
        at, circ, d, host0, port0, cstate = _circuit_attacher(ctx, path)
        stream, sa, sp = _src_stream(ctx, path)
        for nm, t in (('registered_host', host0), ('source_addr', sa), ('circuit_state', cstate)):
            ctx.input(nm, VStr(t))
        ctx.input('registered_port', VInt(port0))
        ctx.input('source_port', VInt(sp))
        mine = z3.And(sa == host0, sp == port0)
        unusable = z3.Or(*[cstate == mk_str(x) for x in ('FAILED', 'CLOSED', 'DETACHED')])
        ctx.cover('pre_mine', path, mine)
        ctx.cover('pre_unrelated', path, z3.Not(mine))
        g = ex.getattr_v(path, at, 'attach_stream')
        for p, r in ex.call(g[0][0], g[0][1], [stream, VOpaque('circmap', 2)], {}):
            fired = ctx.models.glog(p, 'fired')
            left = p.heap[('dict', p.heap[('f', at.oid, '_circuit_targets')].did)]
            aw = ctx.models.glog(p, 'awaited')
            build_failed = z3.Bool('await0_fails') if aw else B(False)
            if isinstance(r, Raise):
                ctx.oblige('no_exception', p, B(False), clause='invalid answers are reported; the attacher itself does not raise')
                continue
            ctx.oblige('post.unrelated_stream_is_left_to_tor_and_nothing_is_consumed', p,
                       z3.Implies(z3.Not(mine), B(isinstance(r, VNone) and len(left) == 1 and not fired and not aw)),
                       clause='unrelated streams are never captured by it')
            is_dna = isinstance(r, VConc) and r.obj is ts.TorState.DO_NOT_ATTACH
            ok_attach = (r is circ and len(fired) == 1 and fired[0][0] is d and fired[0][1] == 'ok' and len(left) == 0)
            ok_refuse = (is_dna and len(fired) == 1 and fired[0][0] is d and fired[0][1] == 'err' and len(left) == 0)
            ctx.oblige('post.own_stream_goes_to_exactly_its_circuit', p,
                       z3.Implies(z3.And(mine, z3.Not(build_failed), z3.Not(unusable)), B(ok_attach)),
                       clause='a connection made through a specific circuit is attached to exactly that circuit, matched by its local source address and port')
            ctx.oblige('post.unusable_circuit_fails_the_connect_and_is_not_handed_to_tor', p,
                       z3.Implies(z3.And(mine, z3.Or(build_failed, unusable)), B(ok_refuse)),
                       clause='attached to exactly that circuit (or not at all)')
    return run


def unit_via_register(stale=False):
    """stale: an earlier connection from the same local address and port never saw its stream and is still listed"""
    def run(ctx):
        ctx.fn('txtorcon.circuit', '_CircuitAttacher._add_real_target')
        import txtorcon.circuit as cm
        ex = ctx.ex
        path = ctx.new_path()
        at = ex.new_inst(path, cm._CircuitAttacher)
        host, port = z3.String('local_host'), z3.Int('local_port')
        old = [(VTuple([VStr(host), VInt(port)]), VTuple([VOpaque('circuit', 14), VOpaque('Deferred', 611)]))] if stale else []
        path.heap[('f', at.oid, '_circuit_targets')] = ex.new_dict(path, old)
        addr = VOpaque('address', 3)
        path.heap[('g', 'addr_host')] = VStr(host)
        path.heap[('g', 'addr_port')] = VInt(port)
        circ, d = VOpaque('circuit', 4), VOpaque('Deferred', 610)
        g = ex.getattr_v(path, at, '_add_real_target')
        for p, r in ex.call(g[0][0], g[0][1], [addr, circ, d], {}):
            if isinstance(r, Raise):
                ctx.oblige('no_exception', p, B(False))
                continue
            pairs = p.heap[('dict', p.heap[('f', at.oid, '_circuit_targets')].did)]
            ok = len(pairs) == 1 and isinstance(pairs[0][0], VTuple) and len(pairs[0][0].items) == 2 and isinstance(pairs[0][1], VTuple) \
                and pairs[0][1].items[0] is circ and pairs[0][1].items[1] is d
            ctx.oblige('post.registered_under_local_host_and_port', p,
                       zand(B(ok), pairs[0][0].items[0].t == host, pairs[0][0].items[1].t == port) if ok else B(False),
                       clause='matched by its local source address and port')
    return run


def unit_via_failure():
    def run(ctx):
        ctx.fn('txtorcon.circuit', '_CircuitAttacher.attach_stream_failure')
        ex = ctx.ex
        path = ctx.new_path()
        at, circ, d, host0, port0, cstate = _circuit_attacher(ctx, path)
        stream, sa, sp = _src_stream(ctx, path)
        mine = z3.And(sa == host0, sp == port0)
        fail = VOpaque('failure', 9)
        g = ex.getattr_v(path, at, 'attach_stream_failure')
        for p, r in ex.call(g[0][0], g[0][1], [stream, fail], {}):
            if isinstance(r, Raise):
                ctx.oblige('no_exception', p, B(False))
                continue
            fired = ctx.models.glog(p, 'fired')
            left = p.heap[('dict', p.heap[('f', at.oid, '_circuit_targets')].did)]
            ctx.oblige('post.failure_reaches_exactly_the_waiting_connect', p,
                       z3.If(mine, B(len(fired) == 1 and fired[0][0] is d and fired[0][1] == 'err' and fired[0][2] is fail and len(left) == 0),
                             B(len(fired) == 0 and len(left) == 1)),
                       clause='invalid answers are reported; unrelated streams are never captured')
    return run


def units():
    us = [('C09/_maybe_attach@prologue', unit_prologue())]
    us += [('C09/_CircuitAttacher.attach_stream', unit_via_attach()), ('C09/_CircuitAttacher._add_real_target', unit_via_register()), ('C09/_CircuitAttacher._add_real_target@port_reused', unit_via_register(True)),
           ('C09/_CircuitAttacher.attach_stream_failure', unit_via_failure())]
    us += [('C09/issue_stream_attach@%s' % a, unit_issue(a)) for a in ANSWERS]
    us += [('C09/set_attacher@%s/%s' % (s, a), unit_set_attacher(s, a)) for s in SLOTS for a in ARGS]
    us.append(('C09/set_attacher@empty/install_priority', unit_set_attacher('empty', 'install_priority')))
    # the local address of a connection attempt must be on its way to the via-circuit matcher before the attempt starts
    # (TorClientEndpoint.connect; contract shared with C18)
    from props import C18
    us.append(('C09/TorClientEndpoint.connect', C18.unit_connect()))
    us += [('C09/_stream_update@%s' % ('known' if k else 'new'), unit_stream_update(k)) for k in (False, True)]
    us += [('C09/PriorityAttacher.attach_stream@%d' % n, unit_priority(n)) for n in (1, 2, 3)]
    return us


# ==========================================================================================
# bounded twin (B): stand-alone module twin/tC09.py (real classes, oracle from the statement)
from pyvc.report import adopt_twin
FINDING_PATTERNS = []
twin, _replay_twin = adopt_twin('twin.tC09', FINDING_PATTERNS)


class _FakeProto(object):
    def __init__(self):
        self.sent = []

    def queue_command(self, cmd, *a):
        from twisted.internet import defer
        self.sent.append(('queue_command', cmd))
        return defer.Deferred()

    def set_conf(self, *a):
        from twisted.internet import defer
        self.sent.append(('set_conf',) + tuple(a))
        return defer.succeed(None)


def _native_state():
    import txtorcon
    from zope.interface import directlyProvides
    from txtorcon.interface import ITorControlProtocol
    proto = _FakeProto()
    directlyProvides(proto, ITorControlProtocol)
    state = txtorcon.TorState(proto, bootstrap=False)
    errors = []
    state._attacher_error = lambda f: errors.append(f.value) or None
    return state, proto, errors


def replay(unit, name, model):
    """run the real code natively on the verifier's counterexample and compare with the statement"""
    import txtorcon
    from zope.interface import implementer
    from txtorcon.interface import IStreamAttacher
    from txtorcon.stream import Stream
    from txtorcon.circuit import Circuit
    part = unit.split('/', 1)[1]
    if part.startswith('issue_stream_attach@') or part.startswith('_maybe_attach@'):
        answer = part.split('@')[1] if part.startswith('issue') else 'none'
        state, proto, errors = _native_state()
        sid = int(model.get('stream_id', 7) or 0)
        cid = int(model.get('circuit_id', 3) or 0)
        consulted = []
        if answer == 'circuit':
            ans = Circuit(state)
            ans.id = cid
            ans.state = model.get('circuit_state', 'BUILT')
            if model.get('circuit_known', True):
                state.circuits[cid] = ans
        else:
            ans = {'none': None, 'dna': txtorcon.TorState.DO_NOT_ATTACH, 'int': cid, 'stream_obj': Stream(state)}[answer]

        @implementer(IStreamAttacher)
        class A(object):
            def attach_stream(self, stream, circuits):
                consulted.append(stream)
                return ans
        if model.get('attacher_installed', True):
            state._attacher = A()
        st = Stream(state)
        st.id = sid
        st.target_host = model.get('target_host', 'example.com') if model.get('has_target_host', True) else None
        state._maybe_attach(st)
        cmds = [c[1] for c in proto.sent]
        is_exit = st.target_host is not None and st.target_host.endswith('.exit')
        if not model.get('attacher_installed', True) or is_exit:
            want_consult, want = 0, []
        elif answer == 'none':
            want_consult, want = 1, [('ATTACHSTREAM %d 0' % sid).encode()]
        elif answer == 'circuit' and model.get('circuit_known', True) and model.get('circuit_state') == 'BUILT':
            want_consult, want = 1, [('ATTACHSTREAM %d %d' % (sid, cid)).encode()]
        else:
            want_consult, want = 1, []
        bad = cmds != want or len(consulted) != want_consult
        if answer in ('int', 'stream_obj') or (answer == 'circuit' and not want):
            bad = bad or len(errors) != 1
        return {'reproduced': bool(bad), 'observed_commands': [repr(c) for c in cmds], 'expected_commands': [repr(c) for c in want],
                'attacher_consulted': len(consulted), 'errors_reported': [repr(e) for e in errors]}
    if part.startswith('PriorityAttacher'):
        from txtorcon.attacher import PriorityAttacher
        n = int(part.split('@')[1])
        pa = PriorityAttacher()
        order = []

        def mk(i):
            @implementer(IStreamAttacher)
            class S(object):
                def attach_stream(self, stream, circuits):
                    order.append(i)
                    return ('answer', i) if model.get('has_pref%d' % i) else None
            return S()
        rows = []
        for i in range(n):
            rows.append([model.get('prio%d' % i, 0), model.get('count%d' % i, i), mk(i) if model.get('live%d' % i) else None])
        pa._attacher_heap = rows
        got = pa.attach_stream(object(), {})
        cands = sorted((r[0], r[1], i) for i, r in enumerate(rows) if r[2] is not None and model.get('has_pref%d' % i))
        want = ('answer', cands[0][2]) if cands else None
        return {'reproduced': got != want, 'observed': repr(got), 'expected': repr(want), 'consulted_in_order': order}
    if part.startswith('set_attacher@'):
        slot, what = part.split('@')[1].split('/')
        state, proto, errors = _native_state()

        @implementer(IStreamAttacher)
        class A(object):
            def attach_stream(self, stream, circuits):
                return None

        class R(object):
            def __init__(self):
                self.calls = []

            def addSystemEventTrigger(self, *a):
                self.calls.append(('add',) + a)
                return object()

            def removeSystemEventTrigger(self, t):
                self.calls.append(('remove', t))
        from zope.interface import directlyProvides
        from twisted.internet.interfaces import IReactorCore
        r = R()
        directlyProvides(r, IReactorCore)
        a1, a2 = A(), A()
        if slot != 'empty':
            state.set_attacher(a1 if slot == 'same' else a2, r)
        del proto.sent[:]
        raised = None
        try:
            state.set_attacher(a1 if what == 'install' else None, r)
        except Exception as e:
            raised = e
        if what == 'install' and slot == 'other':
            bad = not isinstance(raised, RuntimeError) or state._attacher is not a2 or proto.sent
        elif what == 'install' and slot == 'same':
            bad = raised is not None or proto.sent
        elif what == 'install':
            bad = raised is not None or state._attacher is not a1 or [tuple(map(str, c)) for c in proto.sent] != [('set_conf', '__LeaveStreamsUnattached', '1')]
        else:
            bad = raised is not None or state._attacher is not None or [tuple(map(str, c)) for c in proto.sent] != [('set_conf', '__LeaveStreamsUnattached', '0')]
        return {'reproduced': bool(bad), 'raised': repr(raised), 'sent': repr(proto.sent)}
    return {'reproduced': False, 'what': 'no native replay for proof counterexamples of this unit'}


def replay_file(doc):
    if doc.get('kind') == 'twin':
        return _replay_twin(doc)
    unit, name = doc['obligation'].split('::')
    return replay(unit, name, doc['model'])
