"""Native replay of proof counterexamples for heap-mode units of C14, C16, C17, C18, C19: the unit name fixes the
scenario, the solver model supplies the symbolic inputs; the real function is called with recording fakes and the
outcome is compared with the clause.  'reproduced' is True only when the real code violates the clause on that input."""
import re

from twin import control_session as _CS  # noqa: F401  (silences Twisted's stderr logging)


# --------------------------------------------------------------------------------------------- C18
class _Proto18(object):
    def __init__(self, lines):
        self.lines = list(lines)
        self.setconf = []

    def get_conf(self, name):
        from twisted.internet import defer
        if not self.lines:
            return defer.succeed({})
        return defer.succeed({name: list(self.lines) if len(self.lines) != 1 else self.lines[0]})

    def get_conf_single(self, name):
        from twisted.internet import defer
        return defer.succeed('DEFAULT')

    def set_conf(self, *args):
        from twisted.internet import defer
        self.setconf.append(list(args))
        return defer.succeed('OK')


def replay_create_socks(n, requested, model):
    import txtorcon.endpoints as ep
    from twisted.internet import defer
    lines = [model.get('line%d' % i) or '' for i in range(n)]
    if any((not l.split()) or l == 'DEFAULT' for l in lines):
        return {'reproduced': False, 'what': 'model is outside the precondition (empty / DEFAULT entry)'}
    req = model.get('requested') if requested else None
    if requested and not req:
        return {'reproduced': False, 'what': 'model has no requested port'}
    proto = _Proto18(lines)
    made = []
    real_line = ep._endpoint_from_socksport_line
    real_port = ep.available_tcp_port

    def fake_line(reactor, line):
        real_line(reactor, line)            # raises for a malformed line exactly as the real one
        made.append(line)
        return ('endpoint', line)
    out = []
    try:
        ep._endpoint_from_socksport_line = fake_line
        ep.available_tcp_port = lambda reactor: defer.succeed(int(model.get('free_port', 9999) or 9999))
        from twisted.internet import reactor as _r
        d = ep._create_socks_endpoint(_r, proto, socks_config=req) if requested else ep._create_socks_endpoint(_r, proto)
        d.addBoth(out.append)
    finally:
        ep._endpoint_from_socksport_line = real_line
        ep.available_tcp_port = real_port

    def usable(line):
        w = line.split()[0]
        if w == '0' or (req is not None and w != req):
            return False
        try:
            real_line(None, w)
            return True
        except Exception:
            return False
    any_usable = any(usable(l) for l in lines)
    bad = []
    if any_usable:
        if proto.setconf:
            bad.append('SETCONF %r sent although a usable entry exists' % (proto.setconf,))
        if not out or not (isinstance(out[0], tuple) and any(out[0][1] == l.split()[0] and usable(l) for l in lines)):
            bad.append('result %r is not the endpoint of a usable configured entry' % (out,))
    else:
        new = req if requested else str(int(model.get('free_port', 9999) or 9999))
        want = []
        for l in lines:
            want += ['SOCKSPort', l]
        want += ['SOCKSPort', new]
        if proto.setconf != [want]:
            bad.append('SETCONF calls %r, expected exactly %r' % (proto.setconf, [want]))
    return {'reproduced': bool(bad), 'what': '; '.join(bad) or 'the real _create_socks_endpoint behaves as the clause says on this input',
            'configured': lines, 'requested': req}


# --------------------------------------------------------------------------------------------- C17
def replay_constructor(model):
    import txtorcon.endpoints as ep
    import txtorcon.onion as on
    import tempfile
    eph = None if model.get('ephemeral_is_none') else bool(model.get('ephemeral_value'))
    hsdir = '/tmp/verif_c17_dir' if model.get('has_hidden_service_dir') else None
    key = 'RSA1024:blob' if model.get('has_private_key') else None
    auth = on.AuthStealth(['alice']) if model.get('auth_is_stealth') else (on.AuthBasic(['alice']) if model.get('auth_is_basic') else None)
    legacy = ['alice'] if model.get('has_stealth_auth_kwarg') else None
    single = bool(model.get('single_hop'))
    eff = (hsdir is None) if eph is None else eph
    stealth = legacy is not None or isinstance(auth, on.AuthStealth)
    refuse = (legacy is not None and auth is not None) or (eff and stealth) or (eff and hsdir is not None) or (key is not None and not eff) \
        or (single and not eff)
    started = []

    class R(object):
        def addSystemEventTrigger(self, *a):
            started.append(a)
    real = tempfile.mkdtemp
    raised = None
    try:
        ep.tempfile.mkdtemp = lambda *a, **k: started.append('mkdtemp') or '/tmp/verif_c17_tmp'
        try:
            ep.TCPHiddenServiceEndpoint(R(), object(), 80, hidden_service_dir=hsdir, ephemeral=eph, private_key=key, auth=auth,
                                        stealth_auth=legacy, single_hop=single)
        except Exception as e:
            raised = e
    finally:
        ep.tempfile.mkdtemp = real
    bad = (raised is not None) != bool(refuse) or (raised is not None and (not isinstance(raised, ValueError) or started))
    return {'reproduced': bool(bad), 'what': 'unsupported combination=%r, raised=%r, started before the refusal=%r' % (bool(refuse), raised, started)}


# --------------------------------------------------------------------------------------------- C19
def replay_out_received(model, outcome_known):
    import txtorcon.controller as ctl
    from twisted.internet import defer
    made = []

    def creator():
        d = defer.Deferred()
        made.append(d)
        return d
    tpp = ctl.TorProcessProtocol(creator)
    tpp.attempted_connect = bool(model.get('attempted0'))
    if model.get('control_connection_exists'):
        tpp.tor_protocol = object()
    cancelled = []

    class DC(object):
        def cancel(self):
            cancelled.append(1)

        def active(self):
            return True
    tpp._timeout_delayed_call = DC()
    res = []
    if outcome_known:
        tpp._maybe_notify_connected('earlier outcome')
    else:
        tpp.when_connected().addBoth(res.append)
    data = model.get('process_output', b'')
    if isinstance(data, dict):
        data = bytes.fromhex(data.get('bytes_hex', ''))
    if isinstance(data, str):
        data = data.encode('latin-1', 'replace')
    tpp.outReceived(data)
    want = (not model.get('attempted0')) and b'Opening Control listener' in data
    bad = []
    if len(made) != (1 if want else 0):
        bad.append('connection attempts %d, expected %d' % (len(made), 1 if want else 0))
    if res:
        bad.append('launch outcome %r produced by process output' % (res,))
    if cancelled:
        bad.append('launch timeout cancelled by process output')
    return {'reproduced': bool(bad), 'what': '; '.join(bad) or 'process output neither completes the launch nor disarms its timeout'}


# --------------------------------------------------------------------------------------------- C16
def replay_create_router(name_state, model):
    import txtorcon
    from twin import control_session  # noqa: F401
    import txtorcon.torstate as ts
    import txtorcon.router as rt

    class P(object):
        pass
    from zope.interface import directlyProvides
    from txtorcon.interface import ITorControlProtocol
    proto = P()
    directlyProvides(proto, ITorControlProtocol)
    st = ts.TorState(proto, bootstrap=False)
    nick = model.get('kw_nickname') or 'relay'
    if not re.fullmatch(r'[A-Za-z0-9]{1,19}', nick):
        nick = 'relay'
    idhash = 'AAAAAAAAAAAAAAAAAAAAAAAAAAA'
    other = rt.Router(proto)
    if name_state == 'once':
        st.routers[nick] = other
        st.routers_by_name[nick] = [other]
    elif name_state == 'marked':
        st.routers[nick] = None
        st.routers_by_name[nick] = [other]
    st._create_router(nickname=nick, idhash=idhash, orhash='B' * 27, modified='2020-01-01 00:00:00', ip='1.2.3.4', orport='9001', dirport='0',
                      flags=[], bandwidth='5')
    got = st.routers.get(nick, 'missing')
    mine = [r for r in st.routers_by_name.get(nick, []) if r is not other]
    if name_state is None:
        bad = got is None or got == 'missing' or got.name != nick
    else:
        bad = got is not None
    bad = bad or len(mine) != 1
    shown = 'None' if got is None else ('missing' if got == 'missing' else 'a Router named %s' % getattr(got, 'name', '?'))
    return {'reproduced': bool(bad), 'what': 'routers[%r] = %s with the nickname %s before; listed under the nickname: %d new relay(s)'
            % (nick, shown, {None: 'unused', 'once': 'used once', 'marked': 'already shared'}[name_state], len(mine))}


def replay(unit, name, model):
    model = model or {}
    part = unit.split('/', 1)[1]
    m = re.match(r'_create_socks_endpoint@(\d)/(any|requested)$', part)
    if m:
        n, req = int(m.group(1)), m.group(2) == 'requested'
        r = replay_create_socks(n, req, model)
        if r.get('reproduced'):
            return r
        # the solver model treats str.split() and "malformed line" as uninterpreted: also try canonical configurations
        for cand in ({'line0': '9050', 'line1': '9150', 'requested': '9050'}, {'line0': '9050 IsolateDestAddr', 'line1': 'unix:/tmp/s WorldWritable', 'requested': '9050'},
                     {'line0': '0', 'line1': '9150', 'requested': '9999'}, {'line0': 'unix:/tmp/s', 'line1': '127.0.0.1:9050 NoDNSRequest', 'requested': 'unix:/tmp/s'},
                     {'line0': '9050', 'line1': '9050 IsolateDestAddr', 'requested': '1234'}):
            cand = dict(cand, free_port=12345)
            r2 = replay_create_socks(n, req, cand)
            if r2.get('reproduced'):
                r2['input_source'] = 'canonical configuration tried after the solver model (uninterpreted tokenisation) did not replay'
                return r2
        return r
    if part == 'TCPHiddenServiceEndpoint.__init__':
        return replay_constructor(model)
    m = re.match(r'outReceived@(pending|outcome_known)$', part)
    if m:
        return replay_out_received(model, m.group(1) == 'outcome_known')
    m = re.match(r'_create_router@nickname_(once|marked)$', part)
    if m:
        return replay_create_router(m.group(1), model)
    if re.match(r'_create_router@(new|reused)/', part) and 'first_relay_of_a_nickname' in name:
        return replay_create_router(None, model)
    m = re.match(r'add/v(\d)/(none|discard|supplied)/(\d)ports$', part)
    if m:
        return replay_add_onion(int(m.group(1)), m.group(2), int(m.group(3)), model)
    return {'reproduced': False, 'what': 'no native replay for proof counterexamples of this unit'}


# --------------------------------------------------------------------------------------------- C14
class _Proto14(object):
    def __init__(self):
        self.sent = []
        self.listeners = []

    def queue_command(self, cmd, *a):
        from twisted.internet import defer
        self.sent.append(cmd)
        if cmd.startswith('ADD_ONION'):
            return defer.succeed('ServiceID=abcdefghijklmnop\nPrivateKey=RSA1024:generated')
        return defer.succeed('OK')

    def add_event_listener(self, evt, cb):
        from twisted.internet import defer
        self.listeners.append((evt, cb))
        return defer.succeed(None)

    def remove_event_listener(self, evt, cb):
        from twisted.internet import defer
        return defer.succeed(None)


class _Config14(object):
    def __init__(self):
        self.tor_protocol = _Proto14()
        self.EphemeralOnionServices = []


def replay_add_onion(version, keykind, nports, model):
    """real _add_ephemeral_service up to (and including) the ADD_ONION command; the upload wait is left pending"""
    import txtorcon.onion as on
    key = model.get('key')
    ports = [model.get('port%d' % i) or ('%d 127.0.0.1:80%d' % (80 + i, i)) for i in range(nports)]
    # (port texts the solver picked may be degenerate, e.g. a lone space; the clause under replay does not depend on them)
    ports = [p if re.fullmatch(r'[^ \r\n]+ [^\r\n]+', p) else '%d 127.0.0.1:80%d' % (80 + i, i) for i, p in enumerate(ports)]
    cfg = _Config14()
    svc = on.EphemeralOnionService.__new__(on.EphemeralOnionService)
    svc._config, svc._ports, svc._hostname, svc._version = cfg, ports, None, version
    svc._private_key = None if keykind == 'none' else (on.DISCARD if keykind == 'discard' else (key or ''))
    svc._detach, svc._single_hop = bool(model.get('detach')), bool(model.get('single_hop'))
    raised = None
    try:
        d = on._add_ephemeral_service(cfg, svc, None, version, None, None)
        d.addErrback(lambda f: None)
    except Exception as e:
        raised = e
    sent = [c for c in cfg.tor_protocol.sent if c.startswith('ADD_ONION')]
    # let the descriptor wait finish so that no coroutine is left pending
    for evt, cb in list(cfg.tor_protocol.listeners):
        try:
            cb('UPLOAD abcdefghijklmnop UNKNOWN $dir1')
            cb('UPLOADED abcdefghijklmnop UNKNOWN $dir1')
        except Exception:
            pass
    # specification
    if keykind == 'supplied':
        k = key or ''
        prefix = 'RSA1024:' if version == 2 else 'ED25519-V3:'
        spec_key = k if ':' in k else (k if k.startswith(prefix) else prefix + k)
        refuse = ('\r' in spec_key or '\n' in spec_key) or (version == 3 and 'V3' not in spec_key)
        if not k:
            return {'reproduced': False, 'what': 'empty supplied key is outside the precondition'}
    else:
        spec_key = 'NEW:BEST' if version == 2 else 'NEW:ED25519-V3'
        refuse = False
    flags = [n for c, n in ((svc._detach, 'Detach'), (keykind == 'discard', 'DiscardPK'), (svc._single_hop, 'NonAnonymous')) if c]
    want = 'ADD_ONION ' + spec_key + ''.join(' Port=%s,%s' % tuple(p.split(' ', 1)) for p in ports) + ((' Flags=' + ','.join(flags)) if flags else '')
    if refuse:
        bad = bool(sent)
    else:
        bad = sent != [want]
    return {'reproduced': bool(bad), 'observed_commands': sent, 'expected': [] if refuse else [want], 'raised': repr(raised)}
