"""C08 -- one notification per transition; built/closed waits complete exactly once.

Proof units on the real code (circuit.py, stream.py, torstate.py):
  Circuit.close / Stream.close @gone|pending|fresh    who is told what, which wait is returned, sharing between requests
  maybe_call_closing_deferred (both classes)          the pending close wait fires exactly once, with the object
  Circuit.when_built / when_closed                    immediate for the deciding state, otherwise the shared observer
  TorState.circuit_closed / circuit_failed            a circuit that goes away fails its built-wait (SingleObserver: first fire wins)
  _create_flags (both classes)                        every keyword is passed in its own and in lower case
  Circuit.update @<status>                            each listener gets exactly the notifications of that transition, once, in order
  Stream.update @<status>                             same for streams (through _notify, with failing listeners)
  add_circuit_listener / add_stream_listener / _maybe_create_circuit   listeners reach existing and future objects once
Long mixed histories, removal of listeners and both acknowledgement orders are exercised by the bounded twin."""
import z3

from pyvc.exec import Raise, Unsupported
from pyvc.sym import (VInt, VBool, VStr, VBytes, VNone, NONE, VTuple, VInst, VOpaque, VUnion, VConc, VFunc, VSeq, VList, VBoundExt,
                      VMap, VDictLit, TMap, TInt, TOpaque, TOpt, concrete_of, mk_str, zand, zor)
from pyvc import extract
from contracts.torstate import StateModels, StopUnit

PROP = 'C08'
TRUSTED = [
    'A3 Deferred semantics: callback/errback fire a Deferred once; a callback returning a Deferred makes the outer one wait for it; addBoth/addCallbacks run once in order',
    'SingleObserver contract (txtorcon.util): discharged against the class body by the SingleObserver units of this check; the first fire() wins and is delivered to every when_fired() Deferred exactly once, later fires are no-ops',
    'A9 control-spec: keyword names of CIRC / STREAM events are upper-case and distinct (so a lower-cased keyword never collides with another keyword)',
    'find_keywords(args) yields the KEY=value arguments of the event (C13); hop lists come from str.split(",")',
    'listeners are arbitrary objects: their notification methods may be called with the object and flags; in Stream._notify they may raise (logged)',
    'TorState.close_circuit / close_stream send CLOSECIRCUIT / CLOSESTREAM and return the Deferred of the command (C01)',
    'pyvc semantics; z3/cvc5',
]
LEVEL = 'proof'
MANIFEST = {
    'category': 'proof',
    'technique': 'contract-based deductive verification of the real Circuit.close/update/when_built/when_closed/maybe_call_closing_deferred/_create_flags, '
                 'Stream.close/update/_notify/maybe_call_closing_deferred/_create_flags and TorState.add_*_listener/_maybe_create_circuit/circuit_closed/circuit_failed '
                 '(pyvc VCs, z3/cvc5), per transition from an arbitrary object state; bounded CPython twin over long mixed histories',
    'text': 'Per transition, for two arbitrary registered listeners: every listener receives exactly the notifications of that transition (new, launched, one extend per '
            'added hop, built, closed/failed for circuits; new, succeeded, attach, detach, closed, failed for streams), once, in listener order, and closed/failed/detach '
            'carry every event keyword in its own and in lower case. close() on an object Tor reported gone completes at once without a command; the first close() sends '
            'exactly one close command and completes through the wait that only the CLOSED/FAILED event fires (or, for a circuit, when Tor refuses the command because '
            'the circuit is already gone); later close() calls send nothing and are fired exactly once by that same wait. The event fires the pending wait exactly once with '
            'the object and clears it. when_built() is immediate for a BUILT circuit and otherwise the shared observer, which TorState fails when the circuit is closed '
            'or failed first. Listeners added through TorState are attached once to every existing and every later object.',
    'level_note': 'Bounded (B): histories of many events with listeners added / removed at every position, waits requested at every position, both orders of '
                  'acknowledgement vs event, id reuse - twin. Assumed (A): Deferred and SingleObserver semantics, keyword case, find_keywords.',
}


def B(x):
    return z3.BoolVal(bool(x))


F_lower = z3.Function('str_lower', z3.StringSort(), z3.StringSort())


class Models08(StateModels):
    def __init__(self):
        StateModels.__init__(self)
        self.kw_pairs = None
        self.hops = None

    def str_method(self, ex, path, s, name, args, kw):
        if name == 'lower' and not args and not concrete_of(s)[0]:
            return [(path, VStr(F_lower(s.t)))]
        return StateModels.str_method(self, ex, path, s, name, args, kw)

    def split_hook(self, ex, path, s, args, kw):
        if len(args) == 1 and concrete_of(args[0]) == (True, ',') and self.hops is not None:
            self.assumptions.add('the hop list of a CIRC event is its third field split at commas (Python str.split)')
            return [(path, ex.new_list(path, [VStr(h) for h in self.hops]))]
        return StateModels.split_hook(self, ex, path, s, args, kw)

    def contract_for(self, ex, path, f, args, kw):
        if f.qualname == 'find_keywords' and self.kw_pairs is not None:
            return [(path, ex.new_dict(path, [(VStr(k), VStr(v)) for k, v in self.kw_pairs]))]
        if f.qualname == 'maybe_ip_addr':
            return [(path, args[0])]
        return StateModels.contract_for(self, ex, path, f, args, kw)

    def method(self, ex, path, recv, name, args, kw):
        if isinstance(recv, VOpaque):
            if recv.kind == 'listener':
                self.glog_add(path, 'notified', (recv, name, tuple(args), dict(kw)))
                raising = path.heap.get(('g', 'listeners_may_raise'))
                if raising:
                    pr = path.fork()
                    b = ex.fresh_bool(pr, 'listener_raises')
                    pr.assume(b)
                    path.assume(z3.Not(b))
                    return [(path, NONE)] + ex.raise_(pr, Exception, 'listener failed')
                return [(path, NONE)]
            if recv.kind in ('torstate', 'container') and name in ('close_circuit', 'close_stream'):
                d = VOpaque('Deferred', ex.fresh_int(path, 'cmdd'))
                self.glog_add(path, 'close_commands', (name, tuple(args), dict(kw), d))
                return [(path, d)]
            if recv.kind == 'container' and name == 'router_from_id':
                r = VOpaque('router', ex.fresh_int(path, 'router'))
                self.glog_add(path, 'routers', (args[0], r))
                return [(path, r)]
            if recv.kind == 'container' and name == 'find_circuit':
                self.glog_add(path, 'find_circuit', args[0])
                return [(path, path.heap[('g', 'found_circuit')])]
            if recv.kind in ('circ', 'streamobj') and name == 'listen':
                self.glog_add(path, 'listen', (recv, args[0]))
                return [(path, NONE)]
            if recv.kind in ('circ', 'streamobj') and name == 'update':
                self.glog_add(path, 'updates', (recv, args[0]))
                return [(path, NONE)]
        return StateModels.method(self, ex, path, recv, name, args, kw)

    def opaque_call(self, ex, path, f, args, kw):
        if f.kind == 'circuit_factory':
            c = VOpaque('circ', ex.fresh_int(path, 'newcirc'))
            self.glog_add(path, 'created', c)
            return [(path, c)]
        return StateModels.opaque_call(self, ex, path, f, args, kw)


def make_models():
    return Models08()


def make_models_for(unit_name):
    if '_find_circuit_after_extend' in unit_name:
        return ExtendModels()
    if 'SingleObserver' in unit_name:
        from props import C03
        return C03.make_models_for(unit_name)
    return Models08()


CIRC = 'txtorcon.circuit'
STRM = 'txtorcon.stream'
TST = 'txtorcon.torstate'


def _fns(ctx):
    for q in ('Circuit.close', 'Circuit.update', 'Circuit.update_path', 'Circuit.maybe_call_closing_deferred', 'Circuit.when_built',
              'Circuit.when_closed', 'Circuit._create_flags', 'Circuit.listen'):
        ctx.fn(CIRC, q)
    for q in ('Stream.close', 'Stream.update', 'Stream._notify', 'Stream.maybe_call_closing_deferred', 'Stream._create_flags', 'Stream.listen'):
        ctx.fn(STRM, q)
    for q in ('TorState.add_circuit_listener', 'TorState.add_stream_listener', 'TorState._maybe_create_circuit', 'TorState.circuit_closed',
              'TorState.circuit_failed', 'TorState.circuit_destroy', 'TorState.circuit_new'):
        ctx.fn(TST, q)


def _observer(ctx, path, fired=None):
    import txtorcon.util as util
    so = ctx.ex.new_inst(path, util.SingleObserver)
    if fired is not None:
        path.heap[('f', so.oid, 'g_fired')] = VBool(fired)
    return so


def _circuit(ctx, path, listeners=2, state=None):
    import txtorcon.circuit as cm
    ex = ctx.ex
    c = ex.new_inst(path, cm.Circuit)
    H = path.heap
    o = c.oid
    ls = [VOpaque('listener', 11 + i) for i in range(listeners)]
    H[('f', o, 'listeners')] = ex.new_list(path, ls)
    H[('f', o, '_torstate')] = VOpaque('torstate', 1)
    H[('f', o, 'router_container')] = VOpaque('container', 2)
    H[('f', o, 'id')] = VInt(z3.Int('circ_id'))
    H[('f', o, 'state')] = VStr(state if state is not None else z3.String('state0'))
    H[('f', o, '_closing_deferred')] = NONE
    H[('f', o, 'streams')] = ex.new_list(path, [])
    H[('f', o, 'path')] = ex.new_list(path, [])
    H[('f', o, 'purpose')] = NONE
    H[('f', o, 'build_flags')] = ex.new_list(path, [])
    H[('f', o, 'flags')] = NONE
    H[('f', o, '_when_built')] = _observer(ctx, path, z3.Bool('built_wait_fired'))
    H[('f', o, '_when_closed')] = _observer(ctx, path, z3.Bool('closed_wait_fired'))
    return c, ls


def _stream(ctx, path, listeners=2, state=None):
    import txtorcon.stream as sm
    ex = ctx.ex
    s = ex.new_inst(path, sm.Stream)
    H = path.heap
    o = s.oid
    ls = [VOpaque('listener', 21 + i) for i in range(listeners)]
    H[('f', o, 'listeners')] = ex.new_list(path, ls)
    H[('f', o, 'circuit_container')] = VOpaque('container', 2)
    H[('f', o, '_addrmap')] = NONE
    H[('f', o, 'id')] = VInt(z3.Int('stream_id'))
    H[('f', o, 'state')] = VStr(state if state is not None else z3.String('state0'))
    H[('f', o, '_closing_deferred')] = NONE
    H[('f', o, 'circuit')] = NONE
    H[('f', o, 'target_host')] = NONE
    H[('f', o, 'target_port')] = VInt(0)
    H[('f', o, 'target_addr')] = NONE
    H[('f', o, 'source_addr')] = NONE
    H[('f', o, 'source_port')] = VInt(0)
    H[('f', o, 'flags')] = NONE
    return s, ls


def _call(ctx, path, obj, meth, args=(), kw=None):
    g = ctx.ex.getattr_v(path, obj, meth)
    return ctx.ex.call(g[0][0], g[0][1], list(args), dict(kw or {}))


GONE = zor  # placeholder to keep names short


def unit_close(kind, case):
    """kind: circuit|stream; case: gone|pending|fresh"""
    def run(ctx):
        _fns(ctx)
        ex = ctx.ex
        path = ctx.new_path()
        st0 = z3.String('state0')
        ctx.input('state0', VStr(st0))
        obj, ls = (_circuit if kind == 'circuit' else _stream)(ctx, path)
        o = obj.oid
        H = path.heap
        gone = z3.Or(st0 == mk_str('CLOSED'), st0 == mk_str('FAILED'))
        pending = VOpaque('Deferred', 900)
        if case == 'gone':
            path.assume(gone)
            pend_b = z3.Bool('close_pending')
            H[('f', o, '_closing_deferred')] = VUnion([(pend_b, pending), (z3.Not(pend_b), NONE)])
        else:
            path.assume(z3.Not(gone))
            if case == 'pending':
                H[('f', o, '_closing_deferred')] = pending
        ctx.cover('pre_satisfiable', path)
        for p, r in _call(ctx, path, obj, 'close'):
            if isinstance(r, Raise):
                ctx.oblige('no_exception', p, B(False))
                continue
            cmds = ctx.models.glog(p, 'close_commands')
            chain = ctx.models.glog(p, 'chain')
            succ = ctx.models.glog(p, 'succeeded')
            alloc = ctx.models.glog(p, 'allocated')
            fired = ctx.models.glog(p, 'fired')
            now = p.heap[('f', o, '_closing_deferred')]
            if case == 'gone':
                ctx.oblige('post.gone_object_completes_at_once_without_a_command', p,
                           B(len(cmds) == 0 and len(succ) == 1 and r is succ[0][0] and not chain and not fired),
                           clause='a close request completes only when Tor reports it gone (it already has): completes exactly once')
            elif case == 'pending':
                from pyvc import chain as CH
                ok = len(cmds) == 0 and len(alloc) == 1 and r is alloc[0] and now is pending and not fired
                ctx.oblige('post.repeated_request_sends_nothing_and_joins_the_pending_wait', p, B(ok),
                           clause='repeated requests share the outcome')
                if ok:
                    # when the pending wait fires (with whatever outcome), what is registered on it delivers that outcome
                    res = VOpaque('outcome', 77)
                    for q, rr, bad in CH.run(ex, p, CH.entries_of(chain, pending), res, models=ctx.models):
                        f2 = ctx.models.glog(q, 'fired')
                        ctx.oblige('post.shared_outcome_delivered_exactly_once_and_passed_on', q,
                                   B(not bad and len(f2) == 1 and f2[0][0] is r and f2[0][2] is res and rr is res),
                                   clause='each such wait completes exactly once, and repeated requests share the outcome')
            else:
                from pyvc import chain as CH
                okc = (len(cmds) == 1 and cmds[0][0] == ('close_circuit' if kind == 'circuit' else 'close_stream') and not cmds[0][2])
                if okc and kind == 'circuit':
                    a = cmds[0][1]
                    okc = len(a) == 1 and isinstance(a[0], VInt) and z3.eq(a[0].t, z3.Int('circ_id'))
                elif okc:
                    a = cmds[0][1]
                    okc = len(a) == 1 and a[0] is obj
                ctx.oblige('post.first_request_sends_exactly_one_close_command_for_this_object', p, B(okc))
                fresh_wait = len(alloc) == 1 and now is alloc[0] and not fired and not succ
                ctx.oblige('post.first_request_opens_one_wait', p, B(fresh_wait))
                if not (okc and fresh_wait):
                    continue
                cmdd = cmds[0][3]
                if kind == 'circuit':
                    ctx.oblige('post.request_completes_through_the_command_then_the_wait', p, B(r is cmdd),
                               clause='completes only when Tor reports it gone, not when the close command is acknowledged')
                else:
                    ctx.oblige('post.request_is_the_wait_itself', p, B(r is now),
                               clause='completes only when Tor reports it gone, not when the close command is acknowledged')
                # the acknowledgement of the command hands over to the wait (the chain on the command's Deferred is run)
                entries = CH.entries_of(chain, cmdd)
                for q, rr, bad in CH.run(ex, p, entries, VOpaque('ack', 5), models=ctx.models):
                    ctx.oblige('post.acknowledgement_hands_over_to_the_wait', q, B(not bad and rr is q.heap[('f', o, '_closing_deferred')] and rr is now
                                                                                 and not ctx.models.glog(q, 'fired')),
                               clause='not when the close command is acknowledged')
                if kind == 'circuit':
                    fail = VOpaque('failure', 6)
                    p2 = p.fork()
                    st1 = z3.String('state_at_refusal')
                    p2.heap[('f', o, 'state')] = VStr(st1)
                    gone1 = z3.Or(st1 == mk_str('CLOSED'), st1 == mk_str('FAILED'))
                    for q, rr, bad in CH.run(ex, p2, entries, fail, failed=True, models=ctx.models, is_failure=lambda v: v is fail):
                        ctx.oblige('post.refused_command_fails_the_request_unless_the_circuit_is_gone', q,
                                   z3.If(gone1, B(rr is obj and not bad), B(rr is fail and bad)))
    return run


def unit_maybe_call(kind, pending):
    def run(ctx):
        _fns(ctx)
        ex = ctx.ex
        path = ctx.new_path()
        obj, ls = (_circuit if kind == 'circuit' else _stream)(ctx, path)
        o = obj.oid
        d = VOpaque('Deferred', 900)
        if pending:
            path.heap[('f', o, '_closing_deferred')] = d
        ctx.cover('pre_satisfiable', path)
        for p, r in _call(ctx, path, obj, 'maybe_call_closing_deferred'):
            if isinstance(r, Raise):
                ctx.oblige('no_exception', p, B(False))
                continue
            fired = ctx.models.glog(p, 'fired')
            now = p.heap[('f', o, '_closing_deferred')]
            if pending:
                ctx.oblige('post.pending_close_wait_fired_once_with_the_object_and_cleared', p,
                           B(len(fired) == 1 and fired[0][0] is d and fired[0][1] == 'ok' and fired[0][2] is obj and isinstance(now, VNone)),
                           clause='a close request completes when Tor reports it gone; each such wait completes exactly once')
            else:
                ctx.oblige('post.nothing_to_fire_without_a_pending_close', p, B(len(fired) == 0 and isinstance(now, VNone)))
            if kind == 'circuit':
                so = p.heap[('f', o, '_when_closed')]
                was = z3.Bool('closed_wait_fired')
                log = ctx.models.glog(p, 'so_fire:%s' % (so.oid,))
                ctx.oblige('post.closed_observer_fired_with_the_circuit_unless_already', p,
                           z3.If(was, B(len(log) == 0), B(len(log) == 1 and log[0] is obj)))
    return run


def unit_when(which):
    def run(ctx):
        _fns(ctx)
        ex = ctx.ex
        path = ctx.new_path()
        st0 = z3.String('state0')
        ctx.input('state0', VStr(st0))
        obj, ls = _circuit(ctx, path)
        o = obj.oid
        decided = (st0 == mk_str('BUILT')) if which == 'when_built' else z3.Or(st0 == mk_str('CLOSED'), st0 == mk_str('FAILED'))
        so = path.heap[('f', o, '_when_built' if which == 'when_built' else '_when_closed')]
        ctx.cover('pre_decided', path, decided)
        ctx.cover('pre_undecided', path, z3.Not(decided))
        for p, r in _call(ctx, path, obj, which):
            if isinstance(r, Raise):
                ctx.oblige('no_exception', p, B(False))
                continue
            succ = ctx.models.glog(p, 'succeeded')
            handed = ctx.models.glog(p, 'so_handed:%s' % (so.oid,))
            imm = B(len(succ) == 1 and r is succ[0][0] and succ[0][1] is obj and not handed)
            shared = B(len(handed) == 1 and r is handed[0] and not succ)
            ctx.oblige('post.immediate_in_the_deciding_state_else_the_shared_observer', p, z3.If(decided, imm, shared),
                       clause='waiting for a circuit to be built succeeds if and only if it reaches BUILT; each wait completes exactly once')
    return run


def unit_destroy(which, kwshape=('REASON',)):
    """TorState.circuit_closed / circuit_failed: the built-wait is failed (first fire wins) and the circuit forgotten, whichever of
    the optional REASON / REMOTE_REASON keywords the event carries"""
    def run(ctx):
        _fns(ctx)
        import txtorcon.torstate as ts
        ex = ctx.ex
        path = ctx.new_path()
        st = ex.new_inst(path, ts.TorState)
        obj, ls = _circuit(ctx, path)
        cid = z3.Int('circ_id')
        tm = TMap(TInt(), TOpaque('Circuit'))
        circuits = tm.fresh('circuits0')
        path.assume(z3.Not(TOpt(circuits.vt).is_none(z3.Select(circuits.t, cid))))
        path.heap[('f', st.oid, 'circuits')] = circuits
        was_built = z3.Bool('built_wait_fired')
        ctx.input('built_wait_fired', VBool(was_built))
        so = path.heap[('f', obj.oid, '_when_built')]
        ctx.cover('pre_satisfiable', path)
        kwv = {k_: VStr(z3.String(k_.lower())) for k_ in kwshape}
        for p, r in _call(ctx, path, st, which, [obj], kwv):
            if isinstance(r, Raise):
                cname = r.exc.cls.__name__ if isinstance(r.exc, VInst) else '?'
                ctx.oblige('no_exception[%s]' % cname, p, B(False))
                continue
            log = ctx.models.glog(p, 'so_fire:%s' % (so.oid,))
            import twisted.python.failure as tf
            is_fail = len(log) == 1 and isinstance(log[0], VInst) and log[0].cls is tf.Failure
            ctx.oblige('post.built_wait_fails_when_the_circuit_goes_away_first', p,
                       z3.If(was_built, B(len(log) == 0), B(is_fail)),
                       clause='waiting for a circuit to be built fails once Tor closes or fails it first; completes exactly once')
            m = p.heap[('f', st.oid, 'circuits')]
            ctx.oblige('post.circuit_forgotten', p, TOpt(m.vt).is_none(z3.Select(m.t, cid)))
    return run


def unit_create_flags(kind):
    def run(ctx):
        _fns(ctx)
        ex = ctx.ex
        path = ctx.new_path()
        obj, ls = (_circuit if kind == 'circuit' else _stream)(ctx, path)
        k = [z3.String('k0'), z3.String('k1')]
        v = [z3.String('v0'), z3.String('v1')]
        for i in range(2):
            ctx.input('k%d' % i, VStr(k[i]))
            ctx.input('v%d' % i, VStr(v[i]))
        path.assume(k[0] != k[1])
        # A9: keyword names are upper-case and distinct: a lower-cased keyword is no other keyword, lower() is injective on them
        path.assume(F_lower(k[0]) != k[1])
        path.assume(F_lower(k[1]) != k[0])
        path.assume(F_lower(k[0]) != F_lower(k[1]))
        kw = ex.new_dict(path, [(VStr(k[i]), VStr(v[i])) for i in range(2)])
        ctx.cover('pre_satisfiable', path)
        for p, r in _call(ctx, path, obj, '_create_flags', [kw]):
            if isinstance(r, Raise) or not isinstance(r, VDictLit):
                ctx.oblige('returns_a_dict', p, B(False))
                continue
            pairs = p.heap[('dict', r.did)]

            def lookup(key):
                # value of the last entry whose key equals `key` (dict semantics: keys in the spine are pairwise distinct on this path)
                t = None
                for kk, vv in pairs:
                    c = kk.t == key
                    t = z3.If(c, vv.t, t) if t is not None else vv.t
                present = z3.Or(*[kk.t == key for kk, vv in pairs])
                return present, t
            for i in range(2):
                pr, val = lookup(k[i])
                ctx.oblige('post.keyword_%d_kept' % i, p, z3.And(pr, val == v[i]), clause="with Tor's flags in both upper and lower case")
                pr, val = lookup(F_lower(k[i]))
                ctx.oblige('post.keyword_%d_also_in_lower_case' % i, p, z3.And(pr, val == v[i]), clause="with Tor's flags in both upper and lower case")
            ctx.oblige('post.nothing_else_added', p, z3.And(*[z3.Or(*[kk.t == x for x in (k[0], k[1], F_lower(k[0]), F_lower(k[1]))]) for kk, vv in pairs]))
    return run


def _expect_calls(notified, ls, per_listener):
    """each listener got exactly per_listener (list of (name, check(args, kw))) in that order"""
    for l in ls:
        mine = [n for n in notified if n[0] is l]
        if len(mine) != len(per_listener):
            return False
        for got, (name, chk) in zip(mine, per_listener):
            if got[1] != name or not chk(got[2], got[3]):
                return False
    return True


CIRC_STATES = ('LAUNCHED', 'EXTENDED', 'BUILT', 'CLOSED', 'FAILED', 'GUARD_WAIT')


def unit_circuit_update(status, fresh, nhops):
    def run(ctx):
        _fns(ctx)
        ex = ctx.ex
        path = ctx.new_path()
        obj, ls = _circuit(ctx, path)
        o = obj.oid
        H = path.heap
        cid = z3.Int('circ_id')
        idtxt = z3.String('id_text')
        path.assume(z3.InRe(idtxt, z3.Plus(z3.Range('0', '9'))))
        if fresh:
            H[('f', o, 'id')] = NONE
        else:
            path.assume(z3.StrToInt(idtxt) == cid)
        # the path known so far: 0..1 routers
        had = z3.Bool('had_one_hop')
        old_router = VOpaque('router', 50)
        p_has, p_not = path.fork(), path
        outs = []
        for pp, n_old in ((p_has, 1), (p_not, 0)):
            pp.assume(had if n_old else z3.Not(had))
            pp.heap[('f', o, 'path')] = ex.new_list(pp, [old_router] if n_old else [])
            outs.append((pp, n_old))
        hops = [z3.String('hop%d' % i) for i in range(nhops)]
        for h in hops:
            path.assume(z3.Length(h) > 0)
        reason = z3.String('reason')
        ctx.models.kw_pairs = [(mk_str('REASON'), reason), (mk_str('PURPOSE'), z3.String('purpose'))] if status in ('CLOSED', 'FAILED') else \
                              [(mk_str('PURPOSE'), z3.String('purpose'))]
        ctx.models.hops = hops
        pending = VOpaque('Deferred', 900)
        has_pending = z3.Bool('close_pending')
        for pp, n_old in outs:
            for h in hops:
                pp.assume(z3.Length(h) > 0)
            pp.heap[('f', o, '_closing_deferred')] = VUnion([(has_pending, pending), (z3.Not(has_pending), NONE)])
            args = [VStr(idtxt), VStr(status)] + ([VStr(z3.String('path_text'))] if nhops or status in ('EXTENDED', 'BUILT', 'GUARD_WAIT') else []) \
                + [VStr(z3.String('kwtext'))]
            ctx.cover('pre_satisfiable[%d]' % n_old, pp)
            for p, r in _call(ctx, pp, obj, 'update', [ex.new_list(pp, args)]):
                if isinstance(r, Raise):
                    cname = r.exc.cls.__name__ if isinstance(r.exc, VInst) else '?'
                    ctx.oblige('no_exception[%s]' % cname, p, B(False))
                    continue
                notified = ctx.models.glog(p, 'notified')
                routers = ctx.models.glog(p, 'routers')
                is_obj = lambda a, k: len(a) >= 1 and a[0] is obj
                # leading hops that are $-names form the new path (third field exists only when hops are given)
                takes_path = status not in ('LAUNCHED', 'CLOSED', 'FAILED') and len(args) > 3
                lead = []
                for h in hops:
                    lead.append(z3.And(*( [z3.PrefixOf(mk_str('$'), h)] + ([lead[-1]] if lead else []))))
                # enumerate how many leading $-hops there are: obligations are stated per count
                for k in range(nhops + 1):
                    cond = z3.And(*( [lead[i] for i in range(k)] + ([z3.Not(lead[k])] if k < nhops else []))) if nhops else B(True)
                    newlen = k if takes_path else None
                    exp = []
                    if fresh:
                        exp.append(('circuit_new', is_obj))
                    if status == 'LAUNCHED':
                        exp.append(('circuit_launched', is_obj))
                    if takes_path:
                        for j in range(n_old, newlen):
                            exp.append(('circuit_extend', lambda a, kk: len(a) == 2 and a[0] is obj and isinstance(a[1], VOpaque) and a[1].kind == 'router'))
                    if status == 'BUILT':
                        exp.append(('circuit_built', is_obj))
                    if status in ('CLOSED', 'FAILED'):
                        def flags_ok(a, kk):
                            return (len(a) == 1 and a[0] is obj and set(kk) == {'REASON', 'reason', 'PURPOSE', 'purpose'}
                                    and all(isinstance(kk[x], VStr) for x in kk)
                                    and z3.eq(kk['REASON'].t, reason) and z3.eq(kk['reason'].t, reason))
                        exp.append(('circuit_closed' if status == 'CLOSED' else 'circuit_failed', flags_ok))
                    ctx.oblige('post.each_listener_gets_exactly_this_transition_once_in_order[%d->%d]' % (n_old, k), p,
                               z3.Implies(cond, B(_expect_calls(notified, ls, exp))),
                               clause='every registered listener receives exactly one notification per reported transition, in event order')
                    # listeners are served in registration order within one notification kind
                order_ok = True
                kinds = []
                for n in notified:
                    if not kinds or kinds[-1][0] != n[1] or n[0] is ls[0]:
                        kinds.append((n[1], []))
                    kinds[-1][1].append(n[0])
                for kname, who in kinds:
                    if who != ls:
                        order_ok = False
                ctx.oblige('post.every_notification_goes_to_all_listeners_in_registration_order', p, B(order_ok))
                fired = ctx.models.glog(p, 'fired')
                so_b = p.heap[('f', o, '_when_built')]
                so_c = p.heap[('f', o, '_when_closed')]
                blog = ctx.models.glog(p, 'so_fire:%s' % (so_b.oid,))
                clog = ctx.models.glog(p, 'so_fire:%s' % (so_c.oid,))
                if status == 'BUILT':
                    ctx.oblige('post.built_wait_succeeds_with_the_circuit', p,
                               z3.If(z3.Bool('built_wait_fired'), B(len(blog) == 0), B(len(blog) == 1 and blog[0] is obj)),
                               clause='waiting for a circuit to be built succeeds if and only if it reaches BUILT')
                else:
                    ctx.oblige('post.built_wait_untouched_by_this_transition', p, B(len(blog) == 0),
                               clause='waiting for a circuit to be built succeeds if and only if it reaches BUILT')
                if status in ('CLOSED', 'FAILED'):
                    ctx.oblige('post.pending_close_completes_exactly_once_on_the_event', p,
                               z3.If(has_pending, B(len(fired) == 1 and fired[0][0] is pending and fired[0][2] is obj), B(len(fired) == 0)),
                               clause='a close request completes only when Tor reports it gone')
                    ctx.oblige('post.closed_wait_fires', p, z3.If(z3.Bool('closed_wait_fired'), B(len(clog) == 0), B(len(clog) == 1 and clog[0] is obj)))
                else:
                    ctx.oblige('post.close_wait_untouched_before_the_object_is_gone', p, B(len(fired) == 0 and len(clog) == 0),
                               clause='a close request completes only when Tor reports it gone, not when the close command is acknowledged')
                stn = p.heap[('f', o, 'state')]
                ctx.oblige('post.state_recorded', p, B(concrete_of(stn) == (True, status)))
    return run


STREAM_STATES = ('NEW', 'SUCCEEDED', 'REMAP', 'SENTCONNECT', 'DETACHED', 'CLOSED', 'FAILED')


def unit_stream_update(status, attached_before, cid_zero):
    """Stream.update for one event of a known stream; listeners may raise (Stream._notify logs and goes on)"""
    def run(ctx):
        _fns(ctx)
        import txtorcon.circuit as cm
        ex = ctx.ex
        path = ctx.new_path()
        obj, ls = _stream(ctx, path)
        o = obj.oid
        H = path.heap
        H[('g', 'listeners_may_raise')] = True
        sid = z3.Int('stream_id')
        idtxt = z3.String('id_text')
        path.assume(z3.InRe(idtxt, z3.Plus(z3.Range('0', '9'))))
        path.assume(z3.StrToInt(idtxt) == sid)
        H[('f', o, 'target_host')] = VStr(z3.String('host0'))
        H[('f', o, 'target_port')] = VInt(z3.Int('port0'))
        cidtxt = z3.String('circ_text')
        path.assume(z3.InRe(cidtxt, z3.Plus(z3.Range('0', '9'))))
        cid = z3.StrToInt(cidtxt)
        path.assume(cid == 0 if cid_zero else cid > 0)

        def mk_circ(n, with_self):
            c = ex.new_inst(path, cm.Circuit)
            H[('f', c.oid, 'id')] = VInt(z3.Int('attached_circ_id') if with_self else cid)
            H[('f', c.oid, 'streams')] = ex.new_list(path, [obj] if with_self else [])
            return c
        cur = mk_circ(0, True) if attached_before else None
        if attached_before:
            H[('f', o, 'circuit')] = cur
            # Tor reports the circuit the stream is on
            if not cid_zero:
                path.assume(z3.Int('attached_circ_id') == cid)
        found = mk_circ(1, False)
        H[('g', 'found_circuit')] = found
        reason = z3.String('reason')
        ctx.models.kw_pairs = [(mk_str('REASON'), reason)] if status in ('CLOSED', 'FAILED', 'DETACHED') else []
        pending = VOpaque('Deferred', 900)
        has_pending = z3.Bool('close_pending')
        H[('f', o, '_closing_deferred')] = VUnion([(has_pending, pending), (z3.Not(has_pending), NONE)])
        args = [VStr(idtxt), VStr(status), VStr(cidtxt), VStr(z3.String('target')), VStr(z3.String('kwtext'))]
        ctx.cover('pre_satisfiable', path)
        for p, r in _call(ctx, path, obj, 'update', [ex.new_list(path, args)]):
            if isinstance(r, Raise):
                cname = r.exc.cls.__name__ if isinstance(r.exc, VInst) else '?'
                ctx.oblige('no_exception[%s]' % cname, p, B(False), clause='a failing listener does not stop the others')
                continue
            notified = ctx.models.glog(p, 'notified')
            is_obj = lambda a, k: len(a) == 1 and a[0] is obj and not k

            def flags_ok(a, kk):
                return (len(a) == 1 and a[0] is obj and set(kk) == {'REASON', 'reason'} and all(isinstance(kk[x], VStr) for x in kk)
                        and z3.eq(kk['REASON'].t, reason) and z3.eq(kk['reason'].t, reason))
            exp = []
            if status == 'NEW':
                exp.append(('stream_new', is_obj))
            elif status == 'SUCCEEDED':
                exp.append(('stream_succeeded', is_obj))
            elif status == 'CLOSED':
                exp.append(('stream_closed', flags_ok))
            elif status == 'FAILED':
                exp.append(('stream_failed', flags_ok))
            elif status == 'DETACHED':
                exp.append(('stream_detach', flags_ok))
            if status not in ('CLOSED', 'FAILED', 'DETACHED') and not cid_zero and not attached_before:
                exp.append(('stream_attach', lambda a, k: len(a) == 2 and a[0] is obj and a[1] is found and not k))
            ctx.oblige('post.each_listener_gets_exactly_this_transition_once_in_order', p, B(_expect_calls(notified, ls, exp)),
                       clause='every registered stream listener receives exactly one notification per reported transition, even if another listener raises')
            fired = ctx.models.glog(p, 'fired')
            if status in ('CLOSED', 'FAILED'):
                ctx.oblige('post.pending_close_completes_exactly_once_on_the_event', p,
                           z3.If(has_pending, B(len(fired) == 1 and fired[0][0] is pending and fired[0][2] is obj), B(len(fired) == 0)),
                           clause='a close request on a stream completes only when Tor reports it gone')
            else:
                ctx.oblige('post.close_wait_untouched_before_the_object_is_gone', p, B(len(fired) == 0),
                           clause='a close request completes only when Tor reports it gone, not when the close command is acknowledged')
    return run


def unit_add_listener(kind):
    def run(ctx):
        _fns(ctx)
        import txtorcon.torstate as ts
        ex = ctx.ex
        path = ctx.new_path()
        st = ex.new_inst(path, ts.TorState)
        H = path.heap
        objs = [VOpaque('circ' if kind == 'circuit' else 'streamobj', 300 + i) for i in range(2)]
        H[('f', st.oid, 'circuits' if kind == 'circuit' else 'streams')] = ex.new_dict(path, [(VInt(z3.Int('id%d' % i)), objs[i]) for i in range(2)])
        path.assume(z3.Int('id0') != z3.Int('id1'))
        old = VOpaque('listener', 40)
        lst = ex.new_list(path, [old])
        H[('f', st.oid, 'circuit_listeners' if kind == 'circuit' else 'stream_listeners')] = lst
        new = VOpaque('listener', 41)
        ctx.cover('pre_satisfiable', path)
        for p, r in _call(ctx, path, st, 'add_circuit_listener' if kind == 'circuit' else 'add_stream_listener', [new]):
            if isinstance(r, Raise):
                ctx.oblige('no_exception', p, B(False))
                continue
            listens = ctx.models.glog(p, 'listen')
            ok = len(listens) == 2 and [l[0] for l in listens] == objs and all(l[1] is new for l in listens)
            ctx.oblige('post.attached_once_to_every_existing_object', p, B(ok),
                       clause='including listeners that were added after the object appeared')
            items = ex.list_items(p, p.heap[('f', st.oid, 'circuit_listeners' if kind == 'circuit' else 'stream_listeners')])
            ctx.oblige('post.remembered_for_future_objects', p, B(len(items) == 2 and items[0] is old and items[1] is new))
    return run


def unit_maybe_create(known):
    def run(ctx):
        _fns(ctx)
        import txtorcon.torstate as ts
        ex = ctx.ex
        path = ctx.new_path()
        st = ex.new_inst(path, ts.TorState)
        H = path.heap
        cid = z3.Int('circ_id')
        tm = TMap(TInt(), TOpaque('circ'))
        circuits = tm.fresh('circuits0')
        H[('f', st.oid, 'circuits')] = circuits
        is_known = z3.Not(TOpt(circuits.vt).is_none(z3.Select(circuits.t, cid)))
        path.assume(is_known if known else z3.Not(is_known))
        ls = [VOpaque('listener', 40), VOpaque('listener', 41)]
        H[('f', st.oid, 'circuit_listeners')] = ex.new_list(path, ls)
        H[('f', st.oid, 'circuit_factory')] = VOpaque('circuit_factory', 9)
        ctx.cover('pre_satisfiable', path)
        for p, r in _call(ctx, path, st, '_maybe_create_circuit', [VInt(cid)]):
            if isinstance(r, Raise):
                ctx.oblige('no_exception', p, B(False))
                continue
            created = ctx.models.glog(p, 'created')
            listens = ctx.models.glog(p, 'listen')
            if known:
                ctx.oblige('post.known_circuit_reused_without_new_registrations', p, B(not created and not listens))
            else:
                ok = (len(created) == 1 and r is created[0] and len(listens) == 3 and all(l[0] is r for l in listens)
                      and listens[0][1] is st and listens[1][1] is ls[0] and listens[2][1] is ls[1])
                ctx.oblige('post.new_circuit_gets_the_state_and_every_global_listener_once', p, B(ok),
                           clause='global listeners are attached to existing and future objects')
    return run


class ExtendModels(Models08):
    def split_hook(self, ex, path, s, args, kw):
        # 'EXTENDED <digits>': exactly two words (the reply text of EXTENDCIRCUIT; see the unit)
        w = path.heap.get(('g', 'extend_reply_words'))
        if not args and w is not None and isinstance(s, VStr) and s.t.eq(w[0]):
            return [(path, ex.new_list(path, [VStr(w[1]), VStr(w[2])]))]
        return Models08.split_hook(self, ex, path, s, args, kw)


def unit_find_circuit_after_extend(known):
    """build_circuit's reply handler: the circuit object of the id Tor answered with (created with every global listener if it
    is new) is given exactly the synthetic update [id, 'EXTENDED'] - the state Tor's reply reports - and nothing else"""
    def run(ctx):
        _fns(ctx)
        ctx.fn(TST, "TorState._find_circuit_after_extend")
        import txtorcon.torstate as ts
        ex = ctx.ex
        path = ctx.new_path()
        st = ex.new_inst(path, ts.TorState)
        H = path.heap
        idtext = z3.String('circuit_id_text')
        ctx.input('circuit_id_text', VStr(idtext))
        path.assume(z3.InRe(idtext, z3.Plus(z3.Range('0', '9'))))
        path.assume(z3.StrToInt(idtext) >= 0)        # (a fact about digit strings the solver does not derive by itself)
        word = z3.String('reply_word')
        ctx.input('reply_word', VStr(word))
        path.assume(z3.InRe(word, z3.Plus(z3.Range('A', 'Z'))))
        x = z3.Concat(word, mk_str(' '), idtext)
        H[('g', 'extend_reply_words')] = (x, word, idtext)
        cid = z3.StrToInt(idtext)
        tm = TMap(TInt(), TOpaque('circ'))
        circuits = tm.fresh('circuits0')
        H[('f', st.oid, 'circuits')] = circuits
        is_known = z3.Not(TOpt(circuits.vt).is_none(z3.Select(circuits.t, cid)))
        path.assume(is_known if known else z3.Not(is_known))
        ls = [VOpaque('listener', 40)]
        H[('f', st.oid, 'circuit_listeners')] = ex.new_list(path, ls)
        H[('f', st.oid, 'circuit_factory')] = VOpaque('circuit_factory', 9)
        ctx.cover('pre_satisfiable', path)
        is_ext = word == mk_str('EXTENDED')
        for p, r in _call(ctx, path, st, '_find_circuit_after_extend', [VStr(x)]):
            ups = ctx.models.glog(p, 'updates')
            if isinstance(r, Raise):
                ctx.oblige('post.refused_only_for_another_reply_word_and_nothing_touched', p,
                           zand(z3.Not(is_ext), B(len(ups) == 0 and not ctx.models.glog(p, 'created'))))
                continue
            ok = len(ups) == 1 and ups[0][0] is r
            items = ex.iter_concrete(p, ups[0][1]) if ok else []
            okargs = ok and len(items) == 2 and all(isinstance(i_, VStr) for i_ in items)
            ctx.oblige('post.the_circuit_tor_answered_with_gets_exactly_one_update_id_EXTENDED', p,
                       zand(is_ext, B(okargs), items[0].t == z3.IntToStr(cid), items[1].t == mk_str('EXTENDED')) if okargs else B(False),
                       clause='exactly one notification per reported transition (the reply reports EXTENDED, nothing else)')
            created = ctx.models.glog(p, 'created')
            ctx.oblige('post.object_created_only_for_an_unknown_id', p, B((len(created) == 0) if known else (len(created) == 1 and created[0] is r)))
    return run


def units():
    us = [('C08/TorState._find_circuit_after_extend@known', unit_find_circuit_after_extend(True)),
          ('C08/TorState._find_circuit_after_extend@new', unit_find_circuit_after_extend(False))]
    for kind in ('circuit', 'stream'):
        for case in ('gone', 'pending', 'fresh'):
            us.append(('C08/%s.close@%s' % (kind.capitalize(), case), unit_close(kind, case)))
        for pend in (True, False):
            us.append(('C08/%s.maybe_call_closing_deferred@%s' % (kind.capitalize(), 'pending' if pend else 'idle'), unit_maybe_call(kind, pend)))
        us.append(('C08/%s._create_flags' % kind.capitalize(), unit_create_flags(kind)))
        us.append(('C08/TorState.add_%s_listener' % kind, unit_add_listener(kind)))
    us.append(('C08/Circuit.when_built', unit_when('when_built')))
    us.append(('C08/Circuit.when_closed', unit_when('when_closed')))
    us.append(('C08/TorState.circuit_closed', unit_destroy('circuit_closed')))
    us.append(('C08/TorState.circuit_failed', unit_destroy('circuit_failed')))
    for wh in ('circuit_closed', 'circuit_failed'):
        for nm, shp in (('no_reason', ()), ('both_reasons', ('REASON', 'REMOTE_REASON')), ('remote_reason_only', ('REMOTE_REASON',))):
            us.append(('C08/TorState.%s@%s' % (wh, nm), unit_destroy(wh, shp)))
    us.append(('C08/TorState._maybe_create_circuit@known', unit_maybe_create(True)))
    us.append(('C08/TorState._maybe_create_circuit@new', unit_maybe_create(False)))
    for status in CIRC_STATES:
        for fresh in (False, True):
            nh = 0 if status in ('LAUNCHED', 'CLOSED', 'FAILED') else 2
            us.append(('C08/Circuit.update@%s/%s' % (status, 'first_sight' if fresh else 'known'), unit_circuit_update(status, fresh, nh)))
    # the SingleObserver contract used above is discharged here against the class body (units shared with C03)
    from props import C03
    for name, u in C03.units():
        if 'SingleObserver' in name:
            us.append((name.replace('C03/', 'C08/'), u))
    for status in STREAM_STATES:
        for attached in (False, True):
            for zero in (False, True):
                if status in ('CLOSED', 'FAILED', 'DETACHED') and zero:
                    continue
                us.append(('C08/Stream.update@%s/%s/%s' % (status, 'attached' if attached else 'unattached', 'circ0' if zero else 'circN'),
                           unit_stream_update(status, attached, zero)))
    return us


# ==========================================================================================
# bounded twin (B): stand-alone module twin/tC08.py (real classes, oracle from the statement)
from pyvc.report import adopt_twin
FINDING_PATTERNS = []
twin, _replay_twin = adopt_twin('twin.tC08', FINDING_PATTERNS)


def replay(unit, name, model):
    """native replay of a solver model on the real classes (props/replay_state.py)"""
    from props import replay_state
    return replay_state.replay(unit, name, model)


def replay_file(doc):
    if doc.get('kind') == 'twin':
        return _replay_twin(doc)
    unit, name = doc['obligation'].split('::')
    return replay(unit, name, doc['model'])
