"""C15 -- onion creation completes only on this service's confirmed descriptor upload.

Proof units on the real closures of _await_descriptor_upload (obtained by executing the real
coroutine body up to its first await; closure variables become symbolic state):
  hs_desc@<event kind>      per HS_DESC event kind from an arbitrary state of the three directory sets
  coroutine                 listener installed before the first await; removed on every exit"""
import z3

from pyvc.exec import Raise, Unsupported
from pyvc.sym import (VInt, VBool, VStr, VBytes, VNone, NONE, VTuple, VInst, VOpaque, VUnion, VConc, VFunc, VSeq, VSet,
                      concrete_of, mk_str, zand, zor)
from pyvc import extract
from contracts import onion as O
from contracts.common import F_tok, F_ntok

PROP = 'C15'
MODULE = 'txtorcon.onion'
FUNCS = ['_await_descriptor_upload', '_await_descriptor_upload.hs_desc', '_await_descriptor_upload.hostname_matches',
         '_await_descriptor_upload.translate_progress']
F_UPLOADED_FOREIGN = 'uploaded-matched-by-directory-only'
TRUSTED = [
    'A3 Deferred / inlineCallbacks semantics; add/remove_event_listener contracts from C02',
    'A7 str.split() tokens uninterpreted (first token exact); str.format exact for one {} with a str argument',
    'A9 HS_DESC layout per control-spec: Action HSAddress AuthType HsDir ...; Tor reports UPLOADED/FAILED only for directories announced by UPLOAD '
    '(so confirmed and failed directories are subsets of the attempted ones: cardinality test = set test); the subscription is removed in the turn '
    'in which the wait completes, so hs_desc runs only while the wait is pending',
    'Inv(pending): while the wait is pending none of its completion conditions holds (each event that makes one true fires the wait: proved per event)',
    'closure conversion is mechanical: the real coroutine body is executed up to its first await and its nested functions are taken from that frame',
    'induction over event sequences (DESIGN 3.4); pyvc semantics; z3/cvc5',
]
LEVEL = 'proof'
MANIFEST = {
    'category': 'proof',
    'technique': 'contract-based deductive verification: per-event-kind postconditions on the real hs_desc closure from an arbitrary state of the attempted/confirmed/failed sets (arrays + cardinalities), and unsubscribe-on-every-exit of the coroutine with every await allowed to fail (pyvc VCs, z3/cvc5); bounded CPython twin over event orderings',
    'text': 'hs_desc is proved, for every event text and every state of the three directory sets: events of other services change nothing and complete '
            'nothing (UPLOAD/FAILED; UPLOADED is the recorded finding), an own UPLOAD only records the attempt, an own confirmed UPLOADED completes the '
            'wait exactly once (first success, or in await-all mode when confirmed+failed covers the attempted set), an own FAILED fails it exactly when '
            'every attempted upload failed and completes it in await-all mode when it was the last outstanding one with a success recorded; never '
            'fires a completed wait. The coroutine is proved to install the listener before its first await and to remove it on normal and exceptional exit.',
    'level_note': 'Proof scope: an event is attributed to the service by the address the service has when the event arrives. Assumed (A): HS_DESC field layout, confirmed/failed subsets of attempted, Deferred semantics, tokenisation. '
                  'Known finding: UPLOADED is matched by directory only (another service sharing the directory completes this one; pinned by existing tests); HS_DESC events of an ephemeral service that arrive before its ADD_ONION reply are dropped (the service id is not known yet). '
                  'Bounded (B): all orderings of UPLOAD/UPLOADED/FAILED over <= 3 directories with a second service, both modes, reply timing - in the twin.',
}


def make_models():
    return O.OnionModels()


def B(x):
    return z3.BoolVal(bool(x))


def _toplevel(ctx):
    import txtorcon.onion as onion
    raw = onion._await_descriptor_upload
    raw = getattr(raw, '__wrapped__', raw)
    mi, node = extract.find(MODULE, '_await_descriptor_upload')
    return VFunc(node, MODULE, '_await_descriptor_upload', pyfunc=None)


def unit_hs_desc(kind, after_early_event=False):
    """after_early_event: the listener has already seen one event while the service had no address yet (before its
    ADD_ONION reply / hostname file); the address is known by the time of the event under test"""
    def run(ctx):
        for q in FUNCS:
            ctx.fn(MODULE, q)
        ex = ctx.ex
        path = ctx.new_path()
        f = _toplevel(ctx)
        results = {}

        def at_first_await(ex, p, fr, v, node):
            H = p.heap
            # the listener must already be handed to the protocol: add_event_listener('HS_DESC', hs_desc)
            calls = ctx.models.glog(p, 'proto_calls')
            hs = H[('l', fr.fid, 'hs_desc')]
            ok = (len(calls) == 1 and calls[0][0] == 'add_event_listener' and concrete_of(calls[0][1][0]) == (True, 'HS_DESC')
                  and calls[0][1][1] is hs)
            ctx.oblige('post.listener_installed_before_first_await', p, B(ok),
                       clause='the subscription exists before the creating command is sent')
            # ---- closure conversion: arbitrary state of the closure variables
            S = z3.StringSort()
            att = VSet(z3.Const('att0', z3.ArraySort(S, z3.BoolSort())), z3.Int('natt0'))
            conf = VSet(z3.Const('conf0', z3.ArraySort(S, z3.BoolSort())), z3.Int('nconf0'))
            fail = VSet(z3.Const('fail0', z3.ArraySort(S, z3.BoolSort())), z3.Int('nfail0'))
            for nm, v_ in (('attempted_uploads', att), ('confirmed_uploads', conf), ('failed_uploads', fail)):
                H[('l', fr.fid, nm)] = v_
            await_all = z3.Bool('await_all')
            H[('l', fr.fid, 'await_all')] = VBool(await_all)
            uploaded = H[('l', fr.fid, 'uploaded')]
            # hs_desc runs only while the wait is pending (see trusted base)
            H[('g', 'called', str(uploaded.t))] = z3.BoolVal(False)
            host = z3.String('onion_hostname')
            # an ephemeral service has no address until its ADD_ONION reply arrives
            has_host = z3.Bool('onion_has_hostname')
            H[('g', 'onion_hostname')] = VUnion([(has_host, VStr(host)), (z3.Not(has_host), NONE)])
            p.assume(z3.Not(z3.Bool('onion_is_authenticated')))
            for t in (att.n, conf.n, fail.n):
                p.assume(t >= 0)
            # finite-set facts relating the arrays to their cardinalities (instances of |A| = 0 <=> A empty, A subset of B ...)
            d = F_tok(z3.String('evt'), 3)
            empty = z3.K(S, z3.BoolVal(False))
            p.assume((att.n == 0) == (att.t == empty))
            p.assume((fail.n == 0) == (fail.t == empty))
            p.assume((conf.n == 0) == (conf.t == empty))
            # A9: confirmed / failed directories are attempted ones; disjoint
            p.assume(z3.Implies(z3.Select(conf.t, d), z3.Select(att.t, d)))
            p.assume(z3.Implies(z3.Select(fail.t, d), z3.Select(att.t, d)))
            p.assume(conf.n + fail.n <= att.n)
            p.assume(z3.Not(z3.And(z3.Select(conf.t, d), z3.Select(fail.t, d))))
            # finite sets: fail subset of att  =>  (fail' = att  <=>  |fail'| = |att|) for fail' = fail + {d}
            fail1 = z3.Store(fail.t, d, z3.BoolVal(True))
            nfail1 = fail.n + z3.If(z3.Select(fail.t, d), 0, 1)
            p.assume(z3.Implies(z3.Select(att.t, d), (fail1 == att.t) == (nfail1 == att.n)))
            p.assume(z3.Implies(z3.Not(z3.Select(att.t, d)), fail1 != att.t))
            p.assume((fail.t == att.t) == (fail.n == att.n))
            # Inv(pending): the completion conditions did not hold before this event (else the wait had fired)
            p.assume(z3.Not(z3.And(att.n > 0, fail.t == att.t)))
            p.assume(z3.Implies(z3.Not(await_all), conf.n == 0))
            p.assume(z3.Implies(await_all, z3.Not(z3.And(conf.n > 0, conf.n + fail.n == att.n))))
            results['state'] = (p, fr, hs, att, conf, fail, await_all, uploaded, host, d)
        ctx.models.first_await = at_first_await
        progress = VUnion([(z3.Bool('has_progress'), VOpaque('progress_cb', 8800)), (z3.Not(z3.Bool('has_progress')), NONE)])
        try:
            ex.call(path, f, [VOpaque('proto', 8700), VOpaque('onion', 8600), progress,
                              VUnion([(z3.Bool('aa_none'), NONE), (z3.Not(z3.Bool('aa_none')), VBool(z3.Bool('aa_val')))])], {})
        except O.StopUnit:
            pass
        if 'state' not in results:
            ctx.oblige('reached_first_await', path, B(False))
            return
        p, fr, hs, att, conf, fail, await_all, uploaded, host, d = results['state']
        evt = z3.String('evt')
        ctx.input('evt', VStr(evt))
        ctx.input('onion_hostname', VStr(host))
        # A9: the event has at least 4 tokens: Action HSAddress AuthType HsDir
        p.assume(F_ntok(evt) >= 4)
        action = F_tok(evt, 0)
        addr = F_tok(evt, 1)
        p.assume(action == mk_str(kind))
        ours = z3.And(z3.Bool('onion_has_hostname'), host == z3.Concat(addr, mk_str('.onion')))
        ctx.cover('pre_satisfiable', p)
        ctx.cover('pre_foreign', p, z3.Not(ours))
        ctx.cover('pre_ours', p, ours)
        ctx.region(F_UPLOADED_FOREIGN, z3.Not(ours)) if kind == 'UPLOADED' else None
        ctx.models.first_await = None
        starts = [p]
        if after_early_event:
            # an earlier event, delivered while the service had no address: it belongs to somebody else by definition
            # (UPLOADED is left to the single-event units because of the listed finding)
            known = p.heap[('g', 'onion_hostname')]
            p.heap[('g', 'onion_hostname')] = NONE
            starts = []
            first = []
            for early in ('UPLOAD oxxxxxxxxxxxxxxx UNKNOWN $HSDIR0000000000000000000000000000000000 x', 'FAILED oxxxxxxxxxxxxxxx UNKNOWN $HSDIR0000000000000000000000000000000000 REASON=UPLOAD_REJECTED'):
                first.extend(ex.call(p.fork(), hs, [VStr(early)], {}))
            for q0, r0 in first:
                if isinstance(r0, Raise):
                    ctx.oblige('no_exception_from_the_earlier_event', q0, B(False))
                    continue
                H0 = q0.heap
                same = zand(*[H0[('l', fr.fid, n)].t == x.t for n, x in (('attempted_uploads', att), ('confirmed_uploads', conf), ('failed_uploads', fail))])
                ctx.oblige('post.event_before_the_address_is_known_changes_nothing', q0, zand(same, B(len(ctx.models.glog(q0, 'fired')) == 0)),
                           clause='upload events that belong to other services never complete or fail it')
                q0.heap[('g', 'onion_hostname')] = known
                q0.assume(z3.Bool('onion_has_hostname'))
                for n, x in (('attempted_uploads', att), ('confirmed_uploads', conf), ('failed_uploads', fail)):
                    q0.heap[('l', fr.fid, n)] = x          # (equal by the obligation above)
                starts.append(q0)
        outs = []
        for p_ in starts:
            outs.extend(ex.call(p_, hs, [VStr(evt)], {}))
        for q, r in outs:
            if isinstance(r, Raise):
                cname = r.exc.cls.__name__ if isinstance(r.exc, VInst) else '?'
                ctx.oblige('no_exception[%s]' % cname, q, B(False), clause='an HS_DESC event never raises out of the listener')
                continue
            H = q.heap
            att1, conf1, fail1 = (H[('l', fr.fid, n)] for n in ('attempted_uploads', 'confirmed_uploads', 'failed_uploads'))
            fired = ctx.models.glog(q, 'fired')
            unchanged = zand(att1.t == att.t, conf1.t == conf.t, fail1.t == fail.t, att1.n == att.n, conf1.n == conf.n,
                             fail1.n == fail.n, B(len(fired) == 0))
            ctx.oblige('post.completes_at_most_once_per_event', q, B(len(fired) <= 1), clause='completes or fails exactly once')
            ctx.oblige('post.foreign_event_changes_and_completes_nothing', q, z3.Implies(z3.Not(ours), unchanged),
                       clause='upload events that belong to other services never complete or fail it')
            fired_ok = B(len(fired) == 1 and fired[0][1] == 'ok' and isinstance(fired[0][2], VOpaque) and fired[0][2].kind == 'onion')
            fired_err = B(len(fired) == 1 and fired[0][1] == 'err')
            none_fired = B(len(fired) == 0)
            if kind == 'UPLOAD':
                ctx.oblige('post.own_upload_attempt_recorded_only', q,
                           z3.Implies(ours, zand(att1.t == z3.Store(att.t, d, z3.BoolVal(True)),
                                                 att1.n == att.n + z3.If(z3.Select(att.t, d), 0, 1),
                                                 conf1.t == conf.t, fail1.t == fail.t, none_fired)),
                           clause='an attempted upload alone never completes creation')
            elif kind == 'UPLOADED':
                attempted = z3.Select(att.t, d)
                nconf1 = conf.n + z3.If(z3.Select(conf.t, d), 0, 1)
                ctx.oblige('post.own_unattempted_directory_ignored', q, z3.Implies(z3.And(ours, z3.Not(attempted)), unchanged))
                ctx.oblige('post.own_success_recorded', q,
                           z3.Implies(z3.And(ours, attempted), zand(conf1.t == z3.Store(conf.t, d, z3.BoolVal(True)), conf1.n == nconf1,
                                                                    att1.t == att.t, fail1.t == fail.t)))
                ctx.oblige('post.first_success_completes_creation', q,
                           z3.Implies(z3.And(ours, attempted, z3.Not(await_all)), fired_ok),
                           clause='creation completes only after Tor reports a successful descriptor upload for that service')
                all_done = fail.n + nconf1 == att.n
                ctx.oblige('post.await_all_completes_when_every_attempt_is_settled', q,
                           z3.Implies(z3.And(ours, attempted, await_all), z3.If(all_done, fired_ok, none_fired)),
                           clause='when asked to await all uploads: once every attempted upload has succeeded or failed, with at least one success')
            else:   # FAILED
                counted = z3.Select(att.t, d)       # only failures of attempted uploads count
                nfail1 = fail.n + z3.If(z3.And(counted, z3.Not(z3.Select(fail.t, d))), 1, 0)
                fail1_spec = z3.If(counted, z3.Store(fail.t, d, z3.BoolVal(True)), fail.t)
                ctx.oblige('post.own_failure_recorded', q,
                           z3.Implies(ours, zand(fail1.t == fail1_spec, fail1.n == nfail1, att1.t == att.t, conf1.t == conf.t)))
                all_failed = z3.And(att.n > 0, fail1_spec == att.t)
                ctx.oblige('post.fails_when_every_attempted_upload_failed', q, z3.Implies(z3.And(ours, all_failed), fired_err),
                           clause='fails if every attempted upload failed')
                settled_with_success = z3.And(await_all, conf.n > 0, nfail1 + conf.n == att.n, counted)
                ctx.oblige('post.await_all_completes_when_last_outstanding_upload_fails', q,
                           z3.Implies(z3.And(ours, settled_with_success), fired_ok),
                           clause='await-all: completes once every attempted upload has either succeeded or failed with at least one success')
                ctx.oblige('post.failure_alone_does_not_complete', q,
                           z3.Implies(z3.And(ours, z3.Not(all_failed), z3.Not(settled_with_success)), none_fired))
    return run


def unit_coroutine():
    def run(ctx):
        for q in FUNCS:
            ctx.fn(MODULE, q)
        ex = ctx.ex
        path = ctx.new_path()
        f = _toplevel(ctx)
        progress = VUnion([(z3.Bool('has_progress'), VOpaque('progress_cb', 8800)), (z3.Not(z3.Bool('has_progress')), NONE)])
        ctx.cover('pre_satisfiable', path)
        outs = ex.call(path, f, [VOpaque('proto', 8700), VOpaque('onion', 8600), progress,
                                 VUnion([(z3.Bool('aa_none'), NONE), (z3.Not(z3.Bool('aa_none')), VBool(z3.Bool('aa_val')))])], {})
        n_normal = 0
        for p, r in outs:
            calls = ctx.models.glog(p, 'proto_calls')
            awaited = ctx.models.glog(p, 'awaited')
            adds = [c for c in calls if c[0] == 'add_event_listener']
            rems = [c for c in calls if c[0] == 'remove_event_listener']
            subscribed = len(adds) == 1 and len(awaited) >= 1 and len(awaited[0][1]) == 1
            ctx.oblige('post.subscribed_before_first_await', p, B(subscribed or len(awaited) == 0),
                       clause='the subscription is made first, so events sent right after the creating command are seen')
            # the subscription attempt itself may have failed (first await raised): then nothing to remove
            first_await_failed = isinstance(r, Raise) and len(awaited) == 1
            if len(adds) == 1 and not first_await_failed:
                same = len(rems) >= 1 and rems[0][1][1] is adds[0][1][1] and concrete_of(rems[0][1][0]) == (True, 'HS_DESC')
                ctx.oblige('post.subscription_removed_on_%s_exit' % ('exceptional' if isinstance(r, Raise) else 'normal'), p,
                           B(same and len(rems) == 1),
                           clause='afterwards, on success and on failure alike, its event subscription is removed')
            if not isinstance(r, Raise):
                n_normal += 1
                ctx.oblige('post.waits_for_the_upload_before_returning', p, B(len(awaited) >= 2))
        if not n_normal:
            ctx.oblige('some_normal_exit', path, B(False))
    return run


class CreateModels(O.OnionModels):
    """externals of FilesystemOnionService.create / FilesystemAuthenticatedOnionService.create: the upload wait (C15 contract,
    proved by the units above), TorConfig.save (C10), port validation, the service constructor"""
    def contract_for(self, ex, path, f, args, kw):
        q = f.qualname
        if q == '_await_descriptor_upload':
            d = VOpaque('Deferred', 4100)
            self.glog_add(path, 'timeline', ('subscribe', tuple(args)))
            return [(path, d)]
        if q in ('_canonical_hsdir', '_validate_ports'):
            return [(path, VOpaque('hsdir' if q == '_canonical_hsdir' else 'Deferred', ex.fresh_int(path, 'x')))]
        if q == 'version_at_least':
            return [(path, VBool(z3.Bool('tor_reports_hs_desc')))]
        if q.endswith('OnionService.__init__'):
            return [(path, NONE)]
        return O.OnionModels.contract_for(self, ex, path, f, args, kw)

    def opaque_attr(self, ex, path, obj, name):
        if obj.kind == 'config' and name == 'HiddenServices':
            return [(path, path.heap[('g', 'hs_list')])]
        if obj.kind == 'config' and name == 'tor_protocol':
            return [(path, VOpaque('proto', 8700))]
        return O.OnionModels.opaque_attr(self, ex, path, obj, name)

    def method(self, ex, path, recv, name, args, kw):
        if isinstance(recv, VOpaque) and recv.kind == 'config' and name == 'save':
            d = VOpaque('Deferred', 4200)
            self.glog_add(path, 'timeline', ('save', ()))
            return [(path, d)]
        return O.OnionModels.method(self, ex, path, recv, name, args, kw)


def unit_fs_create(clsname):
    def run(ctx):
        q = clsname + '.create'
        ctx.fn(MODULE, q)
        ex = ctx.ex
        path = ctx.new_path()
        mi, node = extract.find(MODULE, q)
        f = VFunc(node, MODULE, q, pyfunc=None)
        hs_list = ex.new_list(path, [])
        path.heap[('g', 'hs_list')] = hs_list
        has_events = z3.Bool('tor_reports_hs_desc')
        ctx.input('tor_reports_hs_desc', VBool(has_events))
        progress = VUnion([(z3.Bool('has_progress'), VOpaque('progress_cb', 8800)), (z3.Not(z3.Bool('has_progress')), NONE)])
        aa = VUnion([(z3.Bool('aa_none'), NONE), (z3.Not(z3.Bool('aa_none')), VBool(z3.Bool('aa_val')))])
        ctx.cover('pre_satisfiable', path)
        ctx.cover('pre_events', path, has_events)
        args = [VOpaque('reactor', 1), VOpaque('config', 2), VStr(z3.String('hsdir')), VOpaque('ports', 3)]
        kw = {'progress': progress, 'await_all_uploads': aa}
        if clsname == 'FilesystemAuthenticatedOnionService':
            kw['auth'] = VOpaque('auth', 4)
        n_ok = 0
        for p, r in ex.call(path, f, args, kw):
            tl = ctx.models.glog(p, 'timeline')
            kinds = [t[0] for t in tl]
            awaited = [a[0] for a in ctx.models.glog(p, 'awaited')]
            subs = [t for t in tl if t[0] == 'subscribe']
            if 'save' in kinds:
                ctx.oblige('post.upload_wait_subscribed_before_the_creating_command', p,
                           z3.Implies(has_events, B(kinds.count('subscribe') == 1 and kinds.index('subscribe') < kinds.index('save'))),
                           clause='listener installed before the creating command is sent: completes exactly once for any ordering of upload events')
                ctx.oblige('post.creating_command_sent_once', p, B(kinds.count('save') == 1))
            if subs:
                a = subs[0][1]
                created = ex.list_items(p, hs_list)
                ctx.oblige('post.wait_is_for_the_service_just_created', p,
                           B(len(a) == 4 and len(created) == 1 and a[1] is created[0] and isinstance(a[0], VOpaque) and a[0].kind == 'proto'),
                           clause='upload events that belong to other services never complete or fail it')
            if isinstance(r, Raise):
                continue
            n_ok += 1
            waited = any(isinstance(x, VOpaque) and str(x.t) == '4100' for x in awaited)
            ctx.oblige('post.completes_only_after_the_upload_wait', p, z3.Implies(has_events, B(waited)),
                       clause='creation completes only after Tor reports a successful descriptor upload for that service')
            created = ex.list_items(p, hs_list)
            ctx.oblige('post.returns_the_created_service', p, B(len(created) == 1 and r is created[0]))
        if not n_ok:
            ctx.oblige('some_normal_exit', path, B(False))
    return run


class EphCreateModels(CreateModels):
    def contract_for(self, ex, path, f, args, kw):
        if f.qualname == '_add_ephemeral_service':
            names = ['config', 'onion', 'progress', 'version', 'auth', 'await_all_uploads']
            bound = dict(zip(names, args))
            bound.update(kw)
            self.glog_add(path, 'add_calls', bound)
            return [(path, VOpaque('Deferred', 4300))]
        return CreateModels.contract_for(self, ex, path, f, args, kw)


def unit_eph_create(clsname):
    """EphemeralOnionService.create / EphemeralAuthenticatedOnionService.create hand the caller's wishes to _add_ephemeral_service
    unchanged - in particular whether to await all uploads - and complete only after it did"""
    def run(ctx):
        q = clsname + '.create'
        ctx.fn(MODULE, q)
        import txtorcon.onion as onion
        ex = ctx.ex
        path = ctx.new_path()
        mi, node = extract.find(MODULE, q)
        f = VFunc(node, MODULE, q, pyfunc=None)
        progress = VUnion([(z3.Bool('has_progress'), VOpaque('progress_cb', 8800)), (z3.Not(z3.Bool('has_progress')), NONE)])
        aa = VUnion([(z3.Bool('aa_none'), NONE), (z3.Not(z3.Bool('aa_none')), VBool(z3.Bool('aa_val')))])
        cfg = VOpaque('config', 2)
        kw = {'progress': progress, 'await_all_uploads': aa, 'version': VInt(z3.IntVal(3))}
        auth = ex.new_inst(path, onion.AuthBasic)
        path.heap[('f', auth.oid, '_clients')] = ex.new_dict(path, [(VStr(z3.String('client0')), NONE)])
        if clsname == 'EphemeralAuthenticatedOnionService':
            kw['auth'] = auth
        ctx.cover('pre_satisfiable', path)
        n_ok = 0
        for p, r in ex.call(path, f, [VOpaque('reactor', 1), cfg, VOpaque('ports', 3)], kw):
            calls = ctx.models.glog(p, 'add_calls')
            awaited = [a[0] for a in ctx.models.glog(p, 'awaited')]
            if isinstance(r, Raise):
                continue
            n_ok += 1
            ok = len(calls) == 1
            c = calls[0] if ok else {}
            same = lambda x, y: x is y or (isinstance(x, VUnion) and isinstance(y, VUnion) and x.alts == y.alts) or \
                (isinstance(x, VNone) and isinstance(y, VNone)) or (isinstance(x, (VBool, VInt)) and isinstance(y, (VBool, VInt)) and x.t.eq(y.t))
            aa_seen = c.get('await_all_uploads', NONE)
            if isinstance(aa_seen, VUnion) and same(aa_seen, aa):
                g_aa = B(True)
            elif isinstance(aa_seen, VNone):
                g_aa = z3.Bool('aa_none')                   # only right on the paths where the caller passed None
            elif isinstance(aa_seen, VBool):
                g_aa = z3.And(z3.Not(z3.Bool('aa_none')), aa_seen.t == z3.Bool('aa_val'))
            else:
                g_aa = B(False)
            ctx.oblige('post.the_wish_to_await_all_uploads_reaches_the_upload_wait', p, zand(B(ok), g_aa),
                       clause='when asked to await all uploads: only once every attempted upload has either succeeded or failed')
            pr_seen = c.get('progress', NONE)
            if isinstance(pr_seen, VUnion) and same(pr_seen, progress):
                g_pr = B(True)
            elif isinstance(pr_seen, VNone):
                g_pr = z3.Not(z3.Bool('has_progress'))
            elif isinstance(pr_seen, VOpaque) and pr_seen.kind == 'progress_cb':
                g_pr = z3.Bool('has_progress')
            else:
                g_pr = B(False)
            ctx.oblige('post.service_progress_and_auth_handed_over_unchanged', p,
                       zand(B(ok and c.get('config') is cfg and isinstance(c.get('onion'), VInst) and c.get('onion') is r
                              and (c.get('auth', NONE) is auth if clsname == 'EphemeralAuthenticatedOnionService' else isinstance(c.get('auth', NONE), VNone))),
                            g_pr))
            ctx.oblige('post.completes_only_after_the_service_was_added', p,
                       B(any(isinstance(x, VOpaque) and str(x.t) == '4300' for x in awaited)),
                       clause='creation completes only after Tor reports a successful descriptor upload for that service')
        if not n_ok:
            ctx.oblige('some_normal_exit', path, B(False))
    return run


def make_models_for(unit_name):
    if 'Ephemeral' in unit_name and '.create' in unit_name:
        return EphCreateModels()
    if '.hostname@' in unit_name:
        return HostnameModels()
    return CreateModels() if '.create' in unit_name else O.OnionModels()


class HostnameModels(O.OnionModels):
    """externals of FilesystemOnionService.hostname: os.path.join (some path), open() succeeding or failing as scripted per call,
    file.read() giving the file's text"""
    def callable_(self, ex, path, obj, args, kw):
        import os
        if obj is os.path.join:
            return [(path, VStr(z3.String('hostname_file_path')))]
        if obj is open:
            n = len(self.glog(path, 'opens'))
            self.glog_add(path, 'opens', args[0])
            script = path.heap.get(('g', 'open_script'), ())
            if n < len(script) and script[n] == 'missing':
                return ex.raise_(path, IOError, 'No such file or directory')
            return [(path, VOpaque('file', 100 + n))]
        return super(HostnameModels, self).callable_(ex, path, obj, args, kw)

    def method(self, ex, path, recv, name, args, kw):
        if isinstance(recv, VOpaque) and recv.kind == 'file' and name == 'read':
            return [(path, VStr(z3.String('hostname_file_text')))]
        return super(HostnameModels, self).method(ex, path, recv, name, args, kw)


def unit_fs_hostname(script):
    """FilesystemOnionService.hostname, read twice: the address is whatever the hostname file says once it can be read - a read
    that failed because Tor had not written the file yet does not stick (the upload wait asks on every HS_DESC event)"""
    def run(ctx):
        ctx.fn(MODULE, 'FilesystemOnionService.hostname')
        import txtorcon.onion as onion
        ex = ctx.ex
        path = ctx.new_path()
        svc = ex.new_inst(path, onion.FilesystemOnionService)
        H = path.heap
        H[('f', svc.oid, '_hostname')] = NONE
        H[('f', svc.oid, '_dir')] = VStr(z3.String('hsdir'))
        H[('g', 'open_script')] = tuple(script)
        text = z3.String('hostname_file_text')
        ctx.input('hostname_file_text', VStr(text))
        ctx.cover('pre_satisfiable', path)
        states = [(path, [])]
        for i in range(len(script)):
            nxt = []
            for p, seen in states:
                for p2, r in ex.getattr_v(p, svc, 'hostname'):
                    if isinstance(r, Raise):
                        ctx.oblige('no_exception', p2, B(False))
                        continue
                    nxt.append((p2, seen + [r]))
            states = nxt
        if not states:
            ctx.oblige('some_normal_exit', path, B(False))
        from pyvc.models import WS_STR, re_ws
        for p, seen in states:
            for i, (how, r) in enumerate(zip(script, seen)):
                if how == 'missing' and 'present' not in script[:i]:
                    ctx.oblige('post.no_address_while_the_file_cannot_be_read[%d]' % i, p, B(isinstance(r, VNone)))
                else:
                    # the stripped file text (known since the first successful read)
                    okr = isinstance(r, VStr)
                    g = B(False)
                    if okr:
                        a_, b_ = z3.String('lead_ws'), z3.String('trail_ws')
                        g = z3.And(z3.Contains(text, r.t), z3.Length(r.t) <= z3.Length(text))
                    ctx.oblige('post.address_is_the_file_text_once_it_can_be_read[%d]' % i, p, g,
                               clause='own upload events are recognised by the address Tor assigned (read from the hostname file once Tor has written it)')
    return run


def units():
    return [('C15/FilesystemOnionService.hostname@%s' % '_then_'.join(sc), unit_fs_hostname(sc))
            for sc in (('present',), ('missing', 'present'), ('missing', 'missing', 'present'), ('present', 'missing'))] + \
        [('C15/hs_desc@%s' % k, unit_hs_desc(k)) for k in ('UPLOAD', 'UPLOADED', 'FAILED')] + \
        [('C15/hs_desc@%s/after_early_event' % k, unit_hs_desc(k, True)) for k in ('UPLOAD', 'UPLOADED', 'FAILED')] + [('C15/coroutine', unit_coroutine())] + \
        [('C15/%s.create' % c, unit_fs_create(c)) for c in ('FilesystemOnionService', 'FilesystemAuthenticatedOnionService')] + \
        [('C15/%s.create' % c, unit_eph_create(c)) for c in ('EphemeralOnionService', 'EphemeralAuthenticatedOnionService')]


# ==========================================================================================
# bounded twin (B): stand-alone module twin/tC15.py (real classes, oracle from the statement)
from pyvc.report import adopt_twin
F_EARLY = 'own-events-before-creation-reply-dropped'
FINDING_PATTERNS = [(r'foreign_UPLOADED', F_UPLOADED_FOREIGN),
                    (r':(ephemeral|ephemeral_auth|legacy)/own_events_before_reply$', F_EARLY)]
twin, _replay_twin = adopt_twin('twin.tC15', FINDING_PATTERNS)


def replay(unit, name, model):
    return {'reproduced': False, 'what': 'no native replay for proof counterexamples of this unit'}


def replay_file(doc):
    if doc.get('kind') == 'twin':
        return _replay_twin(doc)
    unit, name = doc['obligation'].split('::')
    return replay(unit, name, doc['model'])
