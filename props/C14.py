"""C14 -- ADD_ONION carries exactly the requested service; key custody follows the request.

Proof units on the real _add_ephemeral_service (non-authenticated path) and EphemeralOnionService.remove
with every await allowed to fail: key specifier, Port= entries, flag set, CR/LF and version/key refusals
before anything is sent, exactly one ADD_ONION, hostname and key custody after the reply, DEL_ONION."""
import z3

from pyvc.exec import Raise, Unsupported
from pyvc.sym import (VInt, VBool, VStr, VBytes, VNone, NONE, VTuple, VInst, VOpaque, VUnion, VConc, VFunc, VSeq, VList, VBoundExt, VDictLit,
                      concrete_of, mk_str, zand, zor)
from pyvc import extract
from contracts.onion import OnionModels

PROP = 'C14'
MODULE = 'txtorcon.onion'
TRUSTED = [
    'A3 inlineCallbacks / Deferred semantics; queue_command contract (C01): the command text is written verbatim as one line',
    'find_keywords on the ADD_ONION reply yields ServiceID / PrivateKey as given (uninterpreted); _await_descriptor_upload contract (C15)',
    'port mappings reach _add_ephemeral_service as "virt target" strings (_validate_ports, bounded twin)',
    'the BasicAuth / ClientAuth path is under contract for an AuthBasic of two clients (each with or without a supplied cookie), version 2, one port; other shapes: bounded twin (full option product, independent ADD_ONION parser)',
    'pyvc semantics; z3/cvc5',
]
LEVEL = 'proof'
MANIFEST = {
    'category': 'proof',
    'technique': 'contract-based deductive verification of the real _add_ephemeral_service and EphemeralOnionService.remove with every await allowed to fail (pyvc VCs, z3/cvc5); bounded CPython twin over the full option product decoded by an independent ADD_ONION parser',
    'text': 'Proved for version 2 and 3, key in {none, DISCARD, arbitrary supplied text}, 1 or 2 arbitrary port mappings, detach / single-hop flags symbolic: key material with CR or LF, '
            'or a version-3 request with a non-V3 key, raises ValueError with no command sent; otherwise exactly one command is sent and it is ADD_ONION + key specifier '
            '(NEW:BEST / NEW:ED25519-V3 for none or DISCARD; a supplied key verbatim when it has a type prefix, else with RSA1024: / ED25519-V3: prepended) + one Port=virt,target '
            'per mapping in order + Flags= exactly {Detach, DiscardPK, NonAnonymous} as requested; after the reply the hostname is ServiceID + ".onion", a generated key is kept, '
            'a supplied key is unchanged, and with DISCARD no key is stored at any exit; remove() sends DEL_ONION for exactly that service id. '
            'With an AuthBasic of two clients the command ends in Flags=BasicAuth followed by one ClientAuth=name[:cookie] per client in order, the AuthBasic object is left unmodified, '
            'supplied cookies are recorded before the command and generated ones are taken from the ClientAuth= lines of the reply.',
    'level_note': 'Bounded (B): other client counts / AuthStealth, _validate_ports port forms, Tor.create_onion_service plumbing - twin (1536 option cells x port shapes, thorough: full product). '
                  'Assumed (A): reply keyword extraction, descriptor-wait contract.',
}


def B(x):
    return z3.BoolVal(bool(x))


class Models14(OnionModels):
    def contract_for(self, ex, path, f, args, kw):
        if f.qualname == '_await_descriptor_upload':
            self.glog_add(path, 'upload_wait_started', len(self.glog(path, 'queued')))
            return [(path, VOpaque('Deferred', 4100))]
        if f.qualname == 'find_keywords':
            return [(path, VOpaque('kw', 4200))]
        return OnionModels.contract_for(self, ex, path, f, args, kw)

    def split_hook(self, ex, path, s, args, kw):
        if len(args) == 1 and concrete_of(args[0]) == (True, '\n'):
            return [(path, VOpaque('lines', 4500))]      # only handed to find_keywords (contract)
        return OnionModels.split_hook(self, ex, path, s, args, kw)

    def opaque_attr(self, ex, path, obj, name):
        if obj.kind == 'config' and name == 'EphemeralOnionServices':
            return [(path, path.heap[('g', 'eph_list')])]
        if obj.kind == 'config' and name == 'tor_protocol':
            return [(path, VOpaque('proto', 4300))]
        return OnionModels.opaque_attr(self, ex, path, obj, name)

    def method(self, ex, path, recv, name, args, kw):
        if isinstance(recv, VOpaque) and recv.kind == 'proto' and name == 'queue_command':
            self.glog_add(path, 'queued', args[0])
            return [(path, VOpaque('Deferred', 4400))]
        return OnionModels.method(self, ex, path, recv, name, args, kw)

    def index(self, ex, path, o, i):
        if isinstance(o, VOpaque) and o.kind == 'kw':
            ok, k = concrete_of(i)
            if ok and k in ('ServiceID', 'PrivateKey'):
                present = z3.Bool('reply_has_' + k)
                out = []
                pt, pf = ex.branch(path, present)
                if pt is not None:
                    out.append((pt, VStr(z3.String('reply_' + k))))
                if pf is not None:
                    out.extend(ex.raise_(pf, KeyError, k))
                return out
        return OnionModels.index(self, ex, path, o, i)

    def await_(self, ex, path, fr, v, node):
        what = 'reply' if isinstance(v, VOpaque) and concrete_of(VInt(v.t)) == (True, 4400) else 'upload_wait'
        pr = path.fork()
        b = ex.fresh_bool(pr, 'await_%s_fails' % what)
        pr.assume(b)
        path.assume(z3.Not(b))
        self.glog_add(path, 'awaited', (what, 'ok'))
        self.glog_add(pr, 'awaited', (what, 'fail'))
        # a failure of some class: a handler narrower than Exception may or may not catch it
        exc = ex.new_inst(pr, Exception, args=VTuple([VStr('failure of ' + what)]))
        pr.heap[('f', exc.oid, '__unknown_class__')] = VBool(True)
        res = VStr(z3.String('raw_reply')) if what == 'reply' else VOpaque('result', ex.fresh_int(path, 'res'))
        return [(path, res), (pr, Raise(exc))]


def make_models():
    return Models14()


def unit_add(version, keykind, nports):
    def run(ctx):
        ctx.fn(MODULE, '_add_ephemeral_service')
        import txtorcon.onion as onion
        ex = ctx.ex
        path = ctx.new_path()
        H = path.heap
        svc = ex.new_inst(path, onion.EphemeralOnionService)
        o = svc.oid
        key = z3.String('key')
        ctx.input('key', VStr(key))
        if keykind == 'none':
            H[('f', o, '_private_key')] = NONE
        elif keykind == 'discard':
            H[('f', o, '_private_key')] = VConc(onion.DISCARD)
        else:
            H[('f', o, '_private_key')] = VStr(key)
            path.assume(z3.Length(key) > 0)
        ports = [z3.String('port%d' % i) for i in range(nports)]
        for i, pstr in enumerate(ports):
            ctx.input('port%d' % i, VStr(pstr))
            path.assume(z3.Contains(pstr, mk_str(' ')))     # "virt target" (output of _validate_ports)
        H[('f', o, '_ports')] = ex.new_list(path, [VStr(x) for x in ports])
        detach, single = z3.Bool('detach'), z3.Bool('single_hop')
        ctx.input('detach', detach)
        ctx.input('single_hop', single)
        H[('f', o, '_detach')] = VBool(detach)
        H[('f', o, '_single_hop')] = VBool(single)
        H[('f', o, '_hostname')] = NONE
        H[('g', 'eph_list')] = ex.new_list(path, [])
        ctx.cover('pre_satisfiable', path)
        mi, node = extract.find(MODULE, '_add_ephemeral_service')
        f = VFunc(node, MODULE, '_add_ephemeral_service')
        outs = ex.call(path, f, [VOpaque('config', 4000), svc, NONE, VInt(version), NONE, NONE], {})
        # ---- spec
        has_break = z3.Or(z3.Contains(key, mk_str('\r')), z3.Contains(key, mk_str('\n')))
        if keykind == 'supplied':
            prefix = 'RSA1024:' if version == 2 else 'ED25519-V3:'
            spec_key = z3.If(z3.Contains(key, mk_str(':')), key,
                             z3.If(z3.PrefixOf(mk_str(prefix), key), key, z3.Concat(mk_str(prefix), key)))
            refuse = z3.Or(z3.Contains(spec_key, mk_str('\r')), z3.Contains(spec_key, mk_str('\n')))
            if version == 3:
                refuse = z3.Or(refuse, z3.Not(z3.Contains(spec_key, mk_str('V3'))))
        else:
            spec_key = mk_str('NEW:BEST' if version == 2 else 'NEW:ED25519-V3')
            refuse = B(False)
        cmd_spec = z3.Concat(mk_str('ADD_ONION '), spec_key)
        for pstr in ports:
            sp = z3.IndexOf(pstr, mk_str(' '), 0)
            cmd_spec = z3.Concat(cmd_spec, mk_str(' Port='), z3.SubString(pstr, 0, sp), mk_str(','),
                                 z3.SubString(pstr, sp + 1, z3.Length(pstr)))
        flags = []
        fl = [(detach, 'Detach'), (B(keykind == 'discard'), 'DiscardPK'), (single, 'NonAnonymous')]
        # " Flags=a,b,c" for the requested subset, in that order
        def flags_text(sel):
            names = [n for (c, n), s_ in zip(fl, sel) if s_]
            return (' Flags=' + ','.join(names)) if names else ''
        import itertools
        ftxt = mk_str('')
        for sel in itertools.product([False, True], repeat=3):
            cond = zand(*[(c if s_ else z3.Not(c)) for (c, n), s_ in zip(fl, sel)])
            ftxt = z3.If(cond, mk_str(flags_text(sel)), ftxt)
        cmd_spec = z3.Concat(cmd_spec, ftxt)
        for p, r in outs:
            queued = ctx.models.glog(p, 'queued')
            awaited = ctx.models.glog(p, 'awaited')
            pk = p.heap[('f', o, '_private_key')]
            ctx.oblige('post.at_most_one_add_onion', p, B(len(queued) <= 1), clause='exactly one ADD_ONION')
            if keykind == 'discard':
                ctx.oblige('post.discarded_key_never_stored', p,
                           B(isinstance(pk, VNone) or (isinstance(pk, VConc) and pk.obj is onion.DISCARD)),
                           clause='with discard requested no key is ever stored')
            if len(queued) == 0:
                # nothing was sent: only allowed as a refusal
                ok_refusal = isinstance(r, Raise) and isinstance(r.exc, VInst) and r.exc.cls is ValueError
                ctx.oblige('post.nothing_sent_only_when_request_refused', p, z3.And(B(ok_refusal), refuse),
                           clause='key material containing line breaks is rejected with no ADD_ONION sent')
                continue
            ctx.oblige('post.refused_requests_send_nothing', p, z3.Not(refuse),
                       clause='key material containing line breaks is rejected with no ADD_ONION sent')
            cmd = queued[0]
            ctx.oblige('post.add_onion_carries_exactly_the_requested_service', p,
                       cmd.t == cmd_spec if isinstance(cmd, VStr) else B(False),
                       clause='key specifier, port mappings and flags correspond exactly to the request')
            wait_first = ctx.models.glog(p, 'upload_wait_started')
            ctx.oblige('post.upload_wait_subscribed_before_the_command', p, B(wait_first == [0]))
            if not isinstance(r, Raise):
                hn = p.heap[('f', o, '_hostname')]
                ctx.oblige('post.address_is_the_one_tor_returned', p,
                           hn.t == z3.Concat(z3.String('reply_ServiceID'), mk_str('.onion')) if isinstance(hn, VStr) else B(False),
                           clause="the service's address is the one Tor returned")
                if keykind == 'none':
                    ctx.oblige('post.generated_key_retained', p, B(isinstance(pk, VStr)),
                               clause='a key Tor generated is retained for the caller')
                elif keykind == 'supplied':
                    ctx.oblige('post.supplied_key_unchanged_apart_from_prefix', p, pk.t == spec_key if isinstance(pk, VStr) else B(False),
                               clause='a caller-supplied key is sent unchanged apart from its type prefix')
                else:
                    ctx.oblige('post.discard_leaves_no_key', p, B(isinstance(pk, VNone)))
    return run


class AuthModels14(Models14):
    """BasicAuth path: the reply is two lines, _add_client is logged"""
    def contract_for(self, ex, path, f, args, kw):
        if f.qualname.endswith('._add_client'):
            self.glog_add(path, 'add_client', (tuple(args), len(self.glog(path, 'queued'))))
            return [(path, NONE)]
        return Models14.contract_for(self, ex, path, f, args, kw)

    def split_hook(self, ex, path, s, args, kw):
        if len(args) == 1 and concrete_of(args[0]) == (True, '\n'):
            return [(path, ex.new_list(path, [VStr(z3.String('reply_line0')), VStr(z3.String('reply_line1'))]))]
        return Models14.split_hook(self, ex, path, s, args, kw)


def unit_add_auth():
    """_add_ephemeral_service with an AuthBasic of two clients (each with or without a supplied cookie)"""
    def run(ctx):
        ctx.fn(MODULE, '_add_ephemeral_service')
        ctx.fn(MODULE, '_AuthCommon.client_names')
        ctx.fn(MODULE, '_AuthCommon.keyblob_for')
        import txtorcon.onion as onion
        ex = ctx.ex
        path = ctx.new_path()
        H = path.heap
        svc = ex.new_inst(path, onion.EphemeralAuthenticatedOnionService)
        o = svc.oid
        H[('f', o, '_private_key')] = NONE
        port = z3.String('port0')
        path.assume(z3.Contains(port, mk_str(' ')))
        H[('f', o, '_ports')] = ex.new_list(path, [VStr(port)])
        H[('f', o, '_detach')] = VBool(False)
        H[('f', o, '_single_hop')] = VBool(False)
        H[('f', o, '_hostname')] = NONE
        H[('g', 'eph_list')] = ex.new_list(path, [])
        auth = ex.new_inst(path, onion.AuthBasic)
        names = [z3.String('client%d' % i) for i in range(2)]
        blobs = [z3.String('cookie%d' % i) for i in range(2)]
        has = [z3.Bool('client%d_has_cookie' % i) for i in range(2)]
        path.assume(names[0] != names[1])
        pre_pairs = []
        for i in range(2):
            ctx.input('client%d' % i, VStr(names[i]))
            ctx.input('cookie%d' % i, VStr(blobs[i]))
            ctx.input('client%d_has_cookie' % i, VBool(has[i]))
            pre_pairs.append((VStr(names[i]), VUnion([(has[i], VStr(blobs[i])), (z3.Not(has[i]), NONE)])))
        clients = ex.new_dict(path, pre_pairs)
        H[('f', auth.oid, '_clients')] = clients
        ctx.cover('pre_satisfiable', path)
        mi, node = extract.find(MODULE, '_add_ephemeral_service')
        f = VFunc(node, MODULE, '_add_ephemeral_service')
        outs = ex.call(path, f, [VOpaque('config', 4000), svc, NONE, VInt(2), auth, NONE], {})
        sp = z3.IndexOf(port, mk_str(' '), 0)
        cmd_spec = z3.Concat(mk_str('ADD_ONION NEW:BEST Port='), z3.SubString(port, 0, sp), mk_str(','), z3.SubString(port, sp + 1, z3.Length(port)))
        cmd_spec = z3.Concat(cmd_spec, mk_str(' Flags=BasicAuth'))
        for i in range(2):
            cmd_spec = z3.Concat(cmd_spec, mk_str(' ClientAuth='), names[i], z3.If(has[i], z3.Concat(mk_str(':'), blobs[i]), mk_str('')))
        n_ok = 0
        for p, r in outs:
            queued = ctx.models.glog(p, 'queued')
            ctx.oblige('post.at_most_one_add_onion', p, B(len(queued) <= 1), clause='exactly one ADD_ONION')
            now = p.heap[('dict', p.heap[('f', auth.oid, '_clients')].did)]
            same = len(now) == 2 and all(now[i][0] is pre_pairs[i][0] and now[i][1] is pre_pairs[i][1] for i in range(2))
            ctx.oblige('post.the_request_object_is_not_modified', p, B(same),
                       clause='client-authentication entries correspond exactly to the request (also for the next service created from the same AuthBasic)')
            if queued:
                cmd = queued[0]
                ctx.oblige('post.add_onion_carries_exactly_the_requested_clients', p, cmd.t == cmd_spec if isinstance(cmd, VStr) else B(False),
                           clause='flags and client-authentication entries correspond exactly to the requested options')
            if isinstance(r, Raise):
                continue
            n_ok += 1
            added = ctx.models.glog(p, 'add_client')
            before = [a for a in added if a[1] == 0]
            after = [a for a in added if a[1] == 1]
            # supplied cookies are known to the service before the command; generated ones come from the reply lines
            exp_before = sum([z3.If(h, 1, 0) for h in has])
            ctx.oblige('post.supplied_cookies_recorded', p, z3.IntVal(len(before)) == exp_before)
            ok_after = all(len(a[0]) == 2 and isinstance(a[0][0], VStr) and isinstance(a[0][1], VStr) for a in after)
            RL = [z3.String('reply_line0'), z3.String('reply_line1')]
            match = [z3.PrefixOf(mk_str('ClientAuth='), l) for l in RL]

            def parts(l):
                rest = z3.SubString(l, 11, z3.Length(l))
                idx = z3.IndexOf(rest, mk_str(':'), 0)
                return z3.SubString(rest, 0, idx), z3.SubString(rest, idx + 1, z3.Length(rest))

            def is_from(a, l):
                nm, bl = parts(l)
                return z3.And(a[0][0].t == nm, a[0][1].t == bl)
            if not ok_after or len(after) > 2:
                g = B(False)
            elif len(after) == 0:
                g = z3.Not(z3.Or(*match))
            elif len(after) == 1:
                g = z3.Or(z3.And(match[0], z3.Not(match[1]), is_from(after[0], RL[0])), z3.And(z3.Not(match[0]), match[1], is_from(after[0], RL[1])))
            else:
                g = z3.And(match[0], match[1], is_from(after[0], RL[0]), is_from(after[1], RL[1]))
            ctx.oblige('post.generated_cookies_taken_from_the_reply_lines', p, g,
                       clause='client-authentication credentials Tor generated are taken from its reply')
        if not n_ok:
            ctx.oblige('some_normal_exit', path, B(False))
    return run


def unit_auth_init(shape):
    """_AuthCommon.__init__ over three client entries; shape: one letter per entry, 't' = (name, cookie) tuple, 'n' = bare name.
    This establishes the _clients map the auth_basic unit starts from."""
    def run(ctx):
        ctx.fn(MODULE, '_AuthCommon.__init__')
        import txtorcon.onion as onion
        ex = ctx.ex
        path = ctx.new_path()
        auth = ex.new_inst(path, onion.AuthBasic)
        names = [z3.String('client%d' % i) for i in range(len(shape))]
        blobs = [z3.String('cookie%d' % i) for i in range(len(shape))]
        for i in range(len(shape)):
            ctx.input('client%d' % i, VStr(names[i]))
            for j in range(i):
                path.assume(names[i] != names[j])
        entries = [VTuple([VStr(names[i]), VStr(blobs[i])]) if c == 't' else VStr(names[i]) for i, c in enumerate(shape)]
        spaced = zor(*[z3.Contains(n_, mk_str(' ')) for n_ in names])
        ctx.cover('pre_satisfiable', path)
        ctx.cover('pre_no_spaces', path, z3.Not(spaced))
        n_ok = 0
        outs = ex.getattr_v(path, auth, '__init__')
        for p, r in ex.call(outs[0][0], outs[0][1], [ex.new_list(path, entries)], {}):
            if isinstance(r, Raise):
                ctx.oblige('post.refused_only_for_a_name_with_a_space', p,
                           zand(B(isinstance(r.exc, VInst) and r.exc.cls is ValueError), spaced))
                continue
            n_ok += 1
            cl = p.heap.get(('f', auth.oid, '_clients'))
            pairs = p.heap[('dict', cl.did)] if isinstance(cl, VDictLit) else None
            ok = pairs is not None and len(pairs) == len(shape) and all(isinstance(k, VStr) for k, _ in pairs)
            goals = []
            if ok:
                for i, c in enumerate(shape):
                    k, v = pairs[i]
                    goals.append(k.t == names[i])
                    goals.append(zand(B(isinstance(v, VStr)), v.t == blobs[i]) if c == 't' and isinstance(v, VStr)
                                 else B(c == 'n' and isinstance(v, VNone)))
            ctx.oblige('post.each_client_keeps_exactly_its_own_cookie_or_none', p, zand(B(ok), *goals) if ok else B(False),
                       clause='client-authentication entries correspond exactly to the request: a client given without a cookie has none '
                              '(Tor generates it), a client given with one keeps that one')
            ctx.oblige('post.accepted_names_have_no_space', p, z3.Not(spaced))
        if not n_ok:
            ctx.oblige('some_normal_exit', path, B(False))
    return run


class InitModels14(Models14):
    def contract_for(self, ex, path, f, args, kw):
        if f.qualname == '_validate_ports_low_level':
            # (port forms: bounded twin) accepted ports pass through unchanged
            return [(path, NONE)]
        return Models14.contract_for(self, ex, path, f, args, kw)


def unit_service_init(clsname):
    """the service object that _add_ephemeral_service reads its command from stores the caller's key, ports, version and flags
    exactly as given (the line-break guard and the type prefix are applied to *that* key)"""
    def run(ctx):
        ctx.fn(MODULE, clsname + '.__init__')
        import txtorcon.onion as onion
        ex = ctx.ex
        path = ctx.new_path()
        cls = getattr(onion, clsname)
        svc = ex.new_inst(path, cls)
        key = VStr(z3.String('private_key'))
        ctx.input('private_key', key)
        ports = ex.new_list(path, [VStr(z3.String('port0'))])
        cfg = VOpaque('config', 4000)
        kw = {'private_key': key, 'version': VInt(z3.Int('version')), 'detach': VBool(z3.Bool('detach')), 'single_hop': VBool(z3.Bool('single_hop'))}
        ctx.cover('pre_satisfiable', path)
        g = ex.getattr_v(path, svc, '__init__')
        n_ok = 0
        for p, r in ex.call(g[0][0], g[0][1], [cfg, ports], kw):
            if isinstance(r, Raise):
                ctx.oblige('no_exception', p, B(False))
                continue
            n_ok += 1
            H = p.heap
            o = svc.oid
            ctx.oblige('post.key_ports_version_and_flags_are_stored_exactly_as_given', p,
                       B(H.get(('f', o, '_private_key')) is key and H.get(('f', o, '_ports')) is ports and H.get(('f', o, '_config')) is cfg
                         and H.get(('f', o, '_version')) is kw['version'] and H.get(('f', o, '_detach')) is kw['detach']
                         and H.get(('f', o, '_single_hop')) is kw['single_hop']),
                       clause='a caller-supplied key is sent unchanged apart from its type prefix, and key material containing line breaks is rejected')
        if not n_ok:
            ctx.oblige('some_normal_exit', path, B(False))
    return run


def make_models_for(unit_name):
    if '.__init__' in unit_name:
        return InitModels14()
    return AuthModels14() if '/auth' in unit_name else Models14()


def unit_remove():
    def run(ctx):
        ctx.fn(MODULE, 'EphemeralOnionService.remove')
        import txtorcon.onion as onion
        ex = ctx.ex
        path = ctx.new_path()
        svc = ex.new_inst(path, onion.EphemeralOnionService)
        sid = z3.String('service_id')
        ctx.input('service_id', VStr(sid))
        path.heap[('f', svc.oid, '_hostname')] = VStr(z3.Concat(sid, mk_str('.onion')))
        path.heap[('f', svc.oid, '_config')] = VOpaque('config', 4000)
        ctx.cover('pre_satisfiable', path)
        outs = ex.getattr_v(path, svc, 'remove')
        outs = ex.call(outs[0][0], outs[0][1], [], {})
        for p, r in outs:
            queued = ctx.models.glog(p, 'queued')
            ok = len(queued) == 1 and isinstance(queued[0], VStr)
            ctx.oblige('post.del_onion_for_exactly_that_address', p,
                       zand(B(ok), queued[0].t == z3.Concat(mk_str('DEL_ONION '), sid)) if ok else B(False),
                       clause='removing the service sends DEL_ONION for exactly that address')
    return run


def units():
    out = []
    for version in (2, 3):
        for keykind in ('none', 'discard', 'supplied'):
            for nports in (1, 2):
                out.append(('C14/add/v%d/%s/%dports' % (version, keykind, nports), unit_add(version, keykind, nports)))
    out.append(('C14/add/auth_basic', unit_add_auth()))
    for shape in ('tn', 'nt', 'tnt', 'ntn', 'tt', 'nn'):
        out.append(('C14/auth_clients@%s' % shape, unit_auth_init(shape)))
    out.append(('C14/remove', unit_remove()))
    for c in ('EphemeralOnionService', 'EphemeralAuthenticatedOnionService'):
        out.append(('C14/%s.__init__' % c, unit_service_init(c)))
    return out


# ==========================================================================================
from pyvc.report import adopt_twin
FINDING_PATTERNS = []
twin, _replay_twin = adopt_twin('twin.tC14', FINDING_PATTERNS)


def replay(unit, name, model):
    """native replay of a solver model on the real classes (props/replay_misc.py)"""
    from props import replay_misc
    return replay_misc.replay(unit, name, model)


def replay_file(doc):
    if doc.get('kind') == 'twin':
        return _replay_twin(doc)
    unit, name = doc['obligation'].split('::')
    return replay(unit, name, doc['model'])
