"""Native replay of proof counterexamples for C20 (Addr.update / AddrMap.update): the model gives the old
state (from the unit name), the clock `now`, the old expiry `e0` and the new expiry `E` in integer seconds and
the address text; a real AddrMap is driven on a task.Clock with utcnow() following that clock, and the moment
at which the name stops resolving is compared with the statement (exactly at max(E, now); never for NEVER;
at once for <error>)."""
import datetime
import re

from twin import control_session as _CS  # noqa: F401  (silences Twisted's stderr logging)

FMT = '%Y-%m-%d %H:%M:%S'
BASE = datetime.datetime(2030, 1, 1, 0, 0, 0)
LIMIT = 20 * 365 * 86400


class _Heard(object):
    def __init__(self):
        self.added, self.expired = [], []

    def addrmap_added(self, addr):
        self.added.append(addr.name)

    def addrmap_expired(self, name):
        self.expired.append(name)


def _clamp(x):
    try:
        x = int(x)
    except Exception:
        return None
    if abs(x) > LIMIT:
        return None
    return x


def replay_update(old, shape, model):
    from twisted.internet import task
    from zope.interface import directlyProvides
    import txtorcon.addrmap as am
    from txtorcon.interface import IAddrListener
    now = _clamp(model.get('now', 1000))
    E = _clamp(model.get('E', 2000))
    e0 = _clamp(model.get('e0', 1500))
    if now is None or E is None or (old == 'timed' and e0 is None):
        return {'reproduced': False, 'what': 'model times are outside the range the native clock can represent'}
    name = 'www.example.com'
    ip = model.get('ip') or '10.0.0.2'
    third = model.get('third') or ''
    is_err = ip == '<error>'
    never = bool(re.fullmatch(r'(?i)never', third)) if shape == 'plain' else bool(re.fullmatch(r'(?i)expires=never', model.get('fourth') or ''))
    if not is_err and (not re.fullmatch(r'[0-9a-fA-F:.]+', ip) or ' ' in ip):
        ip = '10.0.0.2'
    clock = task.Clock()

    class FakeDT(datetime.datetime):
        @classmethod
        def utcnow(cls):
            return BASE + datetime.timedelta(seconds=clock.seconds())

        @classmethod
        def now(cls, tz=None):
            return BASE + datetime.timedelta(seconds=clock.seconds())

    _dt = datetime

    class FakeMod(object):
        datetime = FakeDT
        timedelta = _dt.timedelta
    real = am.datetime
    am.datetime = FakeMod
    try:
        m = am.AddrMap()
        m.scheduler = clock
        h = _Heard()
        directlyProvides(h, IAddrListener)
        m.add_listener(h)

        def stamp(sec):
            return (BASE + datetime.timedelta(seconds=sec)).strftime(FMT)

        def line(ipaddr, expiry):      # expiry: seconds | 'NEVER'
            ex = expiry if isinstance(expiry, str) else stamp(expiry)
            if shape == 'plain':
                return '%s %s "%s"' % (name, ipaddr, ex)
            return '%s %s "%s" EXPIRES="%s" CACHED="NO"' % (name, ipaddr, ex, ex)
        start = max(0, now - 10)
        clock.advance(start)
        if old == 'timed':
            m.update(line('10.0.0.1', max(e0, now + 1)))
        elif old == 'never':
            if model.get('had_a_timed_expiry_before'):
                # the entry was a timed mapping first: its cancelled DelayedCall stays in Addr.expiry
                m.update(line('10.0.0.1', now + 3600))
            m.update(line('10.0.0.1', 'NEVER'))
        clock.advance(now - start)
        problems = []
        try:
            m.update(line(ip, 'NEVER' if never else E))
        except Exception as e:
            return {'reproduced': True, 'what': 'update raised %r' % (e,)}

        def has():
            try:
                m.find(name)
                return True
            except KeyError:
                return False
        if is_err and old == 'new':
            # an error for a name the map knows nothing about: nothing to drop, nothing to announce
            if has() or h.expired or h.added or clock.getDelayedCalls():
                problems.append('<error> for an unknown name: resolvable=%r added=%r expired=%r' % (has(), h.added, h.expired))
        elif is_err:
            if has() or h.expired != [name] or clock.getDelayedCalls():
                problems.append('<error> mapping: resolvable=%r expired=%r pending calls=%d' % (has(), h.expired, len(clock.getDelayedCalls())))
        elif never:
            clock.advance(10 * 365 * 86400)
            if not has() or h.expired:
                problems.append('NEVER mapping: resolvable=%r expired=%r after 10 years' % (has(), h.expired))
        else:
            due = max(E, now)
            if due - now > 1:
                clock.advance(due - now - 1)
                if not has():
                    problems.append('name gone %d s before its expiry (now=%d, E=%d)' % (due - clock.seconds(), now, E))
            clock.advance(max(0, due - clock.seconds()))
            clock.advance(0)
            if has():
                problems.append('name still resolvable at its expiry (now=%d, E=%d, pending due at %r)'
                                % (now, E, [c.getTime() for c in clock.getDelayedCalls()]))
            clock.advance(10 * 365 * 86400)
            if h.expired != [name]:
                problems.append("'expired' notifications %r, expected exactly one" % (h.expired,))
        return {'reproduced': bool(problems), 'what': '; '.join(problems) or 'the real AddrMap behaves as the clause says on this input',
                'scenario': {'old': old, 'shape': shape, 'now': now, 'e0': e0, 'E': E, 'never': never, 'error': is_err}}
    finally:
        am.datetime = real


def replay(unit, name, model):
    model = model or {}
    part = unit.split('/', 1)[1]
    m = re.match(r'Addr\.update@(new|timed|never)/(plain|utc)$', part)
    if m:
        return replay_update(m.group(1), m.group(2), model)
    return {'reproduced': False, 'what': 'no native replay for proof counterexamples of this unit'}
