"""C04 -- authentication order, method preference and SAFECOOKIE proof discipline.

Proof units on the real TorControlProtocol code:
  connectionMade / _auth_failed            PROTOCOLINFO first; every failure funnels into one errback of the ready notification
  _do_authenticate@<cookie outcome>        method preference over every advertised subset, cookie-file condition and provider presence
  _read_cookie                             only a 32-byte cookie is accepted
  authenticate                             AUTHENTICATE carries the hex of the token
  _safecookie_authchallenge                the proof is sent only after the server hash over cookie and both nonces verified; never the cookie
  _do_password_authentication              empty password refused; otherwise AUTHENTICATE, bootstrap, failures to _auth_failed
  _bootstrap                               ready fires once, after every query succeeded; any failing query fails the chain (signal/names 5xx: known finding)
unescape_quoted_string (regex based) and whole sessions with a scripted server are decided by the bounded twin."""
import z3

from pyvc.exec import Raise, Unsupported
from pyvc.sym import (VInt, VBool, VStr, VBytes, VNone, NONE, VTuple, VInst, VOpaque, VUnion, VConc, VFunc, VSeq, VList, VBoundExt,
                      VMap, VDictLit, concrete_of, mk_str, zand, zor)
from pyvc import extract
from contracts.torstate import StateModels, StopUnit

PROP = 'C04'
MODULE = 'txtorcon.torcontrolprotocol'
F_SIGNAMES = 'signal-names-refusal-tolerated'
TRUSTED = [
    'A3 Deferred / inlineCallbacks semantics; defer.maybeDeferred calls the provider exactly once; util.maybe_coroutine awaits coroutines',
    'queue_command contract (C01): the command text is written verbatim as one line, one at a time, in order; its Deferred carries the reply or the 5xx error',
    'HMAC-SHA256 is an uninterpreted function of (key, message) without collisions (compare_via_hash is checked against result == (x == y) under that assumption)',
    'base64.b16decode / b16encode and binascii.b2a_hex are mutually inverse text codecs (uninterpreted, injective)',
    'parse_keywords on "K=v" fields yields those pairs (C13); the PROTOCOLINFO reply is split at newlines; re.search finds the COOKIEFILE field if present',
    'unescape_quoted_string (regular-expression code) is outside the VC generator: bounded twin (exhaustive short escape strings + real cookie files on disk)',
    'os.urandom(32) returns 32 fresh bytes; open(path, "rb").read() returns the file content or raises IOError/OSError',
    'pyvc semantics; z3/cvc5',
]
LEVEL = 'proof'
MANIFEST = {
    'category': 'proof',
    'technique': 'contract-based deductive verification of the real connectionMade, _auth_failed, _do_authenticate, _read_cookie, authenticate, _safecookie_authchallenge, '
                 '_do_password_authentication and _bootstrap with every await allowed to fail (pyvc VCs, z3/cvc5); bounded CPython twin: whole sessions against a scripted '
                 'server over all method subsets, cookie-file conditions, providers and server behaviours, and exhaustive short inputs of unescape_quoted_string',
    'text': 'Proved for every subset of advertised methods, cookie-file condition (no COOKIEFILE field, unreadable, wrong length, 32 bytes) and provider presence: '
            'connectionMade sends only PROTOCOLINFO 1; _do_authenticate sends at most one command and it is AUTHCHALLENGE SAFECOOKIE <hex nonce> when SAFECOOKIE is '
            'advertised and the cookie is usable, else AUTHENTICATE <hex cookie> for COOKIE, else it consults the password provider (exactly once, only when no cookie '
            'method is usable and HASHEDPASSWORD is advertised), else AUTHENTICATE for NULL, else fails; a cookie that is not 32 bytes is refused. '
            '_safecookie_authchallenge sends AUTHENTICATE <hex HMAC(controller-to-server key, cookie+nonces)> only when the server hash equals HMAC(server-to-controller key, '
            'cookie+client nonce+server nonce) and otherwise raises with nothing sent; the cookie itself is never part of a command. _bootstrap fires the ready notification '
            'exactly once, after all four bootstrap commands succeeded, and fails (ready untouched, failure propagated to _auth_failed) when any of them fails; '
            '_auth_failed fails the ready notification exactly once.',
    'level_note': 'Known finding: a 5xx answer to GETINFO signal/names is tolerated (pinned by an existing test). Bounded (B): whole sessions (segmentation of replies, '
                  'malformed challenge replies, disconnects at each step, deferred / coroutine providers), unescape_quoted_string - twin. '
                  'Assumed (A): HMAC / hex codecs uninterpreted, keyword extraction, Deferred semantics.',
}


def B(x):
    return z3.BoolVal(bool(x))


S = z3.StringSort()
F_hmac = z3.Function('hmac_sha256', S, S, S)
F_b16d = z3.Function('b16decode', S, S)
F_hex = z3.Function('b2a_hex', S, S)
F_upper = z3.Function('ascii_upper', S, S)


def F_b16e(x):
    """base64.b16encode(x) is, by definition, the upper-case form of binascii.hexlify(x)"""
    return F_upper(F_hex(x))
K_S2C = "Tor safe cookie authentication server-to-controller hash"
K_C2S = "Tor safe cookie authentication controller-to-server hash"
METHODS = ('SAFECOOKIE', 'COOKIE', 'HASHEDPASSWORD', 'NULL')


class Models04(StateModels):
    def __init__(self):
        StateModels.__init__(self)
        self.await_script = None

    # ---- externals
    def callable_(self, ex, path, obj, args, kw):
        import re
        import os
        import base64
        import binascii
        if obj is re.search:
            has = z3.Bool('has_cookiefile_field')
            return [(path, VUnion([(has, VOpaque('match', 1)), (z3.Not(has), NONE)]))]
        if obj is os.urandom:
            n = z3.String('client_nonce')
            path.assume(z3.Length(n) == 32)
            self.glog_add(path, 'urandom', VBytes(n))
            return [(path, VBytes(n))]
        if obj is os.fsdecode:
            return [(path, VStr(z3.String('cookie_path')))]
        if obj in (binascii.hexlify, binascii.b2a_hex):
            return [(path, VBytes(F_hex(args[0].t)))]
        if obj is base64.b16decode:
            return [(path, VBytes(F_b16d(args[0].t)))]
        if obj is base64.b16encode:
            return [(path, VBytes(F_b16e(args[0].t)))]
        if obj is open:
            return [(path, VOpaque('file', 3))]
        return StateModels.callable_(self, ex, path, obj, args, kw)

    def contract_for(self, ex, path, f, args, kw):
        q = f.qualname
        if q == 'hmac_sha256':
            self.glog_add(path, 'hmac_keys', args[0].t)
            return [(path, VBytes(F_hmac(args[0].t, args[1].t)))]
        if q == 'compare_via_hash' and not path.heap.get(('g', 'inline_compare')):
            # contract, discharged against the body by unit C04/compare_via_hash
            return [(path, VBool(args[0].t == args[1].t))]
        if q == 'unescape_quoted_string':
            return [(path, VStr(z3.String('cookie_path_unescaped')))]
        if q == 'parse_keywords':
            return [(path, VOpaque('kw', 4))]
        if q == 'maybe_coroutine':
            return [(path, args[0])]
        if q == 'TorControlProtocol.queue_command':
            d = VOpaque('Deferred', ex.fresh_int(path, 'cmdd'))
            self.glog_add(path, 'queued', (args[0], d))
            return [(path, d)]
        if q == 'TorControlProtocol.get_info':
            d = VOpaque('Deferred', ex.fresh_int(path, 'infod'))
            self.glog_add(path, 'queued', (VStr(z3.Concat(mk_str('GETINFO '), args[0].t)), d))
            return [(path, d)]
        if q == 'TorControlProtocol._read_cookie' and path.heap.get(('g', 'summarise_read_cookie')):
            # outcomes: 32-byte cookie stored | IOError | RuntimeError (wrong length)
            slf = f.bound
            out = []
            ok, io, bad = z3.Bool('cookie_readable_32'), z3.Bool('cookie_unreadable'), z3.Bool('cookie_wrong_length')
            for cond, kind in ((ok, 'ok'), (io, 'io'), (bad, 'bad')):
                p = path.fork()
                if ex.feasible(p, cond) == 'no':
                    continue
                p.assume(cond)
                self.glog_add(p, 'read_cookie', args[0])
                if kind == 'ok':
                    c = z3.String('cookie')
                    p.assume(z3.Length(c) == 32)
                    p.heap[('f', ex.oid_of(slf), '_cookie_data')] = VBytes(c)
                    out.append((p, NONE))
                elif kind == 'io':
                    p.heap[('f', ex.oid_of(slf), '_cookie_data')] = NONE
                    out.extend(ex.raise_(p, IOError, 'unreadable'))
                else:
                    p.heap[('f', ex.oid_of(slf), '_cookie_data')] = VBytes(z3.String('short_cookie'))
                    out.extend(ex.raise_(p, RuntimeError, 'Expected authentication cookie to be 32 bytes'))
            return out
        if q == 'TorControlProtocol._set_valid_events':
            return [(path, NONE)]
        if path.heap.get(('g', 'summarise_steps')) and q in ('TorControlProtocol._do_authenticate', 'TorControlProtocol._auth_failed',
                                                              'TorControlProtocol._safecookie_authchallenge', 'TorControlProtocol._bootstrap',
                                                              'TorControlProtocol._do_password_authentication'):
            # the next step of the authentication sequence (each is a unit of its own): logged with its argument
            r = VOpaque('step_result', ex.fresh_int(path, 'step'))
            self.glog_add(path, 'steps', (q.split('.')[-1], args[0] if args else NONE, r))
            return [(path, r)]
        return StateModels.contract_for(self, ex, path, f, args, kw)

    def method(self, ex, path, recv, name, args, kw):
        if isinstance(recv, VOpaque):
            if recv.kind == 'match' and name == 'group':
                return [(path, VStr(z3.String('cookiefile_quoted')))]
            if recv.kind == 'file' and name == 'read':
                pio = path.fork()
                b = ex.fresh_bool(pio, 'read_fails')
                pio.assume(b)
                path.assume(z3.Not(b))
                return [(path, VBytes(z3.String('file_content')))] + ex.raise_(pio, IOError, 'read failed')
            if recv.kind == 'methods' and name == '__contains__':
                pass
        return StateModels.method(self, ex, path, recv, name, args, kw)

    def split_hook(self, ex, path, s, args, kw):
        if len(args) == 1 and concrete_of(args[0]) == (True, '\n'):
            # the reply has an AUTH line (or not): concrete spine of three lines
            has_auth = path.heap.get(('g', 'has_auth_line'), True)
            lines = [VStr('PROTOCOLINFO 1')] + ([VStr(z3.Concat(mk_str('AUTH '), z3.String('auth_fields')))] if has_auth else []) + \
                    [VStr(z3.Concat(mk_str('VERSION Tor='), z3.String('version_text')))]
            return [(path, ex.new_list(path, lines))]
        if len(args) == 1 and concrete_of(args[0]) == (True, ','):
            # the advertised methods in Tor's order: four symbolic tokens (any subset, any order, repetitions allowed)
            return [(path, ex.new_list(path, [VStr(z3.String('method%d' % i)) for i in range(4)]))]
        if len(args) == 2 and concrete_of(args[0]) == (True, ' '):
            return [(path, ex.new_list(path, [VStr(z3.String('methods_field')), VStr(z3.String('rest_of_auth_line'))]))]
        return StateModels.split_hook(self, ex, path, s, args, kw)

    def index(self, ex, path, o, i):
        if isinstance(o, VOpaque) and o.kind == 'kw':
            ok, k = concrete_of(i)
            if ok and k == 'METHODS':
                return [(path, VStr(z3.String('methods_text')))]
            if ok and k in ('SERVERHASH', 'SERVERNONCE'):
                present = z3.Bool('reply_has_' + k)
                out = []
                pt, pf = ex.branch(path, present)
                if pt is not None:
                    out.append((pt, VStr(z3.String('reply_' + k))))
                if pf is not None:
                    out.extend(ex.raise_(pf, KeyError, k))
                return out
        if isinstance(o, VOpaque) and o.kind == 'result':
            return [(path, VOpaque('value', ex.fresh_int(path, 'val')))]
        return StateModels.index(self, ex, path, o, i)

    def contains(self, ex, path, c, item):
        if isinstance(c, VOpaque) and c.kind == 'methods':
            ok, k = concrete_of(item)
            if ok and k in METHODS:
                return [(path, z3.Bool('advertised_' + k))]
        return StateModels.contains(self, ex, path, c, item)

    def truth(self, ex, path, v):
        if isinstance(v, VOpaque) and v.kind == 'methods':
            return z3.BoolVal(True)         # ''.split(',') is [''], never empty
        return None

    def str_method(self, ex, path, s, name, args, kw):
        if name == 'encode' and len(args) == 1 and concrete_of(args[0]) == (True, 'latin-1'):
            self.assumptions.add('the unescaped cookie path has only code points < 256 (ASCII line + octal escapes): latin-1 encoding is the identity on them')
            return [(path, VBytes(s.t))]
        if name == 'upper' and not args and not concrete_of(s)[0] and s.t.decl().name() in ('b2a_hex',):
            return [(path, type(s)(F_upper(s.t)))]      # hexlify(x).upper() == b16encode(x)
        if name == 'replace' and len(args) == 2 and concrete_of(args[0]) == (True, ' ') and concrete_of(args[1]) == (True, '\n'):
            return [(path, VStr(z3.String('reply_fields')))]      # only handed to parse_keywords (contract)
        return StateModels.str_method(self, ex, path, s, name, args, kw)

    def opaque_attr(self, ex, path, obj, name):
        return [(path, VBoundExt(obj, name))]

    def await_(self, ex, path, fr, v, node):
        n = len(self.glog(path, 'awaited'))
        self.glog_add(path, 'awaited', v)
        self.assumptions.add('A3 inlineCallbacks: a yield resumes with the Deferred result or throws its failure into the generator')
        import txtorcon.torcontrolprotocol as tcp
        out = []
        fail5 = z3.Bool('await%d_fails_5xx' % n)
        failo = z3.Bool('await%d_fails_otherwise' % n)
        p5, po = path.fork(), path.fork()
        p5.assume(fail5)
        p5.assume(z3.Not(failo))
        po.assume(failo)
        po.assume(z3.Not(fail5))
        path.assume(z3.Not(fail5))
        path.assume(z3.Not(failo))
        e5 = ex.new_inst(p5, tcp.TorProtocolError, args=VTuple([VStr('refused')]), code=VInt(552), text=VStr('refused'))
        eo = ex.new_inst(po, tcp.TorDisconnectError, args=VTuple([VStr('connection lost')]), text=VStr('connection lost'), error=NONE)
        return [(path, VOpaque('result', ex.fresh_int(path, 'res'))), (p5, Raise(e5)), (po, Raise(eo))]


def make_models():
    return Models04()


def _fns(ctx):
    for q in ('connectionMade', '_auth_failed', '_do_authenticate', '_read_cookie', 'authenticate', '_safecookie_authchallenge',
              '_do_password_authentication', '_bootstrap', 'protocolinfo'):
        ctx.fn(MODULE, 'TorControlProtocol.' + q)


def _proto(ctx, path):
    import txtorcon.torcontrolprotocol as tcp
    ex = ctx.ex
    pr = ex.new_inst(path, tcp.TorControlProtocol)
    H = path.heap
    o = pr.oid
    H[('f', o, '_cookie_data')] = NONE
    H[('f', o, 'client_nonce')] = NONE
    has_pw = z3.Bool('has_password_provider')
    H[('f', o, 'password_function')] = VUnion([(has_pw, VOpaque('provider', 8)), (z3.Not(has_pw), NONE)])
    H[('f', o, 'post_bootstrap')] = VOpaque('Deferred', 700)
    H[('f', o, 'valid_signals')] = NONE
    H[('f', o, 'version')] = NONE
    return pr


def _call(ctx, path, obj, meth, args=()):
    g = ctx.ex.getattr_v(path, obj, meth)
    return ctx.ex.call(g[0][0], g[0][1], list(args), {})


def _steps_after(ctx, p, deferred, value, failed=False):
    """run the callbacks registered on `deferred` on a symbolic result / failure; -> [(path, [step names...], steps)]"""
    from pyvc import chain as CH
    q = p.fork()
    q.heap[('g', 'summarise_steps')] = True
    n0 = len(ctx.models.glog(q, 'steps'))
    entries = CH.entries_of(ctx.models.glog(q, 'chain'), deferred)
    out = []
    for q2, v, bad in CH.run(ctx.ex, q, entries, value, failed=failed, models=ctx.models):
        st = ctx.models.glog(q2, 'steps')[n0:]
        out.append((q2, [x[0] for x in st], st, v, bad))
    return out


def _is_cb(c, kind, qual):
    return c[1] == kind and len(c[2]) >= 1 and isinstance(c[2][0], VFunc) and c[2][0].qualname.split('.')[-1] == qual


def unit_connection_made():
    def run(ctx):
        _fns(ctx)
        ex = ctx.ex
        path = ctx.new_path()
        pr = _proto(ctx, path)
        ctx.cover('pre_satisfiable', path)
        # the disconnect observer and the queue the constructor made are the ones requests made *before* the connection hold
        path.heap[('f', pr.oid, '_when_disconnected')] = VOpaque('observer', 710)
        fields0 = {k: v for k, v in path.heap.items() if k[0] == 'f' and k[1] == pr.oid}
        for p, r in _call(ctx, path, pr, 'connectionMade'):
            if isinstance(r, Raise):
                ctx.oblige('no_exception', p, B(False))
                continue
            fields1 = {k: v for k, v in p.heap.items() if k[0] == 'f' and k[1] == pr.oid}
            ctx.oblige('frame.connecting_replaces_no_protocol_state', p,
                       B(all(k in fields1 and fields1[k] is fields0[k] for k in fields0)),     # (new attributes are nobody's business)
                       clause='every request to be told about disconnection, made before or after the loss (also before the transport is attached), is notified exactly once')
            q = ctx.models.glog(p, 'queued')
            chain = ctx.models.glog(p, 'chain')
            ok = len(q) == 1 and concrete_of(q[0][0]) == (True, 'PROTOCOLINFO 1')
            ctx.oblige('post.only_protocolinfo_is_sent_first', p, B(ok),
                       clause='until Tor has accepted authentication the client sends nothing but PROTOCOLINFO, AUTHCHALLENGE and AUTHENTICATE')
            if ok:
                reply = VStr(z3.String('protocolinfo_reply'))
                for q2, names, st, v, bad in _steps_after(ctx, p, q[0][1], reply):
                    ctx.oblige('post.reply_goes_to_method_selection', q2, B(names == ['_do_authenticate'] and st[0][1] is reply),
                               clause='the reply to PROTOCOLINFO decides the authentication method')
                fail = VOpaque('failure', 31)
                for q2, names, st, v, bad in _steps_after(ctx, p, q[0][1], fail, failed=True):
                    ctx.oblige('post.failures_go_to_the_one_errback', q2, B(names == ['_auth_failed'] and st[0][1] is fail),
                               clause='failure funnels into one errback of the ready notification')
    return run


def unit_auth_failed():
    def run(ctx):
        _fns(ctx)
        ex = ctx.ex
        path = ctx.new_path()
        pr = _proto(ctx, path)
        fail = VOpaque('failure', 9)
        for p, r in _call(ctx, path, pr, '_auth_failed', [fail]):
            fired = ctx.models.glog(p, 'fired')
            ok = (not isinstance(r, Raise)) and len(fired) == 1 and fired[0][0].kind == 'Deferred' and str(fired[0][0].t) == '700' \
                and fired[0][1] == 'err' and fired[0][2] is fail and isinstance(r, VNone)
            ctx.oblige('post.ready_notification_fails_exactly_once_with_the_failure', p, B(ok),
                       clause="the connection's ready notification fires exactly once - failure otherwise")
            ctx.oblige('post.nothing_sent', p, B(len(ctx.models.glog(p, 'queued')) == 0))
    return run


def unit_do_authenticate():
    def run(ctx):
        _fns(ctx)
        ex = ctx.ex
        path = ctx.new_path()
        pr = _proto(ctx, path)
        o = pr.oid
        path.heap[('g', 'summarise_read_cookie')] = True
        MT = [z3.String('method%d' % i) for i in range(4)]
        for i, t in enumerate(MT):
            ctx.input('method%d' % i, VStr(t))
        adv = {m: z3.Or(*[t == mk_str(m) for t in MT]) for m in METHODS}
        has_cf = z3.Bool('has_cookiefile_field')
        c_ok, c_io, c_bad = z3.Bool('cookie_readable_32'), z3.Bool('cookie_unreadable'), z3.Bool('cookie_wrong_length')
        has_pw = z3.Bool('has_password_provider')
        for b in [has_cf, c_ok, c_io, c_bad, has_pw]:
            ctx.input(str(b), VBool(b))
        # exactly one cookie-file condition
        path.assume(z3.Or(c_ok, c_io, c_bad))
        path.assume(z3.Not(z3.And(c_ok, c_io)))
        path.assume(z3.Not(z3.And(c_ok, c_bad)))
        path.assume(z3.Not(z3.And(c_io, c_bad)))
        cookie_method = z3.Or(adv['SAFECOOKIE'], adv['COOKIE'])
        usable = z3.And(cookie_method, has_cf, c_ok)
        pw_ok = z3.And(has_pw, adv['HASHEDPASSWORD'])
        ctx.cover('pre_satisfiable', path)
        ctx.cover('pre_safecookie', path, z3.And(usable, adv['SAFECOOKIE']))
        ctx.cover('pre_fallback_password', path, z3.And(cookie_method, has_cf, c_io, pw_ok))
        protoinfo = VStr(z3.String('protocolinfo_reply'))
        for p, r in _call(ctx, path, pr, '_do_authenticate', [protoinfo]):
            q = ctx.models.glog(p, 'queued')
            chain = ctx.models.glog(p, 'chain')
            mayd = ctx.models.glog(p, 'maybeDeferred')
            failed = ctx.models.glog(p, 'failed')
            raised = isinstance(r, Raise)
            cookie = z3.String('cookie')
            nonce = z3.String('client_nonce')
            ctx.oblige('post.at_most_one_command', p, B(len(q) <= 1), clause='sends nothing but PROTOCOLINFO, AUTHCHALLENGE and AUTHENTICATE')
            ctx.oblige('post.provider_consulted_at_most_once', p, B(len(mayd) <= 1))
            # --- which branch this exit took
            sent = q[0][0] if q else None
            is_challenge = B(False)
            is_cookie_auth = B(False)
            is_null_auth = B(False)
            if sent is not None and isinstance(sent, (VStr, VBytes)):
                is_challenge = sent.t == z3.Concat(mk_str('AUTHCHALLENGE SAFECOOKIE '), F_hex(nonce))
                is_cookie_auth = sent.t == z3.Concat(mk_str('AUTHENTICATE '), F_hex(cookie))
                is_null_auth = sent.t == mk_str('AUTHENTICATE')
            asked = len(mayd) == 1
            if asked:
                prov = mayd[0][1]
                if isinstance(prov, VUnion):      # the slot was read again: its non-None alternative is the provider
                    alts = [a for g, a in prov.alts if not isinstance(a, VNone)]
                    prov = alts[0] if len(alts) == 1 else prov
                asked = isinstance(prov, VOpaque) and prov.kind == 'provider' and len(mayd[0][2]) == 0
            # expected decision from the statement
            want_chal = z3.And(usable, adv['SAFECOOKIE'])
            want_cookie = z3.And(usable, z3.Not(adv['SAFECOOKIE']), adv['COOKIE'])
            cookie_broken_fatal = z3.And(cookie_method, z3.Or(z3.Not(has_cf), c_bad, z3.And(c_io, z3.Not(pw_ok))))
            want_pw = z3.And(z3.Not(usable), z3.Not(cookie_broken_fatal), pw_ok)
            want_null = z3.And(z3.Not(usable), z3.Not(cookie_broken_fatal), z3.Not(pw_ok), adv['NULL'])
            want_fail = z3.Or(cookie_broken_fatal, z3.And(z3.Not(usable), z3.Not(pw_ok), z3.Not(adv['NULL'])))
            ctx.oblige('post.safecookie_preferred_when_cookie_usable', p,
                       z3.Implies(want_chal, zand(B(not raised and len(q) == 1 and not mayd), is_challenge)),
                       clause='among the methods Tor advertises it uses SAFECOOKIE before COOKIE before password before NULL')
            ctx.oblige('post.cookie_before_password', p,
                       z3.Implies(want_cookie, zand(B(not raised and len(q) == 1 and not mayd), is_cookie_auth)),
                       clause='SAFECOOKIE before COOKIE before password before NULL')
            ctx.oblige('post.password_provider_only_when_no_cookie_method_usable', p,
                       z3.If(want_pw, B(not raised and asked and len(q) == 0), B(len(mayd) == 0)),
                       clause='consults the password provider only when no cookie method is usable')
            ctx.oblige('post.null_last', p, z3.Implies(want_null, zand(B(not raised and len(q) == 1 and not mayd), is_null_auth)),
                       clause='password before NULL')
            ctx.oblige('post.no_usable_method_fails_and_sends_nothing', p,
                       z3.Implies(want_fail, B((raised or len(failed) == 1) and len(q) == 0 and not mayd)),
                       clause='failure otherwise; a cookie that is not 32 bytes is never used')
            # what happens to the reply of the command sent / to the provider's answer (the registered callbacks are run)
            if len(q) == 1 and not raised:
                reply = VStr(z3.String('command_reply'))
                for q2, names, st, v, bad in _steps_after(ctx, p, q[0][1], reply):
                    chal = names == ['_safecookie_authchallenge', '_bootstrap'] and st[0][1] is reply and st[1][1] is st[0][2]
                    plain = names == ['_bootstrap'] and st[0][1] is reply
                    ctx.oblige('post.reply_continues_with_challenge_check_then_bootstrap', q2, z3.If(want_chal, B(chal), B(plain)),
                               clause='ready notification: success only after authentication and the bootstrap queries succeeded')
                ctx.oblige('post.the_caller_waits_for_that_command', p, B(r is q[0][1]))
            if asked and not raised:
                pw = VStr(z3.String('provided_password'))
                for q2, names, st, v, bad in _steps_after(ctx, p, mayd[0][0], pw):
                    ctx.oblige('post.password_goes_to_password_authentication', q2,
                               B(names == ['_do_password_authentication'] and st[0][1] is pw and r is mayd[0][0]))
    return run


def unit_read_cookie():
    def run(ctx):
        _fns(ctx)
        ex = ctx.ex
        path = ctx.new_path()
        pr = _proto(ctx, path)
        content = z3.String('file_content')
        ctx.input('file_content', VBytes(content))
        ctx.cover('pre_satisfiable', path)
        n_ok = 0
        for p, r in _call(ctx, path, pr, '_read_cookie', [VStr(z3.String('cookie_path'))]):
            data = p.heap[('f', pr.oid, '_cookie_data')]
            if isinstance(r, Raise):
                kind = r.exc.cls if isinstance(r.exc, VInst) else None
                if kind is not None and issubclass(kind, IOError):
                    ctx.oblige('post.unreadable_file_leaves_no_cookie', p, B(isinstance(data, VNone)))
                else:
                    ctx.oblige('post.refused_only_when_not_32_bytes', p, zand(B(kind is RuntimeError), z3.Length(content) != 32),
                               clause='accepts only a 32-byte cookie')
                continue
            n_ok += 1
            ctx.oblige('post.accepted_cookie_is_the_32_byte_file_content', p,
                       zand(B(isinstance(data, VBytes)), z3.Length(content) == 32, data.t == content) if isinstance(data, VBytes) else B(False),
                       clause='accepts only a 32-byte cookie')
        if not n_ok:
            ctx.oblige('some_normal_exit', path, B(False))
    return run


def unit_authenticate():
    def run(ctx):
        _fns(ctx)
        ex = ctx.ex
        path = ctx.new_path()
        pr = _proto(ctx, path)
        tok = z3.String('token')
        for p, r in _call(ctx, path, pr, 'authenticate', [VBytes(tok)]):
            q = ctx.models.glog(p, 'queued')
            ok = (not isinstance(r, Raise)) and len(q) == 1 and isinstance(q[0][0], VBytes) and r is q[0][1]
            ctx.oblige('post.authenticate_carries_the_hex_token', p,
                       zand(B(ok), q[0][0].t == z3.Concat(mk_str('AUTHENTICATE '), F_hex(tok))) if ok else B(False))
    return run


def unit_safecookie():
    def run(ctx):
        _fns(ctx)
        ex = ctx.ex
        path = ctx.new_path()
        pr = _proto(ctx, path)
        o = pr.oid
        cookie, nonce = z3.String('cookie'), z3.String('client_nonce')
        has_cookie = z3.Bool('cookie_was_read')
        path.heap[('f', o, '_cookie_data')] = VUnion([(has_cookie, VBytes(cookie)), (z3.Not(has_cookie), NONE)])
        path.heap[('f', o, 'client_nonce')] = VBytes(nonce)
        path.assume(z3.Length(cookie) == 32)
        path.assume(z3.Length(nonce) == 32)
        sh, sn = z3.String('reply_SERVERHASH'), z3.String('reply_SERVERNONCE')
        for nm, t in (('cookie', cookie), ('client_nonce', nonce), ('reply_SERVERHASH', sh), ('reply_SERVERNONCE', sn)):
            ctx.input(nm, VBytes(t))
        server_nonce = F_b16d(sn)
        msg = z3.Concat(cookie, nonce, server_nonce)
        good = F_b16d(sh) == F_hmac(mk_str(K_S2C), msg)
        ctx.cover('pre_good_hash', path, z3.And(has_cookie, good))
        ctx.cover('pre_bad_hash', path, z3.And(has_cookie, z3.Not(good)))
        for p, r in _call(ctx, path, pr, '_safecookie_authchallenge', [VStr(z3.String('challenge_reply'))]):
            q = ctx.models.glog(p, 'queued')
            raised = isinstance(r, Raise)
            if raised:
                ctx.oblige('post.refusal_sends_nothing', p, B(len(q) == 0),
                           clause='a server that cannot compute that hash receives no AUTHENTICATE and never the raw cookie')
                continue
            proof = z3.Concat(mk_str('AUTHENTICATE '), F_b16e(F_hmac(mk_str(K_C2S), msg)))
            ok = len(q) == 1 and isinstance(q[0][0], VBytes) and r is q[0][1]
            ctx.oblige('post.proof_sent_only_after_the_server_hash_verified', p,
                       zand(B(ok), has_cookie, good, q[0][0].t == proof) if ok else B(False),
                       clause='it sends its proof only after verifying the server\'s hash over the cookie and both nonces')
        # completeness: with a verified hash the proof is sent (some normal exit exists is implied by covers + no silent drop)
    return run


def unit_compare():
    """util.compare_via_hash against its contract  result == (x == y), HMAC collision-free (A)"""
    def run(ctx):
        ctx.fn('txtorcon.util', 'compare_via_hash')
        ctx.fn('txtorcon.util', 'hmac_sha256')
        import txtorcon.util as util
        ex = ctx.ex
        path = ctx.new_path()
        path.heap[('g', 'inline_compare')] = True
        x, y = z3.String('x'), z3.String('y')
        ctx.input('x', VBytes(x))
        ctx.input('y', VBytes(y))
        mi, node = extract.find('txtorcon.util', 'compare_via_hash')
        f = VFunc(node, 'txtorcon.util', 'compare_via_hash', pyfunc=util.compare_via_hash)
        ctx.cover('pre_equal', path, x == y)
        ctx.cover('pre_different', path, x != y)
        for p, r in ex.call(path, f, [VBytes(x), VBytes(y)], {}):
            if isinstance(r, Raise) or not isinstance(r, VBool):
                ctx.oblige('returns_a_bool', p, B(False))
                continue
            # A: no collisions -- instance of injectivity for the key used by the body
            key = None
            for c in ctx.ex.models.glog(p, 'hmac_keys'):
                key = c
            if key is not None:
                p.assume(z3.Implies(F_hmac(key, x) == F_hmac(key, y), x == y))
            ctx.oblige('post.equal_exactly_when_the_hashes_are_equal', p, r.t == (x == y),
                       clause="verifying the server's hash over the cookie and both nonces")
    return run


def unit_password():
    def run(ctx):
        _fns(ctx)
        ex = ctx.ex
        path = ctx.new_path()
        pr = _proto(ctx, path)
        pw = z3.String('password')
        none_pw = z3.Bool('provider_returned_none')
        ctx.input('password', VStr(pw))
        arg = VUnion([(none_pw, NONE), (z3.Not(none_pw), VStr(pw))])
        for p, r in _call(ctx, path, pr, '_do_password_authentication', [arg]):
            q = ctx.models.glog(p, 'queued')
            chain = ctx.models.glog(p, 'chain')
            empty = z3.Or(none_pw, z3.Length(pw) == 0)
            if isinstance(r, Raise):
                ctx.oblige('post.empty_password_refused_nothing_sent', p, zand(empty, B(len(q) == 0)))
                continue
            ok = len(q) == 1 and isinstance(q[0][0], (VBytes, VStr))
            ctx.oblige('post.password_sent_only_when_not_empty', p, zand(z3.Not(empty), B(ok)) if ok else B(False))
            if ok:
                reply = VStr(z3.String('authenticate_reply'))
                for q2, names, st, v, bad in _steps_after(ctx, p, q[0][1], reply):
                    ctx.oblige('post.accepted_password_continues_with_bootstrap', q2, B(names == ['_bootstrap'] and st[0][1] is reply),
                               clause='ready notification: success only after authentication and the bootstrap queries succeeded')
                fail = VOpaque('failure', 32)
                for q2, names, st, v, bad in _steps_after(ctx, p, q[0][1], fail, failed=True):
                    ctx.oblige('post.refused_password_fails_the_ready_notification', q2, B(names == ['_auth_failed'] and st[0][1] is fail),
                               clause='ready notification: failure otherwise')
    return run


def unit_bootstrap():
    def run(ctx):
        _fns(ctx)
        import txtorcon.torcontrolprotocol as tcp
        ex = ctx.ex
        path = ctx.new_path()
        pr = _proto(ctx, path)
        ctx.cover('pre_satisfiable', path)
        fails = [(z3.Bool('await%d_fails_5xx' % i), z3.Bool('await%d_fails_otherwise' % i)) for i in range(4)]
        for a, b in fails:
            ctx.input(str(a), VBool(a))
            ctx.input(str(b), VBool(b))
        ctx.region(F_SIGNAMES, fails[0][0])
        WANT = ['GETINFO signal/names', 'GETINFO version', 'GETINFO events/names', 'USEFEATURE EXTENDED_EVENTS']
        n_ok = 0
        for p, r in _call(ctx, path, pr, '_bootstrap', [VOpaque('authenticate_reply', 1)]):
            q = ctx.models.glog(p, 'queued')
            fired = ctx.models.glog(p, 'fired')
            aw = ctx.models.glog(p, 'awaited')
            texts = [concrete_of(x[0]) for x in q]
            any_failed = z3.Or(*[z3.Or(a, b) for a, b in fails[:len(aw)]]) if aw else B(False)
            ctx.oblige('post.bootstrap_commands_in_order', p, B(texts == [(True, w) for w in WANT[:len(texts)]]),
                       clause='sends nothing but PROTOCOLINFO, AUTHCHALLENGE and AUTHENTICATE until Tor has accepted authentication (then the bootstrap queries)')
            if isinstance(r, Raise):
                kinds = (tcp.TorProtocolError, tcp.TorDisconnectError)
                ctx.oblige('post.only_the_failure_of_a_query_escapes', p, B(isinstance(r.exc, VInst) and r.exc.cls in kinds))
                ctx.oblige('post.failed_query_leaves_ready_untouched_and_propagates', p, zand(B(len(fired) == 0), any_failed),
                           clause='the ready notification fires exactly once - failure otherwise (through _auth_failed)')
                continue
            n_ok += 1
            ok = len(fired) == 1 and str(fired[0][0].t) == '700' and fired[0][1] == 'ok' and fired[0][2] is pr and len(q) == 4 and len(aw) == 4
            ctx.oblige('post.ready_succeeds_once_after_every_query_succeeded', p, zand(B(ok), z3.Not(any_failed)),
                       clause='success only after authentication and the bootstrap queries succeeded')
        if not n_ok:
            ctx.oblige('some_normal_exit', path, B(False))
    return run


def units():
    return [('C04/connectionMade', unit_connection_made()),
            ('C04/_auth_failed', unit_auth_failed()),
            ('C04/_do_authenticate', unit_do_authenticate()),
            ('C04/_read_cookie', unit_read_cookie()),
            ('C04/authenticate', unit_authenticate()),
            ('C04/_safecookie_authchallenge', unit_safecookie()),
            ('C04/compare_via_hash', unit_compare()),
            ('C04/_do_password_authentication', unit_password()),
            ('C04/_bootstrap', unit_bootstrap())] + _loss_units()


def _loss_units():
    """a connection lost in the middle of the handshake reaches the one errback because connectionLost fails the command in
    flight, whatever the reason of the loss (contract shared with C03)"""
    from props import C03
    from contracts import control as KC
    return [('C04/connectionLost@%s' % st, C03.unit_connection_lost(st)) for st in KC.FSM_STATES]


def make_models_for(unit_name):
    if '/connectionLost@' in unit_name:
        from contracts import control as KC
        return KC.ControlModels()
    return make_models()


# ==========================================================================================
# bounded twin (B): stand-alone module twin/tC04.py (real protocol against a scripted server; oracle from the statement)
from pyvc.report import adopt_twin
FINDING_PATTERNS = [(r'ready_success_only_after_auth_and_bootstrap:after_failed_query:GETINFO_signal/names', F_SIGNAMES)]
twin, _replay_twin = adopt_twin('twin.tC04', FINDING_PATTERNS)


def replay(unit, name, model):
    """native replay of a solver model on the real classes (props/replay_auth.py)"""
    from props import replay_auth
    return replay_auth.replay(unit, name, model)


def replay_file(doc):
    if doc.get('kind') == 'twin':
        return _replay_twin(doc)
    unit, name = doc['obligation'].split('::')
    return replay(unit, name, doc['model'])
