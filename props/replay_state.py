"""Native replay of proof counterexamples for the heap-mode units of C07 / C08: the unit name fixes the
scenario, the solver model supplies the symbolic inputs (ids, status text, hop names, flags), the real
Circuit / Stream / TorState classes are driven once and the outcome is compared with the clause of the
failed obligation.  'reproduced' is True only when the real code violates the clause on that input."""
import re

from twin import control_session as _CS  # noqa: F401  (silences Twisted's stderr logging)


class Rec(object):
    """listener recording every notification"""
    def __init__(self, log, name, raises=False):
        self.log, self.name, self.raises = log, name, raises

    def __getattr__(self, meth):
        if meth.startswith('__'):
            raise AttributeError(meth)

        def call(*a, **kw):
            self.log.append((self.name, meth, a, kw))
            if self.raises:
                raise Exception('listener failed')
        return call


class FakeState(object):
    """ICircuitContainer / IRouterContainer / close commands"""
    def __init__(self):
        from twisted.internet import defer
        from zope.interface import directlyProvides
        from txtorcon.interface import ICircuitContainer, IRouterContainer
        directlyProvides(self, ICircuitContainer, IRouterContainer)
        self.defer = defer
        self.cmds = []
        self.circuits = {}

    def close_circuit(self, cid, **kw):
        d = self.defer.Deferred()
        self.cmds.append(('close_circuit', cid, kw, d))
        return d

    def close_stream(self, stream, **kw):
        d = self.defer.Deferred()
        self.cmds.append(('close_stream', stream, kw, d))
        return d

    def router_from_id(self, rid):
        return ('router', rid)

    def find_circuit(self, cid):
        return self.circuits[cid]


def _circuit(state, listeners=2):
    from txtorcon.circuit import Circuit
    log = []
    c = Circuit(state)
    ls = [Rec(log, 'L%d' % i) for i in range(listeners)]
    c.listeners = list(ls)
    return c, ls, log


def _stream(state, listeners=2, raises=False):
    from txtorcon.stream import Stream
    log = []
    s = Stream(state)
    ls = [Rec(log, 'L%d' % i, raises) for i in range(listeners)]
    s.listeners = list(ls)
    return s, ls, log


def _fired(d):
    out = []
    d.addBoth(out.append)
    return out


def replay_close(kind, case, model):
    from twisted.internet import defer
    st = FakeState()
    obj = (_circuit(st)[0] if kind == 'Circuit' else _stream(st)[0])
    obj.id = 7
    state0 = model.get('state0') or ('CLOSED' if case == 'gone' else 'BUILT')
    obj.state = state0
    pending = None
    if case == 'pending' or (case == 'gone' and model.get('close_pending')):
        pending = obj._closing_deferred = defer.Deferred()
    d = obj.close()
    res = _fired(d)
    gone = state0 in ('CLOSED', 'FAILED')
    if gone:
        bad = bool(st.cmds) or len(res) != 1
        return {'reproduced': bad, 'what': 'close() on a %s object: commands %r, completed %d time(s); expected no command and one completion'
                % (state0, [c[0] for c in st.cmds], len(res))}
    if case == 'pending':
        bad = bool(st.cmds) or bool(res)
        pending.callback(obj)
        bad = bad or len(res) != 1
        return {'reproduced': bool(bad), 'what': 'repeated close(): commands %r, completions after the shared wait fired: %d' % ([c[0] for c in st.cmds], len(res))}
    bad = len(st.cmds) != 1 or bool(res)
    if st.cmds:
        st.cmds[0][3].callback('OK')           # acknowledgement alone must not complete it
        bad = bad or bool(res)
        obj.state = 'CLOSED'
        obj.maybe_call_closing_deferred()
        bad = bad or len(res) != 1
    return {'reproduced': bool(bad), 'what': 'first close(): commands %r, completions %d (expected one command, completion only on the event)'
            % ([c[0] for c in st.cmds], len(res))}


def replay_maybe_call(kind, pending, model):
    from twisted.internet import defer
    st = FakeState()
    obj = (_circuit(st)[0] if kind == 'Circuit' else _stream(st)[0])
    res = []
    if pending:
        obj._closing_deferred = defer.Deferred()
        obj._closing_deferred.addBoth(res.append)
    obj.maybe_call_closing_deferred()
    bad = (len(res) != (1 if pending else 0)) or obj._closing_deferred is not None or (res and res[0] is not obj)
    return {'reproduced': bool(bad), 'what': 'pending wait fired %d time(s), slot now %r' % (len(res), obj._closing_deferred)}


def replay_when(which, model):
    st = FakeState()
    c = _circuit(st)[0]
    c.state = model.get('state0', 'LAUNCHED')
    d = getattr(c, which)()
    res = _fired(d)
    decided = c.state == 'BUILT' if which == 'when_built' else c.state in ('CLOSED', 'FAILED')
    bad = (len(res) == 1 and res[0] is c) != decided
    return {'reproduced': bool(bad), 'what': '%s() in state %r completed %d time(s)' % (which, c.state, len(res))}


def replay_create_flags(kind, model):
    st = FakeState()
    obj = (_circuit(st)[0] if kind == 'Circuit' else _stream(st)[0])
    kw = {model.get('k0', 'REASON'): model.get('v0', 'a'), model.get('k1', 'REMOTE_REASON'): model.get('v1', 'b')}
    # precondition of the unit (A9): distinct upper-case keyword names
    if len(kw) != 2 or any(k != k.upper() or k == k.lower() for k in kw):
        return {'reproduced': False, 'what': 'model keys %r are not distinct upper-case keywords (outside the precondition)' % (list(kw),)}
    got = obj._create_flags(dict(kw))
    want = dict(kw)
    want.update({k.lower(): v for k, v in kw.items()})
    return {'reproduced': got != want, 'observed': repr(got), 'expected': repr(want)}


def _hops(model, n):
    return [model.get('hop%d' % i) or ('$' + 'A' * 40) for i in range(n)]


def replay_circuit_update(status, fresh, model, field_check=False):
    st = FakeState()
    c, ls, log = _circuit(st)
    cid = abs(int(model.get('circ_id', 5) or 5))
    if not fresh:
        c.id = cid
    n_old = 1 if model.get('had_one_hop') else 0
    c.path = [('router', 'old')] * n_old
    nh = 0 if status in ('LAUNCHED', 'CLOSED', 'FAILED') else 2
    hops = _hops(model, nh)
    pend = []
    from twisted.internet import defer
    if model.get('close_pending'):
        c._closing_deferred = defer.Deferred()
        c._closing_deferred.addBoth(pend.append)
    built, closed = _fired(c._when_built.when_fired()), _fired(c._when_closed.when_fired())
    args = [str(cid), status] + ([','.join(hops)] if nh else []) + ['PURPOSE=GENERAL'] + (['REASON=FINISHED'] if status in ('CLOSED', 'FAILED') else [])
    c.update(args)
    lead = 0
    for h in hops:
        if h.startswith('$'):
            lead += 1
        else:
            break
    exp = []
    if fresh:
        exp.append('circuit_new')
    if status == 'LAUNCHED':
        exp.append('circuit_launched')
    if nh:
        exp += ['circuit_extend'] * max(0, lead - n_old)
    if status == 'BUILT':
        exp.append('circuit_built')
    if status in ('CLOSED', 'FAILED'):
        exp.append('circuit_closed' if status == 'CLOSED' else 'circuit_failed')
    bad = []
    for l in ls:
        mine = [e for e in log if e[0] == l.name]
        if [e[1] for e in mine] != exp:
            bad.append('%s got %r, expected %r' % (l.name, [e[1] for e in mine], exp))
        for e in mine:
            if e[1] in ('circuit_closed', 'circuit_failed') and not (e[3].get('REASON') == 'FINISHED' and e[3].get('reason') == 'FINISHED'):
                bad.append('%s: flags %r lack REASON in both cases' % (l.name, e[3]))
    if (len(built) == 1) != (status == 'BUILT'):
        bad.append('built-wait fired %d time(s) on %s' % (len(built), status))
    if (len(closed) == 1) != (status in ('CLOSED', 'FAILED')):
        bad.append('closed-wait fired %d time(s) on %s' % (len(closed), status))
    if model.get('close_pending') and (len(pend) == 1) != (status in ('CLOSED', 'FAILED')):
        bad.append('pending close() completed %d time(s) on %s' % (len(pend), status))
    if field_check:
        if c.state != status:
            bad.append('state %r' % (c.state,))
        if c.purpose != 'GENERAL':
            bad.append('purpose %r' % (c.purpose,))
        if status == 'LAUNCHED' and c.path:
            bad.append('path %r after LAUNCHED' % (c.path,))
        if nh and status not in ('LAUNCHED', 'CLOSED', 'FAILED') and c.path != [('router', h) for h in hops[:lead]]:
            bad.append('path %r, expected the leading $-hops %r' % (c.path, hops[:lead]))
    return {'reproduced': bool(bad), 'what': '; '.join(bad) or 'the real Circuit.update behaves as the clause says on this input', 'args': args}


def replay_stream_update(status, attached, where, model, raises=True):
    from txtorcon.circuit import Circuit
    st = FakeState()
    s, ls, log = _stream(st, raises=raises)
    sid = abs(int(model.get('stream_id', 3) or 3))
    s.id = sid
    s.target_host, s.target_port = 'host.example', 80
    a_id = abs(int(model.get('attached_circ_id', 4) or 4)) or 4
    circ_a = Circuit(st)
    circ_a.id = a_id
    other_a, other_f = object(), object()
    circ_a.streams = [other_a] + ([s] if attached else [])
    if attached:
        s.circuit = circ_a
    cid = 0 if where in ('zero', 'circ0') else (a_id if attached else 9)
    circ_f = Circuit(st)
    circ_f.id = cid
    circ_f.streams = [other_f]
    st.circuits[cid] = circ_f if not attached else circ_a
    pend = []
    from twisted.internet import defer
    if model.get('close_pending'):
        s._closing_deferred = defer.Deferred()
        s._closing_deferred.addBoth(pend.append)
    args = [str(sid), status, str(cid), 'host.example:80'] + (['REASON=END'] if status in ('CLOSED', 'FAILED', 'DETACHED') else [])
    bad = []
    try:
        s.update(args)
    except Exception as e:
        bad.append('update raised %r' % (e,))
    exp = {'NEW': ['stream_new'], 'SUCCEEDED': ['stream_succeeded'], 'CLOSED': ['stream_closed'], 'FAILED': ['stream_failed'],
           'DETACHED': ['stream_detach']}.get(status, [])
    detaches = status in ('CLOSED', 'FAILED', 'DETACHED') or cid == 0
    if not detaches and not attached:
        exp = exp + ['stream_attach']
    for l in ls:
        mine = [e for e in log if e[0] == l.name]
        if [e[1] for e in mine] != exp:
            bad.append('%s got %r, expected %r' % (l.name, [e[1] for e in mine], exp))
        for e in mine:
            if e[1] in ('stream_closed', 'stream_failed', 'stream_detach') and not (e[3].get('REASON') == 'END' and e[3].get('reason') == 'END'):
                bad.append('%s: flags %r lack REASON in both cases' % (l.name, e[3]))
    if model.get('close_pending') and (len(pend) == 1) != (status in ('CLOSED', 'FAILED')):
        bad.append('pending close() completed %d time(s) on %s' % (len(pend), status))
    # attachment (C07)
    if detaches:
        if s.circuit is not None or s in circ_a.streams or s in circ_f.streams:
            bad.append('after %s: stream.circuit=%r, listed under A=%r F=%r' % (status, s.circuit, s in circ_a.streams, s in circ_f.streams))
        if circ_a.streams != [other_a] or circ_f.streams != [other_f]:
            bad.append('other streams disturbed')
    elif attached:
        if s.circuit is not circ_a or circ_a.streams != [other_a, s]:
            bad.append('attached stream: circuit %r, listed %r' % (s.circuit, circ_a.streams))
    else:
        if s.circuit is not circ_f or circ_f.streams != [other_f, s] or circ_a.streams != [other_a]:
            bad.append('newly attached stream: circuit %r, listed under F %r, A %r' % (s.circuit, circ_f.streams, circ_a.streams))
    if s.state != status:
        bad.append('state %r' % (s.state,))
    return {'reproduced': bool(bad), 'what': '; '.join(bad) or 'the real Stream.update behaves as the clause says on this input', 'args': args}


def replay_stream_first_sight(status, model):
    st = FakeState()
    s, ls, log = _stream(st, listeners=1, raises=False)
    host = model.get('host') or 'h'
    port = model.get('port_text') or '80'
    shost = model.get('src_host') or '127.0.0.1'
    sport = model.get('src_port_text') or '4000'
    idt = model.get('id_text') or '5'
    if not (port.isdigit() and sport.isdigit() and idt.isdigit()) or any(ch in host + shost for ch in ' \n'):
        return {'reproduced': False, 'what': 'model is outside the event grammar'}
    args = [idt, status, '0', '%s:%s' % (host, port), 'SOURCE_ADDR=%s:%s' % (shost, sport), 'PURPOSE=USER']
    bad = []
    try:
        s.update(args)
    except Exception as e:
        return {'reproduced': True, 'what': 'update raised %r' % (e,), 'args': args}
    if str(s.target_host) != host or s.target_port != int(port):
        bad.append('target %r:%r, reported %s:%s' % (s.target_host, s.target_port, host, port))
    if str(s.source_addr) != shost or s.source_port != int(sport):
        bad.append('source %r:%r, reported %s:%s' % (s.source_addr, s.source_port, shost, sport))
    if s.id != int(idt):
        bad.append('id %r' % (s.id,))
    return {'reproduced': bool(bad), 'what': '; '.join(bad) or 'fields are the reported ones', 'args': args}


def replay_destroy(which, shape, model):
    """TorState.circuit_closed / circuit_failed on a real TorState with one known circuit, the event carrying the given reason keywords"""
    import txtorcon.torstate as ts
    import txtorcon.circuit as circuit
    st = ts.TorState.__new__(ts.TorState)
    st.circuits = {}
    c = circuit.Circuit(FakeState())
    c.id = 5
    st.circuits[5] = c
    kw = {'no_reason': {}, 'both_reasons': {'REASON': model.get('reason') or 'DESTROYED', 'REMOTE_REASON': model.get('remote_reason') or 'CHANNEL_CLOSED'},
          'remote_reason_only': {'REMOTE_REASON': model.get('remote_reason') or 'CHANNEL_CLOSED'}, None: {'REASON': model.get('reason') or 'DESTROYED'}, 'reason': {'REASON': model.get('reason') or 'DESTROYED'}}[shape]
    res = _fired(c.when_built())
    try:
        getattr(st, which)(c, **kw)
    except Exception as e:
        return {'reproduced': True, 'what': '%s(circuit, **%r) raised %r; the circuit is %s in TorState.circuits' % (which, kw, e, 'still' if 5 in st.circuits else 'no longer')}
    bad = 5 in st.circuits or len(res) != 1
    return {'reproduced': bool(bad), 'what': '%s(circuit, **%r): circuit %s, built-wait fired %d time(s)' % (which, kw, 'still known' if 5 in st.circuits else 'forgotten', len(res))}


def replay(unit, name, model):
    """dispatch on the unit name (C07/... or C08/...)"""
    model = model or {}
    part = unit.split('/', 1)[1]
    m = re.match(r'TorState\.(circuit_closed|circuit_failed)(?:@(\w+))?$', part)
    if m:
        return replay_destroy(m.group(1), m.group(2), model)
    m = re.match(r'(Circuit|Stream)\.close@(gone|pending|fresh)$', part)
    if m:
        return replay_close(m.group(1), m.group(2), model)
    m = re.match(r'(Circuit|Stream)\.maybe_call_closing_deferred@(pending|idle)$', part)
    if m:
        return replay_maybe_call(m.group(1), m.group(2) == 'pending', model)
    m = re.match(r'Circuit\.(when_built|when_closed)$', part)
    if m:
        return replay_when(m.group(1), model)
    m = re.match(r'(Circuit|Stream)\._create_flags$', part)
    if m:
        return replay_create_flags(m.group(1), model)
    m = re.match(r'Circuit\.update@([A-Z_]+)/(known|first_sight)$', part)
    if m:
        return replay_circuit_update(m.group(1), m.group(2) == 'first_sight', model)
    m = re.match(r'Circuit\.update@([A-Z_]+)$', part)
    if m:
        return replay_circuit_update(m.group(1), False, model, field_check=True)
    m = re.match(r'Stream\.update@first_sight/([A-Z]+)$', part)
    if m:
        return replay_stream_first_sight(m.group(1), model)
    m = re.match(r'Stream\.update@([A-Z]+)/(attached|unattached)/(\w+)$', part)
    if m:
        return replay_stream_update(m.group(1), m.group(2) == 'attached', m.group(3), model)
    return {'reproduced': False, 'what': 'no native replay for proof counterexamples of this unit'}
