"""C05 -- SOCKS5: no data before success; after it every byte is relayed, none withheld.

Proof units: Inv of _SocksMachine preserved by feed_data / disconnected from every automat
state, with the per-case postconditions of RFC 1928 section 6 (spec functions in
contracts/socks.py).  One unit per (handler, automat state, request type)."""
import z3

from pyvc.exec import Raise, Unsupported
from pyvc.sym import (VInt, VBool, VStr, VBytes, VNone, NONE, VTuple, VInst, VOpaque, VUnion, VConc,
                      concrete_of, mk_str, zand, zor)
from pyvc import extract
from contracts import socks as C

PROP = 'C05'
F_CONNECT_DOMAIN = 'connect-domain-typed-success'
REQ_TYPES = ['CONNECT', 'RESOLVE', 'RESOLVE_PTR']
MODULE = 'txtorcon.socks'

FUNCS = ['_SocksMachine.feed_data', '_SocksMachine._parse_version_reply', '_SocksMachine._parse_request_reply',
         '_SocksMachine._parse_ipv4_reply', '_SocksMachine._parse_ipv6_reply',
         '_SocksMachine._parse_domain_name_reply', '_SocksMachine._make_connection',
         '_SocksMachine._domain_name_resolved', '_SocksMachine._disconnect', '_SocksMachine._relay_data',
         '_SocksMachine._send_request', '_create_socks_error', 'SocksError.__init__']

ERR_CLASSES = {1: 'GeneralServerFailureError', 2: 'ConnectionNotAllowedError', 3: 'NetworkUnreachableError',
               4: 'HostUnreachableError', 5: 'ConnectionRefusedError', 6: 'TtlExpiredError',
               7: 'CommandNotSupportedError', 8: 'AddressTypeNotSupportedError'}


def make_models():
    return C.SocksModels()


def make_models_for(unit_name):
    if 'SingleObserver' in unit_name:
        from props import C03
        return C03.make_models_for(unit_name)
    return C.SocksModels()


def _method(ctx, name):
    import txtorcon.socks as socks
    raw = socks._SocksMachine.__dict__[name]
    raw = getattr(raw, 'method', raw)
    mi, node = extract.node_of_function(raw)
    return mi, node, raw


def _register_functions(ctx):
    for q in FUNCS:
        try:
            ctx.fn(MODULE, q)
        except KeyError:
            ctx.notes.append('function %s not found (renamed?)' % q)


def failure_of(path, v):
    """if v is a Failure instance return its wrapped exception instance else None"""
    import twisted.python.failure as tf
    if isinstance(v, VInst) and v.cls is tf.Failure:
        return path.heap.get(('f', v.oid, 'value'))
    return None


def B(x):
    return z3.BoolVal(bool(x))


def request_phase_posts(ctx, path, m, pre, R, req_type, tag, sent_before=0):
    """postconditions for 'buffer R was presented in state sent_request' -> [(name, goal)]"""
    import txtorcon.socks as socks
    models = ctx.models
    H = path.heap
    oid = m.oid
    ok, st = concrete_of(H[('f', oid, '_state')])
    data = H[('f', oid, '_data')].t
    delivered = H[('g', 'delivered')].t
    created = models.glog(path, 'created')
    done = models.glog(path, 'done')
    out = []
    undecided = z3.Not(C.must_decide(R))
    # --- nothing decidable yet
    waiting = zand(B(st == 'sent_request'), data == R, B(len(created) == 0), B(len(done) == 0),
                   z3.Length(delivered) == 0)
    fail_once, fail_exc = failure_once(path, m, st, created, done, delivered)
    out.append((tag + 'incomplete_reply_waits_or_fails_once',
                z3.Implies(undecided, z3.Or(waiting, z3.And(C.determined_failure(R), fail_once)))))
    # --- failure
    out.append((tag + 'failure_reply_fails_exactly_once',
                z3.Implies(z3.And(C.determined_failure(R), z3.Length(R) >= 10), fail_once)))
    if fail_exc is not None:
        rep = C.byte_at(R, 1)
        is_rep_err = z3.And(C.byte_at(R, 0) == 5, rep != 0)
        cls_goal = []
        for k, cname in ERR_CLASSES.items():
            cls_goal.append(z3.Implies(rep == k, B(isinstance(fail_exc, VInst) and fail_exc.cls is getattr(socks, cname))))
        codev = H.get(('f', fail_exc.oid, 'code')) if isinstance(fail_exc, VInst) else None
        if codev is None and isinstance(fail_exc, VInst):
            codev = lift_classattr(fail_exc.cls, 'code')
        code_ok = ctx.ex.eq_term(path, codev, VInt(rep)) if codev is not None else B(False)
        is_sockserr = B(isinstance(fail_exc, VInst) and issubclass(fail_exc.cls, socks.SocksError))
        out.append((tag + 'error_class_matches_reply_code',
                    z3.Implies(z3.And(is_rep_err, fail_once), zand(*cls_goal))))
        out.append((tag + 'error_code_preserved',
                    z3.Implies(z3.And(is_rep_err, fail_once), z3.And(is_sockserr, code_ok))))
    # --- success
    succ = C.is_success(R)
    L = C.reply_total_len(R)
    rest = z3.SubString(R, L, z3.Length(R))
    if req_type == 'CONNECT':
        good = zand(B(st == 'relaying'), B(len(created) == 1), B(len(done) == 1),
                    B(len(created) == 1 and len(done) == 1 and isinstance(done[0], VOpaque) and
                      z3.is_true(z3.simplify(done[0].t == created[0][2].t))),
                    delivered == rest, z3.Length(data) == 0)
        out.append((tag + 'success_creates_protocol_and_relays_rest', z3.Implies(succ, good)))
    else:
        atyp = C.byte_at(R, 3)
        if len(done) == 1 and len(created) == 0 and st == 'done':
            v = done[0]
            if isinstance(v, VStr):
                ans = z3.Or(z3.And(atyp == 1, v.t == C.F_ntoa(z3.SubString(R, 4, 4))),
                            z3.And(atyp == 4, v.t == C.F_ntop16(z3.SubString(R, 4, 16))))
            elif isinstance(v, VBytes):
                ans = z3.Or(z3.And(atyp == 3, v.t == z3.SubString(R, 5, C.byte_at(R, 4))),
                            z3.And(atyp == 4, v.t == z3.SubString(R, 4, 16)))
            else:
                ans = B(False)
        else:
            ans = B(False)
        out.append((tag + 'resolve_yields_answer_in_reply', z3.Implies(succ, ans)))
    return out


def lift_classattr(cls, name):
    from pyvc.sym import lift
    return lift(getattr(cls, name, None))


def failure_once(path, m, st, created, done, delivered):
    """(z3 Bool: the attempt failed exactly once with nothing created/delivered, exception V or None)"""
    exc = failure_of(path, done[0]) if len(done) == 1 else None
    ok = zand(B(st == 'abort'), B(len(created) == 0), B(len(done) == 1), B(exc is not None),
              z3.Length(delivered) == 0)
    return ok, exc


def unit_feed_data(state, req_type):
    def run(ctx):
        _register_functions(ctx)
        ex = ctx.ex
        path = ctx.new_path()
        m, pre = C.make_machine(ctx, path, state, req_type)
        chunk = z3.String('chunk')
        ctx.lazy_assume(C.all_bytes(chunk))
        path.assume(z3.Length(chunk) > 0)
        ctx.input('chunk', VBytes(chunk))
        ctx.cover('pre_satisfiable', path)
        Dall = z3.Concat(pre['data0'], chunk)
        Rreg = Dall if state == 'sent_request' else z3.SubString(Dall, 2, z3.Length(Dall))
        if req_type == 'CONNECT' and state in ('sent_version', 'sent_request'):
            ctx.region(F_CONNECT_DOMAIN, z3.And(C.is_success(Rreg), C.byte_at(Rreg, 3) == 3))
        mi, node, raw = _method(ctx, 'feed_data')
        from pyvc.sym import VFunc
        f = VFunc(node, mi.modname, raw.__qualname__, bound=m, pyfunc=raw)
        outs = ex.call(path, f, [VBytes(chunk)], {})
        D = z3.Concat(pre['data0'], chunk)
        n_normal = 0
        for i, (p, r) in enumerate(outs):
            tag = 'path%d/' % i
            if isinstance(r, Raise):
                cls = r.exc.cls.__name__ if isinstance(r.exc, VInst) else '?'
                ctx.oblige('no_exception_escapes[%s]' % cls, p, B(False),
                           clause='a malformed reply fails the attempt; nothing propagates out of dataReceived')
                continue
            n_normal += 1
            st, inv = C.inv_post(ctx, p, m, pre)
            for name, g in inv:
                ctx.oblige('inv.' + name, p, g, clause='Inv preserved')
            H = p.heap
            data = H[('f', m.oid, '_data')].t
            delivered = H[('g', 'delivered')].t
            created = ctx.models.glog(p, 'created')
            done = ctx.models.glog(p, 'done')
            sent = ctx.models.glog(p, 'sent')
            posts = []
            if state == 'relaying':
                posts.append(('relaying_delivers_chunk_immediately',
                              zand(delivered == z3.Concat(pre['delivered0'], chunk), z3.Length(data) == 0,
                                   B(st == 'relaying'), B(not created), B(not done))))
            elif state == 'abort':
                posts.append(('abort_ignores_data', zand(B(st == 'abort'), delivered == pre['delivered0'],
                                                        B(not created), B(not done))))
            elif state == 'sent_version':
                n = z3.Length(D)
                posts.append(('short_method_reply_waits',
                              z3.Implies(n < 2, zand(B(st == 'sent_version'), data == D, B(not created),
                                                     B(not done), B(not sent)))))
                bad = z3.And(n >= 2, z3.Or(C.byte_at(D, 0) != 5, C.byte_at(D, 1) != 0))
                fo, _ = failure_once(p, m, st, created, done, delivered)
                posts.append(('bad_method_reply_fails_exactly_once', z3.Implies(bad, z3.And(fo, B(not sent)))))
                good = z3.And(n >= 2, C.byte_at(D, 0) == 5, C.byte_at(D, 1) == 0)
                posts.append(('method_accepted_sends_exactly_one_request', z3.Implies(good, B(len(sent) == 1))))
                R = z3.SubString(D, 2, z3.Length(D))
                for name, g in request_phase_posts(ctx, p, m, pre, R, req_type, ''):
                    posts.append((name, z3.Implies(good, g)))
            elif state == 'sent_request':
                posts.append(('no_request_resent', B(not sent)))
                posts.extend(request_phase_posts(ctx, p, m, pre, D, req_type, ''))
            for name, g in posts:
                ctx.oblige('post.' + name, p, g, clause=name)
        if n_normal == 0:
            ctx.oblige('some_normal_exit', path, B(False))
    return run


def unit_disconnected(state, req_type):
    def run(ctx):
        _register_functions(ctx)
        ex = ctx.ex
        path = ctx.new_path()
        m, pre = C.make_machine(ctx, path, state, req_type)
        ctx.cover('pre_satisfiable', path)
        import txtorcon.socks as socks
        err = ex.new_inst(path, socks.SocksError, args=VTuple([VStr('lost')]))
        outs = ex.getattr_v(path, m, 'disconnected')
        assert len(outs) == 1
        outs = ex.call(outs[0][0], outs[0][1], [err], {})
        for i, (p, r) in enumerate(outs):
            if isinstance(r, Raise):
                ctx.oblige('no_exception_escapes', p, B(False))
                continue
            st, inv = C.inv_post(ctx, p, m, pre)
            for name, g in inv:
                ctx.oblige('inv.' + name, p, g, clause='Inv preserved')
            done = ctx.models.glog(p, 'done')
            created = ctx.models.glog(p, 'created')
            exc = failure_of(p, done[0]) if len(done) == 1 else None
            ctx.oblige('post.disconnect_resolves_exactly_once', p,
                       z3.If(pre['fired0'], B(len(done) == 0),
                             B(len(done) == 1 and exc is not None and isinstance(exc, VInst) and exc.oid == err.oid)),
                       clause='disconnect before success fails the attempt exactly once; after an outcome nothing fires again')
            ctx.oblige('post.disconnect_creates_nothing', p, B(len(created) == 0))
            ctx.oblige('post.state_terminal', p, B(st in ('abort', 'done', 'unconnected')))
            ctx.oblige('post.nothing_delivered_on_disconnect', p, p.heap[('g', 'delivered')].t == pre['delivered0'])
    return run


def units():
    out = []
    for state in ['sent_version', 'sent_request', 'relaying', 'abort']:
        for rt in REQ_TYPES:
            if state in ('relaying',) and rt != 'CONNECT':
                continue   # relaying is reachable only through _make_connection (CONNECT)
            out.append(('C05/feed_data@%s/%s' % (state, rt), unit_feed_data(state, rt)))
    for state in ['sent_version', 'sent_request', 'relaying', 'abort', 'done']:
        for rt in REQ_TYPES:
            if state == 'relaying' and rt != 'CONNECT':
                continue
            out.append(('C05/disconnected@%s/%s' % (state, rt), unit_disconnected(state, rt)))
    # the outcome of the attempt lives in a util.SingleObserver (when_done): its contract - fires once, the first value stays -
    # is discharged against the class body here too (units shared with C03)
    from props import C03
    for name, u in C03.units():
        if 'SingleObserver' in name:
            out.append((name.replace('C03/', 'C05/'), u))
    return out


# ==========================================================================================
# bounded twin (B): the real _SocksMachine / _TorSocksProtocol driven through byte streams
# under enumerated segmentations; oracle written from RFC 1928 (independent of the code).

TRUSTED = [
    'A2 Twisted protocol life cycle: dataReceived only between connectionMade and connectionLost; connectionLost once',
    'A5 automat MethodicalMachine dispatch semantics (table extracted from the real class each run)',
    'callbacks (create_connection, on_data, on_disconnect, application protocol) do not re-enter the machine or raise',
    'induction over handler sequences (DESIGN 3.4): Inv established by the constructor + preserved by every handler',
    'pyvc symbolic semantics of the Python subset (DESIGN 2.2), z3 / cvc5',
]
LEVEL = 'proof'
MANIFEST = {
    'category': 'proof',
    'technique': 'contract-based deductive verification: invariant + per-case postconditions on the real _SocksMachine handlers (pyvc VCs from the /repo AST, z3/cvc5); bounded CPython twin as replay vehicle',
    'text': 'Inv of _SocksMachine (nothing created/delivered/resolved before a complete success reply; relaying => buffer empty; '
            'no decidable reply left buffered) is proved preserved by feed_data and disconnected from every automat state for '
            'symbolic buffer and chunk, with RFC 1928 postconditions per reply case (error class/code mapping, exactly-once '
            'resolution, rest-of-stream relayed). One inductive step covers every segmentation and disconnect position; no bound. '
            'Right level because the property quantifies over all streams and cuts, which only an invariant reaches.',
    'level_note': 'Assumed (A): automat dispatch semantics with the table extracted from the real class; Twisted life cycle; callbacks do not '
                  're-enter; inet_ntoa/inet_ntop/ipaddress as uninterpreted classifiers; induction over handler sequences is not machine-checked. '
                  'Bounded (B, never counted as proved): _TorSocksProtocol glue and end-to-end streams in the twin. '
                  'Known finding: CONNECT answered with a domain-typed success (region excluded, reported as KNOWN-FINDING).',
}


def _spec_parse(req_type, P):
    """oracle: what a correct client must have done after receiving prefix P (bytes).
    -> (phase, info) phase in pending / failed / maybe_failed / success"""
    import socket
    if len(P) < 2:
        return 'pending', None
    if P[0] != 5 or P[1] != 0:
        return 'failed', {'cls': 'SocksError', 'code': None, 'strict_class': False}
    R = P[2:]
    det = None
    if len(R) >= 1 and R[0] != 5:
        det = {'cls': 'SocksError', 'code': None, 'strict_class': False}
    elif len(R) >= 2 and R[1] != 0:
        det = {'cls': ERR_CLASSES.get(R[1], 'SocksError'), 'code': R[1], 'strict_class': True}
    elif len(R) >= 4 and R[3] not in (1, 3, 4):
        det = {'cls': 'SocksError', 'code': None, 'strict_class': False}
    if det is not None:
        return ('failed' if len(R) >= 10 else 'maybe_failed'), det
    if len(R) < 4:
        return 'pending', None
    atyp = R[3]
    if atyp == 1:
        L = 10
    elif atyp == 4:
        L = 22
    else:
        if len(R) < 5:
            return 'pending', None
        L = 7 + R[4]
    if len(R) < L:
        return 'pending', None
    if atyp == 1:
        ans = [socket.inet_ntoa(R[4:8])]
    elif atyp == 4:
        ans = [socket.inet_ntop(socket.AF_INET6, R[4:20]), R[4:20]]
    else:
        ans = [R[5:5 + R[4]], R[5:5 + R[4]].decode('latin-1')]
    return 'success', {'rest': R[L:], 'answers': ans, 'atyp': atyp}


def run_history(req_type, host, port, chunks, disconnect_after=None):
    """drive a real _SocksMachine; returns list of violation dicts (empty = property held)"""
    import txtorcon.socks as socks
    from twisted.python.failure import Failure
    created = []
    outcomes = []
    sent = []
    closed = []

    class App(object):
        def __init__(self):
            self.data = b''
            self.lost = 0

        def dataReceived(self, d):
            self.data += d

        def connectionLost(self, reason):
            self.lost += 1

    def create(addr, p):
        a = App()
        created.append(a)
        return a
    m = socks._SocksMachine(req_type, host, port, on_disconnect=closed.append, on_data=sent.append,
                            create_connection=create)
    d = m.when_done()
    d.addCallbacks(lambda v: outcomes.append(('ok', v)), lambda f: outcomes.append(('err', f.value)))
    m.connection()
    viol = []
    hist = {'req_type': req_type, 'host': host, 'port': port, 'chunks': [c.hex() for c in chunks],
            'disconnect_after': disconnect_after}

    seen = {'domain_connect': False}

    def bad(clause, what, sig):
        v = {'key': 'C05:%s:%s:%s' % (clause, req_type, sig), 'clause': clause, 'what': what, 'history': hist}
        if seen['domain_connect']:
            # region of the known finding: CONNECT answered by a success reply of address type 3
            v['finding'] = F_CONNECT_DOMAIN
        viol.append(v)

    def check(P, where):
        phase, info = _spec_parse(req_type, P)
        if phase == 'success' and req_type == 'CONNECT' and info['atyp'] == 3:
            seen['domain_connect'] = True
        delivered = b''.join(a.data for a in created)
        sig = '%s/%s' % (phase, (info or {}).get('atyp', (info or {}).get('cls')))
        if phase == 'pending' or (phase == 'maybe_failed' and not outcomes):
            if outcomes or created or delivered:
                bad('nothing_before_complete_reply', '%s: outcome/protocol/data before a complete reply: %r' % (where, outcomes), sig)
            return phase
        if phase in ('failed', 'maybe_failed'):
            if created or delivered:
                bad('failure_creates_nothing', '%s: protocol created or data delivered on a failure reply' % where, sig)
            if len(outcomes) != 1 or outcomes[0][0] != 'err':
                bad('failure_exactly_once', '%s: expected exactly one failure, got %r' % (where, outcomes), sig)
                return phase
            e = outcomes[0][1]
            if not isinstance(e, socks.SocksError):
                bad('failure_is_socks_error', '%s: %r' % (where, e), sig)
            elif info['strict_class']:
                want = getattr(socks, info['cls'])
                if info['cls'] != 'SocksError' and type(e) is not want:
                    bad('error_class_matches_reply_code', '%s: code %d gave %s' % (where, info['code'], type(e).__name__), sig)
                if e.code != info['code']:
                    bad('error_code_preserved', '%s: code %r gave .code=%r' % (where, info['code'], e.code), sig)
            return phase
        # success
        if req_type == 'CONNECT':
            if len(created) != 1:
                bad('success_creates_protocol_once', '%s: %d protocols created' % (where, len(created)), sig)
                return phase
            if outcomes != [('ok', created[0])]:
                bad('success_resolves_once_with_protocol', '%s: outcomes %r' % (where, outcomes), sig)
            if delivered != info['rest']:
                bad('bytes_after_reply_relayed_exactly', '%s: delivered %s expected %s' % (where, delivered.hex(), info['rest'].hex()), sig)
        else:
            if created:
                bad('resolve_creates_no_protocol', where, sig)
            if len(outcomes) != 1 or outcomes[0][0] != 'ok' or outcomes[0][1] not in info['answers']:
                bad('resolve_yields_answer_in_reply', '%s: outcomes %r expected one of %r' % (where, outcomes, info['answers']), sig)
        return phase
    P = b''
    phase = 'pending'
    if disconnect_after == -1:
        m.disconnected(socks.SocksError('lost'))
    else:
        for i, c in enumerate(chunks):
            if phase == 'success' and req_type != 'CONNECT':
                break    # bytes after a resolve answer are outside the contract
            P += c
            try:
                m.feed_data(c)
            except Exception as e:
                bad('no_exception_escapes', 'chunk %d: %r' % (i, e), type(e).__name__)
                return viol, P
            phase = check(P, 'after chunk %d' % i)
            if disconnect_after == i:
                before = list(outcomes)
                try:
                    m.disconnected(socks.SocksError('lost'))
                except Exception as e:
                    bad('no_exception_escapes_disconnect', repr(e), type(e).__name__)
                    return viol, P
                if len(outcomes) != 1:
                    bad('disconnect_resolves_exactly_once', 'outcomes after disconnect: %r' % (outcomes,), phase)
                elif before and outcomes != before:
                    bad('outcome_not_changed_by_disconnect', repr(outcomes), phase)
                elif not before and outcomes[0][0] != 'err':
                    bad('disconnect_before_success_fails', repr(outcomes), phase)
                if created and created[0].lost != 1:
                    bad('application_told_of_disconnect_once', 'connectionLost calls: %d' % created[0].lost, phase)
                break
    return viol, P


def _segmentations(n, maxcuts):
    import itertools
    for k in range(0, maxcuts + 1):
        for cuts in itertools.combinations(range(1, n), k):
            yield cuts


def _split(s, cuts):
    out = []
    prev = 0
    for c in list(cuts) + [len(s)]:
        out.append(s[prev:c])
        prev = c
    return [x for x in out if x]


def _streams(tier, rnd):
    method = [b'\x05\x00', b'\x04\x00', b'\x05\x02', b'\x05\xff', b'\x05\x01']
    reps = [0, 1, 2, 3, 4, 5, 6, 7, 8, 9, 0x55, 0xff] if tier == 'quick' else list(range(256))
    bodies = []
    for rep in reps:
        forms = [bytes([5, rep, 0, 1]) + b'\x01\x02\x03\x04' + b'\x1f\x90']
        if rep in (0, 1, 5, 9) or (tier != 'quick' and rep in (2, 3, 4, 6, 7, 8, 0x55, 0xff)):
            forms += [bytes([5, rep, 0, 4]) + bytes(range(16)) + b'\x00\x50',
                      bytes([5, rep, 0, 3, 0]) + b'\x00\x50',
                      bytes([5, rep, 0, 3, 1]) + b'x' + b'\x00\x50',
                      bytes([5, rep, 0, 3, 5]) + b'a.b.c' + b'\x01\xbb',
                      bytes([5, rep, 0, 2]) + b'\x00' * 6]
        bodies.extend(forms)
    bodies.append(bytes([4, 0, 0, 1]) + b'\x00' * 6)
    tails = [b'', b'Z', b'hello']
    for mth in method:
        if mth != b'\x05\x00':
            yield mth + b'\x05\x00\x00\x01' + b'\x00' * 6
            continue
        for b in bodies:
            for t in tails:
                yield mth + b + t


def twin(tier, seed):
    import random
    rnd = random.Random(seed)
    evaluations = 0
    distinct = set()
    violations = []
    samples = []
    maxcuts = 2 if tier == 'quick' else 3
    targets = {'CONNECT': ('example.com', 443), 'RESOLVE': ('example.com', 0), 'RESOLVE_PTR': ('1.2.3.4', 0)}
    for req_type in REQ_TYPES:
        host, port = targets[req_type]
        for s in _streams(tier, rnd):
            n = len(s)
            if tier == 'quick':
                segs = list(_segmentations(n, 2 if n <= 16 else 1))
            else:
                segs = list(_segmentations(n, 3 if n <= 12 else (2 if n <= 20 else 1)))
            segs.append(tuple(range(1, n)))           # byte by byte
            for _ in range(4 if tier == 'quick' else 16):  # random denser segmentations
                segs.append(tuple(sorted(rnd.sample(range(1, n), rnd.randint(1, n - 1)))))
            for cuts in segs:
                chunks = _split(s, cuts)
                discs = [None]
                if len(cuts) <= 1:
                    discs += list(range(-1, len(chunks)))
                elif tier == 'quick':
                    discs += [rnd.randrange(-1, len(chunks))]
                else:
                    discs += sorted(set(rnd.randrange(-1, len(chunks)) for _ in range(2)))
                for disc in discs:
                    v, P = run_history(req_type, host, port, chunks, disc)
                    evaluations += 1
                    if len(P) > 2:
                        distinct.add((req_type, s, cuts, disc))
                    violations.extend(v)
                    if len(samples) < 3 and len(chunks) > 1:
                        samples.append({'req_type': req_type, 'chunks': [c.hex() for c in chunks], 'disconnect_after': disc})
    # glue: the real _TorSocksProtocol on a StringTransport
    v, n_glue = _glue_checks()
    violations.extend(v)
    evaluations += n_glue
    return {'evaluations': evaluations, 'distinct_nontrivial': len(distinct), 'samples': samples,
            'violations': violations,
            'rule': 'one evaluation = one (request type, server byte stream, segmentation, disconnect position) run of the '
                    'real _SocksMachine checked after every chunk against an RFC 1928 oracle; non-trivial = the stream '
                    'reached the request-reply phase; distinct by (type, stream, cuts, disconnect)',
            'bounds': 'method replies x reply codes %s x atyp {1,3,4,unknown} x tails {0,1,5 bytes}; segmentations with <= %s cuts '
                      '+ bytewise + seeded random; disconnect at every chunk boundary for <= 1 cut, at %s for more cuts'
                      % (('12 codes', '2 (1 for streams > 16 bytes)', 'one seeded boundary') if tier == 'quick' else
                         ('0..255 (IPv4 form; 12 codes for the other forms)', '3 (2 for streams of 13..20 bytes, 1 beyond)', 'two seeded boundaries'))}


def _glue_checks():
    """_TorSocksProtocol on a StringTransport: application writes go out on the same connection"""
    import txtorcon.socks as socks
    from twisted.internet.protocol import Protocol, Factory
    from twisted.test.proto_helpers import StringTransport
    viol = []
    n = 0
    for cuts in [(), (2,), (2, 12), (1, 5, 12, 13)]:
        n += 1
        got = []

        class App(Protocol):
            def dataReceived(self, d):
                got.append(d)
        f = Factory.forProtocol(App)
        sf = socks._TorSocksFactory('example.com', 80, 'CONNECT', f)
        p = sf.buildProtocol(None)
        t = StringTransport()
        p.makeConnection(t)
        stream = b'\x05\x00' + b'\x05\x00\x00\x01\x00\x00\x00\x00\x00\x00' + b'DATA'
        res = []
        p.when_done().addBoth(res.append)
        for c in _split(stream, cuts):
            p.dataReceived(c)
        hist = {'glue': True, 'cuts': list(cuts)}
        if len(res) != 1 or not isinstance(res[0], App):
            viol.append({'key': 'C05:glue_success', 'what': 'when_done: %r' % (res,), 'history': hist})
            continue
        if b''.join(got) != b'DATA':
            viol.append({'key': 'C05:glue_relay', 'what': 'application got %r' % (got,), 'history': hist})
        t.clear()
        res[0].transport.write(b'up')
        if t.value() != b'up':
            viol.append({'key': 'C05:glue_writes', 'what': 'application write did not reach the transport', 'history': hist})
    return viol, n


def replay(unit, name, model):
    """replay a solver counterexample on the real machine: reach the pre-state through the
    public API (connection(), feed_data of the buffered prefix), then feed the chunk."""
    m = unit.split('@')[1]
    state, req_type = m.split('/')
    handler = unit.split('/')[1].split('@')[0]

    def by(x):
        return bytes.fromhex(x['bytes_hex']) if isinstance(x, dict) and 'bytes_hex' in x else b''
    data0 = by(model.get('data0'))
    chunk = by(model.get('chunk')) if 'chunk' in model else b''
    targets = {'CONNECT': ('example.com', 443), 'RESOLVE': ('example.com', 0), 'RESOLVE_PTR': ('1.2.3.4', 0)}
    host, port = targets[req_type]
    if state == 'sent_version':
        pre = [data0]
    elif state == 'sent_request':
        pre = [b'\x05\x00', data0]
    elif state == 'relaying':
        pre = [b'\x05\x00', b'\x05\x00\x00\x01' + b'\x00' * 6]
    elif state == 'done' and req_type != 'CONNECT':
        pre = [b'\x05\x00', b'\x05\x00\x00\x01' + b'\x00' * 6]
    else:
        pre = [b'\x05\x01']      # abort
    pre = [c for c in pre if c]
    if handler == 'disconnected':
        chunks = pre
        disc = len(chunks) - 1
    else:
        # one probe chunk after the model's chunk exposes latent state (bytes still buffered)
        chunks = pre + [chunk, b'Z']
        disc = None
    v, P = run_history(req_type, host, port, chunks, disc)
    return {'reproduced': bool(v), 'history': {'req_type': req_type, 'chunks': [c.hex() for c in chunks], 'disconnect_after': disc},
            'native_violations': v[:3], 'what': v[0]['what'] if v else '', 'finding': v[0].get('finding') if v else None}


def replay_file(doc):
    if doc.get('kind') == 'twin':
        h = doc['violation']['history']
        if h.get('glue'):
            v, _ = _glue_checks()
            return {'reproduced': bool(v), 'native_violations': v[:3]}
        v, P = run_history(h['req_type'], h['host'], h['port'], [bytes.fromhex(c) for c in h['chunks']], h['disconnect_after'])
        return {'reproduced': bool(v), 'native_violations': v[:3]}
    k = doc['obligation']
    unit, name = k.split('::')
    return replay(unit, name, doc['model'])
