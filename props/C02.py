"""C02 -- 650 events reach exactly their listeners, in order, and never touch replies.

Proof units:
  lineReceived@<fsm>/<queue state>/event   6xx lines (all three wire forms): frame condition on the
                                           command queue + payload / listener selection on the final line
  Event.listen / unlisten / got_update     fan-out loop against the snapshot of listeners
  add_event_listener / remove_event_listener   SETEVENTS lists exactly the subscribed names"""
import z3

from pyvc.exec import Raise, Unsupported
from pyvc.sym import (VList, VInt, VBool, VStr, VBytes, VNone, NONE, VTuple, VInst, VOpaque, VUnion, VConc, VFunc, VSeq, VMap,
                      concrete_of, mk_str, zand, zor, TOpt, TOpaque, TSeq)
from pyvc.models import WS_STR, is_ws_char
from contracts import control as K
from props import C01

PROP = 'C02'
MODULE = 'txtorcon.torcontrolprotocol'
FUNCS = C01.FUNCS + ['TorControlProtocol._handle_notify', 'TorControlProtocol.add_event_listener',
                     'TorControlProtocol.remove_event_listener', 'Event.listen', 'Event.unlisten', 'Event.got_update']
TRUSTED = C01.TRUSTED + [
    'A9 for events: the text of an event starts with its name, followed by SP, a newline or the end of the text',
    'listeners may add/remove listeners and submit commands during delivery (rely A11); they do not touch Event.callbacks directly',
    "' '.join(names) is an uninterpreted function of the name sequence (A7)",
]
LEVEL = 'proof'
MANIFEST = {
    'category': 'proof',
    'technique': 'contract-based deductive verification: frame condition and payload/listener-selection postconditions on the real 6xx path of lineReceived, fan-out loop of Event.got_update by per-iteration contract over the listener snapshot, SETEVENTS content for add/remove (pyvc VCs, z3/cvc5); bounded CPython twin',
    'text': 'For every FSM state, every state of the command queue (idle / plain in flight / per-line-callback in flight, any depth) and every 6xx line of '
            'the three wire forms it is proved that command, queue, Deferreds, per-line callbacks and written bytes are untouched, that the final line '
            'delivers payload = text after the event name to exactly the Event registered under that name (nothing for unsubscribed names), and returns '
            'the FSM to idle. Event.got_update is proved to call every listener of the snapshot once, in order, surviving listener exceptions; '
            'add/remove_event_listener are proved to issue SETEVENTS with exactly the subscribed names, only on first-listener / last-removal.',
    'level_note': 'Assumed (A): session grammar A9 (events not nested in replies, event text starts with its name), rely on listeners, join uninterpreted. '
                  'Bounded (B): interleavings of events with replies, listener sets <= 3 with add/remove inside callbacks, segmentations - in the twin.',
}


def make_models():
    return K.ControlModels()


def B(x):
    return z3.BoolVal(bool(x))


def no_ws(s):
    return zand(*[z3.Not(z3.Contains(s, mk_str(c))) for c in WS_STR])


def unit_event_line(fsm_state, cmdkind):
    def run(ctx):
        for q in FUNCS:
            try:
                ctx.fn(MODULE, q)
            except KeyError:
                ctx.notes.append('function %s not found' % q)
        ex = ctx.ex
        path = ctx.new_path()
        SELF, pre = K.make_proto(ctx, path, fsm_state, lost=False, cmd_kind=cmdkind)
        line = z3.String('line')
        ctx.input('line', VStr(line))
        path.assume(z3.InRe(line, C01.ascii_re()))
        ddd, sep, text = C01.line_parts(line)
        code = z3.StrToInt(ddd)
        if fsm_state in ('IDLE', 'RECV'):
            path.assume(z3.Length(line) >= 4)
            path.assume(z3.InRe(ddd, z3.Concat(C01.RE_DIGIT, C01.RE_DIGIT, C01.RE_DIGIT)))
            path.assume(z3.Or(sep == mk_str(' '), sep == mk_str('-'), sep == mk_str('+')))
            path.assume(z3.And(code >= 600, code < 700))
        if fsm_state != 'IDLE':
            path.assume(z3.And(pre['code0'] >= 600, pre['code0'] < 700))
        if fsm_state == 'RECV':
            path.assume(code == pre['code0'])
        # A9: the assembled event text starts with its name
        if fsm_state in ('IDLE', 'RECV'):
            full = z3.Concat(pre['response0'], text)
            nl = z3.IndexOf(full, mk_str('\n'), 0)
            firstline = z3.If(nl >= 0, z3.SubString(full, 0, nl), full)
            # spec: the event name is the first whitespace-delimited token of the first line (A7 split),
            # and (A9) the text starts with it, followed by whitespace or the end
            name_s = K.F_tok(firstline, 0)
            rest_s = z3.String('event_rest')
            path.assume(K.F_ntok(firstline) >= 1)
            path.assume(full == z3.Concat(name_s, rest_s))
            path.assume(z3.Length(name_s) > 0)
            path.assume(no_ws(name_s))
            path.assume(z3.Or(z3.Length(rest_s) == 0, is_ws_char(z3.SubString(rest_s, 0, 1))))
        ctx.cover('pre_satisfiable', path)
        H0 = path.heap
        oid = pre['oid']
        events0 = H0[('f', oid, 'events')]
        outs = ex.getattr_v(path, SELF, 'lineReceived')
        outs = ex.call(outs[0][0], outs[0][1], [VBytes(line)], {})
        optev = TOpt(K.TEvent)
        for p, r in outs:
            if isinstance(r, Raise):
                cname = r.exc.cls.__name__ if isinstance(r.exc, VInst) else '?'
                ctx.oblige('no_exception[%s]' % cname, p, B(False),
                           clause='an event line never raises out of lineReceived')
                continue
            post = K.post_terms(ctx, p, pre)
            X = z3.Empty(K.TCmds.sort())
            for x in post['reent']:
                X = z3.Concat(X, x)
            # frame: with the queue busy, re-entrant submissions from listeners only append
            # ghosts: an event resolves nothing; re-entrant submissions are accounted for by the rely model
            ctx.oblige('frame.event_handler_writes_nothing_itself', p, B(len(post['writes']) == 0))
            for name, g in K.inv_clauses(ctx, p, pre, post):
                ctx.oblige('inv.' + name, p, g, clause='Inv preserved')
            ctx.oblige('frame.no_command_resolved_by_event', p, B(len(post['fired']) == 0),
                       clause='events never change, delay or get absorbed into any command\'s reply')
            ctx.oblige('frame.no_per_line_callback_called_by_event', p, B(len(post['percb']) == 0),
                       clause='events never get absorbed into a per-line callback')
            if cmdkind != 'none':
                ctx.oblige('frame.queue_untouched_by_event', p,
                           zand(post['command'] == pre['command0'], post['commands'] == z3.Concat(pre['commands0'], X),
                                B(len(post['writes']) == 0)),
                           clause='events never change the command queue')
            delivered = post['delivered']
            resp1 = post['response'].t if isinstance(post['response'], VStr) else None
            if fsm_state in ('IDLE', 'RECV'):
                is_final = sep == mk_str(' ')
                want_fsm = z3.If(sep == mk_str('-'), 0, z3.If(sep == mk_str('+'), 1, 2))
                got_fsm = {'RECV': 0, 'RECV_PLUS': 1, 'IDLE': 2}.get(post['fsm'], 9)
                ctx.oblige('post.next_state_follows_separator', p, want_fsm == got_fsm)
                ctx.oblige('post.event_mid_line_accumulates', p,
                           z3.Implies(z3.Not(is_final), zand(resp1 == z3.Concat(pre['response0'], text, mk_str('\n')),
                                                             B(len(delivered) == 0))),
                           clause='multi-line and data-block events are assembled, whatever command is in flight')
                cell = z3.Select(events0.t, name_s)
                subscribed = z3.Not(optev.is_none(cell))
                payload = z3.SubString(full, z3.Length(name_s) + 1, z3.Length(full))
                if len(delivered) == 1:
                    ev, data, cbs = delivered[0]
                    ok = zand(subscribed, ev.t == optev.dt.accessor(1, 0)(cell),
                              data.t == payload if isinstance(data, VStr) else B(False))
                    ctx.oblige('post.final_line_delivers_exact_payload_to_subscribed_event', p, z3.And(is_final, ok),
                               clause='delivered exactly once with its exact payload to the listeners registered for that event name')
                else:
                    ctx.oblige('post.subscribed_event_is_delivered_exactly_once', p,
                               z3.Implies(z3.And(is_final, subscribed), B(False)) if len(delivered) == 0 else B(False),
                               clause='every event is delivered exactly once')
            else:
                is_term = line == mk_str('.')
                ctx.oblige('post.event_data_line_accumulates_unstuffed', p,
                           z3.Implies(z3.Not(is_term), zand(resp1 == z3.Concat(pre['response0'], C01.unstuff(line), mk_str('\n')),
                                                            B(post['fsm'] == 'RECV_PLUS'), B(len(delivered) == 0))))
                ctx.oblige('post.event_data_block_ends_on_dot', p,
                           z3.Implies(is_term, zand(resp1 == pre['response0'], B(post['fsm'] == 'RECV'), B(len(delivered) == 0))))
    return run


# ---- Event class -----------------------------------------------------------------------------
TL = K.TL


class EventModels(K.ControlModels):
    def reenter(self, ex, path):
        pass

    def opaque_call(self, ex, path, f, args, kw):
        if f.kind == 'listener':
            # a listener may return normally or raise; either way it was called once
            self.glog_add(path, 'heard', (f, args[0]))
            pr = path.fork()
            b = ex.fresh_bool(pr, 'listener_raises')
            pr.assume(b)
            path.assume(z3.Not(b))
            # listeners may unsubscribe themselves / others during delivery (rely): the live list changes
            ev_oid = path.heap.get(('g', 'event_oid'))
            if ev_oid is not None:
                for pp in (path, pr):
                    n = pp.fresh()
                    pp.heap[('f', ev_oid, 'callbacks')] = VSeq(z3.Const('cbs_h%d' % n, z3.SeqSort(z3.IntSort())), TL)
            return [(path, NONE)] + ex.raise_(pr, Exception, 'listener failed')
        return K.ControlModels.opaque_call(self, ex, path, f, args, kw)

    def loop(self, ex, path, fr, st, it, ordinal):
        q = fr.func.qualname if fr.func is not None else ''
        if q.endswith('Event.got_update') and isinstance(it, VSeq):
            ctx = self.ctx
            org = getattr(it, 'origin', None)
            live = org is not None and org[0] == 'f'       # (the value of a field read now; a local holding a copy is a snapshot)
            ctx.oblige('loop.fanout.iterates_over_a_snapshot_of_the_listeners', path, B(not live),
                       clause='a listener that unsubscribes itself or another listener during delivery does not stop the '
                              'remaining listeners from receiving that event')
            bp = path.fork()
            i = ex.fresh_int(bp, 'loop_i')
            bp.assume(z3.And(i >= 0, i < z3.Length(it.t)))
            elem = it.elem.wrap(z3.simplify(it.t[i]))
            n0 = len(bp.heap.get(('g', 'heard'), ()))
            data = bp.heap.get(('g', 'event_data'))
            # at an arbitrary iteration the listeners called so far may have changed the live list (rely A11): whatever the
            # body reads from it is unconstrained - the snapshot alone decides who is called
            ev_oid = bp.heap.get(('g', 'event_oid'))
            if ev_oid is not None:
                bp.heap[('f', ev_oid, 'callbacks')] = VSeq(z3.Const('cbs_live!%d' % bp.fresh(), z3.SeqSort(z3.IntSort())), TL)
            for p2, r in ex.assign(st.target, elem, bp, fr):
                for p3, flow, v in ex.exec_block(st.body, p2, fr):
                    heard = p3.heap.get(('g', 'heard'), ())[n0:]
                    ok = B(False)
                    if len(heard) == 1 and flow in ('next', 'continue'):
                        ok = z3.And(heard[0][0].t == elem.t, ex.eq_term(p3, heard[0][1], data))
                    ctx.oblige('loop.fanout.each_listener_called_once_and_loop_continues', p3, ok,
                               clause='a listener that raises does not stop the remaining listeners; each gets the event once')
            path.heap[('g', 'fanout')] = path.heap.get(('g', 'fanout'), ()) + (it,)
            return [(path, 'next', None)]
        return None


def unit_event(meth):
    def run(ctx):
        for q in ['Event.listen', 'Event.unlisten', 'Event.got_update']:
            ctx.fn(MODULE, q)
        import txtorcon.torcontrolprotocol as tcp
        ex = ctx.ex
        path = ctx.new_path()
        ev = ex.new_inst(path, tcp.Event)
        cbs0 = z3.Const('callbacks0', z3.SeqSort(z3.IntSort()))
        ctx.input('callbacks0', cbs0)
        path.heap[('f', ev.oid, 'callbacks')] = VSeq(cbs0, TL)
        path.heap[('f', ev.oid, 'name')] = VStr(z3.String('evname'))
        path.heap[('g', 'event_oid')] = ev.oid
        ctx.cover('pre_satisfiable', path)
        cb = VOpaque('listener', z3.Int('cb'))
        ctx.input('cb', cb)
        if meth == 'got_update':
            data = VStr(z3.String('data'))
            path.heap[('g', 'event_data')] = data
            args = [data]
        else:
            args = [cb]
        outs = ex.getattr_v(path, ev, meth)
        outs = ex.call(outs[0][0], outs[0][1], args, {})
        for p, r in outs:
            cbs1 = p.heap[('f', ev.oid, 'callbacks')]
            if meth == 'listen':
                ctx.oblige('post.listen_appends', p, B(not isinstance(r, Raise)) if isinstance(r, Raise) else
                           (cbs1.t == z3.Concat(cbs0, z3.Unit(cb.t)) if isinstance(cbs1, VSeq) else B(False)),
                           clause='listeners are delivered to in registration order')
            elif meth == 'unlisten':
                present = z3.Contains(cbs0, z3.Unit(cb.t))
                if isinstance(r, Raise):
                    ctx.oblige('post.unlisten_raises_only_for_unknown_listener', p, z3.Not(present))
                else:
                    i = z3.IndexOf(cbs0, z3.Unit(cb.t), 0)
                    ctx.oblige('post.unlisten_removes_exactly_that_listener', p,
                               z3.And(present, cbs1.t == z3.Concat(z3.SubString(cbs0, 0, i),
                                                                   z3.SubString(cbs0, i + 1, z3.Length(cbs0))))
                               if isinstance(cbs1, VSeq) else B(False),
                               clause='... and to nobody else')
            else:
                if isinstance(r, Raise):
                    ctx.oblige('post.got_update_never_raises', p, B(False))
                    continue
                fan = p.heap.get(('g', 'fanout'), ())
                ctx.oblige('post.delivered_to_every_listener_of_the_snapshot_in_order', p,
                           (z3.Length(cbs0) == 0 if len(fan) == 0 else B(False)) if len(fan) != 1 else (fan[0].t == cbs0),
                           clause='delivered exactly once, to every listener registered for that event name at that moment')
    return run


class _Owner(object):
    """a listener object whose bound method is registered: every attribute access builds a fresh bound-method object that is
    equal to, but not the same object as, the one registered earlier"""
    def heard(self, data):
        pass


def unit_unlisten_bound_method():
    def run(ctx):
        ctx.fn(MODULE, 'Event.unlisten')
        import txtorcon.torcontrolprotocol as tcp
        ex = ctx.ex
        path = ctx.new_path()
        ev = ex.new_inst(path, tcp.Event)
        owner, other = _Owner(), _Owner()
        registered = [VConc(other.heard), VConc(owner.heard), VConc(print)]
        lst = ex.new_list(path, registered)
        path.heap[('f', ev.oid, 'callbacks')] = lst
        path.heap[('f', ev.oid, 'name')] = VStr(z3.String('evname'))
        ctx.cover('pre_satisfiable', path)
        outs = ex.getattr_v(path, ev, 'unlisten')
        outs = ex.call(outs[0][0], outs[0][1], [VConc(owner.heard)], {})      # a fresh, equal bound method
        for p, r in outs:
            if isinstance(r, Raise):
                ctx.oblige('post.unlisten_finds_an_equal_bound_method', p, B(False))
                continue
            now = p.heap[('f', ev.oid, 'callbacks')]
            items = ex.list_items(p, now) if isinstance(now, VList) else None
            ok = items is not None and len(items) == 2 and items[0] is registered[0] and items[1] is registered[2]
            ctx.oblige('post.unlisten_removes_the_listener_that_equals_the_argument', p, B(ok),
                       clause='... and to nobody else (a removed listener - here a bound method, a fresh but equal object at every '
                              'attribute access - is no longer registered)')
    return run


# ---- add / remove listener --------------------------------------------------------------------

def events_inv_at(path, pre_oid, name_t, H=None):
    """instance of the events invariant at one name:
       events[name] present  <=>  valid_events[name] has >= 1 listener; both maps agree; Event.name = name;
       key list agrees with the map"""
    H = H if H is not None else path.heap
    ev = H[('f', pre_oid, 'events')]
    val = H[('f', pre_oid, 'valid_events')]
    optev = TOpt(K.TEvent)
    ec = z3.Select(ev.t, name_t)
    vc = z3.Select(val.t, name_t)
    cbs = z3.Select(H[('g', 'ev_cbs')], optev.dt.accessor(1, 0)(vc))
    nm = z3.Select(H[('g', 'ev_name')], optev.dt.accessor(1, 0)(vc))
    present = z3.Not(optev.is_none(ec))
    cl = [
        z3.Implies(present, z3.And(z3.Not(optev.is_none(vc)), ec == vc)),
        z3.Implies(z3.Not(optev.is_none(vc)), z3.And(nm == name_t, present == (z3.Length(cbs) > 0))),
    ]
    return cl


def unit_listener(meth):
    def run(ctx):
        for q in FUNCS:
            try:
                ctx.fn(MODULE, q)
            except KeyError:
                pass
        ex = ctx.ex
        path = ctx.new_path()
        SELF, pre = K.make_proto(ctx, path, 'IDLE', lost=False)
        oid = pre['oid']
        name = z3.String('evt_name')
        ctx.input('evt_name', VStr(name))
        path.assume(z3.InRe(name, C01.ascii_re()))
        cb = VOpaque('listener', z3.Int('cb'))
        H = path.heap
        for c in events_inv_at(path, oid, name):
            path.assume(c)
        other = z3.String('other_name')
        path.assume(other != name)
        for c in events_inv_at(path, oid, other):
            path.assume(c)
        # distinct names map to distinct Event objects (valid_events is injective: one Event per name)
        optev = TOpt(K.TEvent)
        v0 = H[('f', oid, 'valid_events')]
        path.assume(z3.Implies(z3.And(z3.Not(optev.is_none(z3.Select(v0.t, name))), z3.Not(optev.is_none(z3.Select(v0.t, other)))),
                               z3.Select(v0.t, name) != z3.Select(v0.t, other)))
        events0 = H[('f', oid, 'events')]
        keys0 = events0.keys.t
        cbs_arr0 = H[('g', 'ev_cbs')]
        ctx.cover('pre_satisfiable', path)
        ctx.cover('pre_satisfiable_known_event', path, z3.Not(optev.is_none(z3.Select(v0.t, name))))
        outs = ex.getattr_v(path, SELF, meth)
        outs = ex.call(outs[0][0], outs[0][1], [VStr(name), cb], {})
        known = z3.Not(optev.is_none(z3.Select(v0.t, name)))
        subscribed0 = z3.Not(optev.is_none(z3.Select(events0.t, name)))
        evobj = optev.dt.accessor(1, 0)(z3.Select(v0.t, name))
        cbs0 = z3.Select(cbs_arr0, evobj)
        for p, r in outs:
            post = K.post_terms(ctx, p, pre)
            writes = post['writes']
            ev1 = p.heap[('f', oid, 'events')]
            if isinstance(r, Raise):
                if meth == 'add_event_listener':
                    ctx.oblige('post.raises_only_for_unknown_event', p, z3.Not(known))
                else:
                    ctx.oblige('post.raises_only_for_unknown_event_or_listener', p,
                               z3.Or(z3.Not(known), z3.Not(z3.Contains(cbs0, z3.Unit(cb.t)))))
                ctx.oblige('post.refusal_changes_nothing', p,
                           zand(B(len(writes) == 0), ev1.t == events0.t if isinstance(ev1, VMap) else B(False),
                                post['commands'] == pre['commands0']))
                continue
            # the SETEVENTS command, if any, is the last thing queued (idle: written at once; busy: appended)
            X = post['commands']
            newq = z3.Concat(K.opt_as_seq(post['command']), post['commands'])
            oldq = z3.Concat(K.opt_as_seq(pre['command0']), pre['commands0'])
            queued_one = z3.Length(newq) == z3.Length(oldq) + 1
            queued_none = newq == oldq
            last = newq[z3.Length(newq) - 1]
            keys1 = ev1.keys.t if isinstance(ev1, VMap) and ev1.keys is not None else None
            setevents = z3.Concat(mk_str('SETEVENTS '), K.F_join(mk_str(' '), keys1)) if keys1 is not None else None
            cbs1 = z3.Select(p.heap[('g', 'ev_cbs')], evobj)
            if meth == 'add_event_listener':
                ctx.oblige('post.listener_registered_last', p, cbs1 == z3.Concat(cbs0, z3.Unit(cb.t)),
                           clause='listeners receive events in registration order')
                ctx.oblige('post.first_listener_subscribes_with_exactly_the_subscribed_names', p,
                           z3.Implies(z3.Not(subscribed0),
                                      zand(queued_one, K.cmd_bytes(last) == setevents if setevents is not None else B(False),
                                           keys1 == z3.Concat(keys0, z3.Unit(name)) if keys1 is not None else B(False))),
                           clause='the event subscription command lists exactly the names that currently have listeners')
                ctx.oblige('post.further_listener_sends_nothing', p, z3.Implies(subscribed0, zand(queued_none, ev1.t == events0.t)))
            else:
                i = z3.IndexOf(cbs0, z3.Unit(cb.t), 0)
                ctx.oblige('post.listener_removed', p,
                           cbs1 == z3.Concat(z3.SubString(cbs0, 0, i), z3.SubString(cbs0, i + 1, z3.Length(cbs0))))
                lastone = z3.Length(cbs0) == 1
                from pyvc.models import seq_remove_fn
                ctx.oblige('post.last_removal_unsubscribes_with_exactly_the_remaining_names', p,
                           z3.Implies(lastone,
                                      zand(queued_one, K.cmd_bytes(last) == setevents if setevents is not None else B(False),
                                           keys1 == seq_remove_fn(keys0.sort())(keys0, name)
                                           if keys1 is not None else B(False))),
                           clause='the event subscription command lists exactly the names that currently have listeners')
                ctx.oblige('post.other_removal_sends_nothing', p, z3.Implies(z3.Not(lastone), zand(queued_none, ev1.t == events0.t)))
            # events invariant re-established at this name and at an arbitrary other name
            for j, c in enumerate(events_inv_at(p, oid, name)):
                ctx.oblige('inv.events_map_matches_listener_sets[%d]' % j, p, c)
            for j, c in enumerate(events_inv_at(p, oid, other)):
                ctx.oblige('inv.other_events_untouched[%d]' % j, p, c)
    return run


def units():
    out = []
    for st in K.FSM_STATES:
        for ck in ('none', 'plain', 'percb'):
            out.append(('C02/lineReceived@%s/%s/event' % (st, ck), unit_event_line(st, ck)))
    for m in ('listen', 'unlisten', 'got_update'):
        out.append(('C02/Event.%s' % m, unit_event(m)))
    out.append(('C02/Event.unlisten@bound_method', unit_unlisten_bound_method()))
    for m in ('add_event_listener', 'remove_event_listener'):
        out.append(('C02/%s' % m, unit_listener(m)))
    return out


def make_models_for(unit_name):
    return EventModels() if '/Event.' in unit_name else K.ControlModels()


# ==========================================================================================
# bounded twin (B)

def encode_event(name, form, lines, code=650):
    """three wire forms of an asynchronous event; `lines` are payload lines after the name"""
    if form == 'single':
        return ('%d %s%s\r\n' % (code, name, (' ' + lines[0]) if lines else '')).encode('ascii'), \
            (lines[0] if lines else '')
    if form == 'multi':
        out = ['%d-%s' % (code, name)] + ['%d-%s' % (code, l) for l in lines] + ['%d OK' % code]
        return ''.join(l + '\r\n' for l in out).encode('ascii'), '\n'.join(lines + ['OK'])
    out = ['%d+%s' % (code, name)] + [('.' + l if l.startswith('.') else l) for l in lines] + ['.', '%d OK' % code]
    return ''.join(l + '\r\n' for l in out).encode('ascii'), '\n'.join(lines + ['OK'])


def run_event_session(script, cuts_mode='whole'):
    """script: list of steps
         ('add', name, lid, behaviour)   behaviour in plain / raises / unsub_self / unsub_other:<lid> / adds:<name>:<lid>
         ('remove', name, lid)
         ('cmd', percb)                  submit a command (reply later)
         ('reply', idx)                  server answers command idx with a fixed 3-line reply
         ('event', name, form, lines)    server sends an event
    """
    from twin import control_session as CS
    proto, t = CS.make_proto()
    proto._set_valid_events('CIRC STREAM BW NS CONF_CHANGED A B')
    viol = []
    hist = {'script': script, 'mode': cuts_mode}

    def bad(clause, what):
        viol.append({'key': 'C02:%s' % clause, 'clause': clause, 'what': what, 'history': hist})
    heard = []           # (lid, name, payload)
    listeners = {}       # lid -> (name, fn)
    registered = {}      # name -> [lid] in registration order (oracle side)
    recs, lines_seen = [], []

    def mk(lid, name, behaviour):
        def fn(payload):
            heard.append((lid, name, payload))
            if behaviour == 'raises':
                raise RuntimeError('listener %s fails' % lid)
            if behaviour == 'unsub_self':
                do_remove(name, lid)
            elif behaviour.startswith('unsub_other:'):
                o = behaviour.split(':')[1]
                if o in listeners and o in registered.get(listeners[o][0], []):
                    do_remove(listeners[o][0], o)
            elif behaviour.startswith('adds:'):
                _, n2, l2 = behaviour.split(':')
                if l2 not in listeners:
                    do_add(n2, l2, 'plain')
        return fn

    def check_setevents(before):
        new = t.value()[len(before):]
        return new

    def expected_subscribed():
        return [n for n in order_subscribed]
    order_subscribed = []

    class Holder(object):
        """half of the listeners are bound methods: add and remove then see equal but distinct callable objects"""
        def __init__(self, fn):
            self.fn = fn

        def call(self, payload):
            return self.fn(payload)

    def do_add(name, lid, behaviour):
        fn = mk(lid, name, behaviour)
        if sum(map(ord, str(lid))) % 2:
            fn = Holder(fn)
        listeners[lid] = (name, fn)
        first = not registered.get(name)
        registered.setdefault(name, []).append(lid)
        if first:
            order_subscribed.append(name)
        q0 = len(proto.commands) + (1 if proto.command else 0)
        proto.add_event_listener(name, fn.call if isinstance(fn, Holder) else fn)
        q1 = len(proto.commands) + (1 if proto.command else 0)
        check_sub(first, q0, q1, 'add %s' % name)

    def do_remove(name, lid):
        fn = listeners[lid][1]
        registered[name].remove(lid)
        last = not registered[name]
        if last:
            order_subscribed.remove(name)
        q0 = len(proto.commands) + (1 if proto.command else 0)
        proto.remove_event_listener(name, fn.call if isinstance(fn, Holder) else fn)
        q1 = len(proto.commands) + (1 if proto.command else 0)
        check_sub(last, q0, q1, 'remove %s' % name)

    def check_sub(expect_cmd, q0, q1, what):
        if expect_cmd:
            if q1 != q0 + 1:
                bad('subscription_command_issued_on_first_add_last_remove', '%s: queue %d -> %d' % (what, q0, q1))
                return
            last = proto.commands[-1] if proto.commands else proto.command
            names = last[1].decode('ascii').split()
            if names[0] != 'SETEVENTS' or sorted(names[1:]) != sorted(order_subscribed):
                bad('subscription_lists_exactly_names_with_listeners', '%s: sent %r, names with listeners %r' % (what, last[1], order_subscribed))
        elif q1 != q0:
            bad('no_subscription_command_otherwise', '%s: queue %d -> %d' % (what, q0, q1))
    pending_setevents = [0]
    import random
    for step in script:
        try:
            if step[0] == 'add':
                do_add(step[1], step[2], step[3])
            elif step[0] == 'remove':
                if step[2] in listeners and step[2] in registered.get(step[1], []):
                    do_remove(step[1], step[2])
            elif step[0] == 'cmd':
                i = len(recs)
                lines_seen.append([])
                d = proto.queue_command('GETINFO k%d' % i, lines_seen[i].append) if step[1] else proto.queue_command('GETINFO k%d' % i)
                recs.append((CS.Recorder(d), step[1]))
            elif step[0] in ('reply', 'event', 'ack'):
                if step[0] == 'ack':
                    # acknowledge every outstanding SETEVENTS so the queue drains
                    data = b''
                    while proto.command is not None and proto.command[1].startswith(b'SETEVENTS'):
                        proto.dataReceived(b'250 OK\r\n')
                    continue
                if step[0] == 'reply':
                    # drain SETEVENTS acks first (Tor answers in order)
                    while proto.command is not None and proto.command[1].startswith(b'SETEVENTS'):
                        proto.dataReceived(b'250 OK\r\n')
                    data = b'250-k=v\r\n250+d=\r\nline\r\n.\r\n250 OK\r\n'
                    expect = None
                else:
                    data, expect = encode_event(step[1], step[2], list(step[3]))
                    before = len(heard)
                    want = [(lid, step[1], expect) for lid in list(registered.get(step[1], []))]
                for chunks in CS.segmentations(data, cuts_mode, random.Random(1), 1):
                    for c in chunks:
                        proto.dataReceived(c)
                if step[0] == 'event':
                    got = heard[before:]
                    # listeners added during delivery of this very event are not owed it; compare on the snapshot
                    got_snapshot = [g for g in got if g[0] in [w[0] for w in want]]
                    if got_snapshot != want:
                        bad('event_delivered_once_in_order_with_exact_payload',
                            'event %s/%s: listeners heard %r expected %r' % (step[1], step[2], got, want))
                    extra = [g for g in got if g[0] not in [w[0] for w in want]]
                    if extra:
                        bad('event_delivered_to_nobody_else', 'event %s: also heard by %r' % (step[1], extra))
        except Exception as e:
            bad('no_exception', 'step %r: %r' % (step, e))
            return viol
    # drain and check replies untouched by events
    for i, (r, percb) in enumerate(recs):
        if r.results and r.results[0][0] == 'ok':
            if percb:
                if lines_seen[i] != ['k=v', 'd=', 'line', 'OK'] or r.results != [('ok', '')]:
                    bad('events_never_touch_per_line_callbacks', 'command %d: callback saw %r, result %r' % (i, lines_seen[i], r.results))
            elif r.results != [('ok', 'k=v\nd=\nline')]:
                bad('events_never_touch_replies', 'command %d: %r' % (i, r.results))
        elif r.results:
            bad('events_never_touch_replies', 'command %d: %r' % (i, r.results))
        elif percb and lines_seen[i]:
            bad('events_never_touch_per_line_callbacks', 'unanswered command %d: callback saw %r' % (i, lines_seen[i]))
    return viol


def twin(tier, seed):
    import random
    rnd = random.Random(seed)
    violations, evaluations, distinct, samples = [], 0, set(), []
    forms = ['single', 'multi', 'data']
    payloads = [[], ['1 2 3'], ['a=b', 'c d'], ['.dot', '650 X y', ''], ['x']]
    scripts = []
    # structured: each event form x queue state x listener behaviour
    for form in forms:
        for lines in payloads:
            if form == 'single' and len(lines) > 1:
                continue
            for q in ('idle', 'plain', 'percb'):
                for beh in ('plain', 'raises', 'unsub_self', 'unsub_other:l3', 'adds:B:l9'):
                    s = [('add', 'A', 'l1', beh), ('add', 'A', 'l2', 'plain'), ('add', 'A', 'l3', 'plain'), ('ack',)]
                    if q != 'idle':
                        s.append(('cmd', q == 'percb'))
                    s += [('event', 'A', form, lines), ('event', 'B', form, lines), ('event', 'A', 'single', ['again'])]
                    if q != 'idle':
                        s.append(('reply', 0))
                    s += [('remove', 'A', 'l2'), ('event', 'A', form, lines)]
                    scripts.append(s)
    n_rand = 150 if tier == 'quick' else 2000
    for _ in range(n_rand):
        s = []
        lids = 0
        ncmd = 0
        answered = 0
        for _ in range(rnd.randint(4, 12)):
            k = rnd.random()
            if k < 0.3:
                lids += 1
                s.append(('add', rnd.choice('AB'), 'l%d' % lids,
                          rnd.choice(['plain', 'plain', 'raises', 'unsub_self', 'unsub_other:l%d' % rnd.randint(1, max(1, lids)),
                                      'adds:%s:n%d' % (rnd.choice('AB'), lids)])))
            elif k < 0.4 and lids:
                s.append(('remove', rnd.choice('AB'), 'l%d' % rnd.randint(1, lids)))
            elif k < 0.55:
                s.append(('cmd', rnd.random() < 0.5))
                ncmd += 1
            elif k < 0.65 and answered < ncmd:
                s.append(('reply', answered))
                answered += 1
            else:
                s.append(('event', rnd.choice(['A', 'B', 'BW']), rnd.choice(forms), rnd.choice(payloads)))
        s = [st for st in s if not (st[0] == 'event' and st[2] == 'single' and len(st[3]) > 1)]
        scripts.append(s)
    for s in scripts:
        for mode in ('whole', 'bytes') if tier == 'quick' else ('whole', 'lines', 'bytes', 'crlf_split'):
            v = run_event_session(s, mode)
            evaluations += 1
            distinct.add((repr(s), mode))
            violations.extend(v)
        if len(samples) < 3:
            samples.append({'script': s[:8]})
    return {'evaluations': evaluations, 'distinct_nontrivial': len(distinct), 'samples': samples, 'violations': violations,
            'rule': 'one evaluation = one scripted session on the real protocol: listeners (plain / raising / self-unsubscribing / unsubscribing another / '
                    'adding one) on two names, events in the three wire forms for subscribed and unsubscribed names, interleaved with plain and '
                    'per-line-callback commands and their replies, under a segmentation; distinct by (script, segmentation)',
            'bounds': '%d structured scripts (3 forms x 5 payloads x 3 queue states x 5 listener behaviours) + %d seeded scripts of 4..12 steps; <= 3+ listeners' % (
                len(scripts) - n_rand, n_rand)}


def replay(unit, name, model):
    if 'lineReceived' in unit:
        st, kind, _ = unit.split('@')[1].split('/')
        s = [('add', 'A', 'l1', 'plain'), ('ack',)]
        if kind != 'none':
            s.append(('cmd', kind == 'percb'))
        form = {'IDLE': 'single', 'RECV': 'multi', 'RECV_PLUS': 'data'}[st]
        s += [('event', 'A', form, [] if 'IndexError' in name or 'delivered_exactly_once' in name else ['x y']),
              ('event', 'A', 'multi', ['p=q']), ('event', 'A', 'data', ['.d'])]
        if kind != 'none':
            s.append(('reply', 0))
        v = run_event_session(s, 'whole')
        return {'reproduced': bool(v), 'history': {'script': s}, 'what': v[0]['what'] if v else '', 'native_violations': v[:3], 'finding': None}
    if 'got_update' in unit:
        s = [('add', 'A', 'l1', 'unsub_self'), ('add', 'A', 'l2', 'plain'), ('add', 'A', 'l3', 'plain'), ('ack',),
             ('event', 'A', 'single', ['x'])]
        v = run_event_session(s, 'whole')
        return {'reproduced': bool(v), 'history': {'script': s}, 'what': v[0]['what'] if v else '', 'native_violations': v[:3], 'finding': None}
    return {'reproduced': False, 'what': 'no native replay for this unit'}


def replay_file(doc):
    if doc.get('kind') == 'twin':
        h = doc['violation']['history']
        script = [tuple(tuple(x) if isinstance(x, list) else x for x in st) for st in h['script']]
        v = run_event_session(script, h['mode'])
        return {'reproduced': bool(v), 'native_violations': v[:3]}
    unit, name = doc['obligation'].split('::')
    return replay(unit, name, doc['model'])
