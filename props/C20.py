"""C20 -- address map holds a name exactly until its latest mapping expires.

Proof units on the real Addr.update / Addr._expire / AddrMap.update bodies with time as integer
seconds: for every combination of old state {new, timed, never} x new mapping {timed (any sign of
E-now and E-e0, any magnitude), NEVER, <error>} the scheduled expiry equals the mapping's expiry."""
import z3

from pyvc.exec import Raise, Unsupported
from pyvc.sym import (VInt, VBool, VStr, VBytes, VNone, NONE, VTuple, VInst, VOpaque, VUnion, VConc, VFunc, VSeq, VMap,
                      concrete_of, mk_str, zand, zor, TOpt, TOpaque, TStr, TMap)
from contracts import addrmap as A
from contracts.socks import F_family

PROP = 'C20'
MODULE = 'txtorcon.addrmap'
FUNCS = ['Addr.update', 'Addr._expire', 'AddrMap.update', 'AddrMap.find', 'AddrMap.notify', 'AddrMap.add_listener']
TRUSTED = [
    'A6 IReactorTime.callLater / DelayedCall.delay, reset, cancel, active as documented (bounded conformance against task.Clock in the twin)',
    'A7 time is integer seconds: strptime uninterpreted (text -> seconds), utcnow = ghost clock, timedelta.seconds/.days exact; ipaddress classifier',
    'A9 ADDRMAP lines are well-formed: the expiry text parses; tokens given by shlex.split (uninterpreted)',
    'AddrMap.notify delivers to every listener once (contract, not re-proved here)',
    'induction over handler sequences (DESIGN 3.4); pyvc semantics; z3/cvc5',
]
LEVEL = 'proof'
MANIFEST = {
    'category': 'proof',
    'technique': 'contract-based deductive verification: schedule arithmetic of the real Addr.update over unbounded integers against the expiry given by Tor, removal under both keys in _expire, added/expired notifications in AddrMap.update (pyvc VCs, z3/cvc5); bounded CPython twin under task.Clock',
    'text': 'For every old state of a mapping (new / timed / never-expiring) and every new mapping (timed with arbitrary expiry E relative to now and to the old '
            'expiry - unbounded integers, so "however far in the future" is literal - NEVER, <error>) Addr.update is proved to leave exactly one pending '
            'expiry call due at max(E, now), none for NEVER, and to drop an error mapping at once with one "expired"; _expire is proved to remove the entry '
            'under the name and the address key and leave no pending call; AddrMap.update is proved to announce exactly one "added" per new name.',
    'level_note': 'Assumed (A): scheduler contract, integer time, strptime uninterpreted, shlex tokenisation, notify fan-out. '
                  'Bounded (B): ADDRMAP sequences interleaved with clock advances under task.Clock in the twin.',
}


def make_models():
    return A.AddrModels()


def B(x):
    return z3.BoolVal(bool(x))


class TAddrRef(TOpaque):
    def __init__(self):
        TOpaque.__init__(self, 'Addr')

    def unwrap(self, v):
        if isinstance(v, VInst):
            return z3.IntVal(v.oid)
        return TOpaque.unwrap(self, v)


TA = TAddrRef()
CI_EXPIRES = None


def make_state(ctx, path, old):
    import txtorcon.addrmap as am
    ex = ctx.ex
    H = path.heap
    amap = ex.new_inst(path, am.AddrMap)
    addr = ex.new_inst(path, am.Addr)
    now = z3.Int('now')
    ctx.input('now', now)
    H[('g', 'now')] = now
    addr0 = TMap(TStr(), TA).fresh('addr0')
    H[('f', amap.oid, 'addr')] = addr0
    H[('f', amap.oid, 'scheduler')] = VOpaque('scheduler', 8001)
    H[('f', amap.oid, 'listeners')] = ex.new_list(path, [])
    H[('f', addr.oid, 'map')] = amap
    name0 = z3.String('name0')
    ipkey0 = z3.String('ipkey0')
    ctx.input('name0', VStr(name0))
    opt = TOpt(TA)
    me = z3.IntVal(addr.oid)
    # registered under the name and the address key
    path.assume(z3.Select(addr0.t, name0) == opt.dt.constructor(1)(me))
    path.assume(z3.Select(addr0.t, ipkey0) == opt.dt.constructor(1)(me))
    pre = dict(amap=amap, addr=addr, now=now, addr0=addr0, name0=name0, ipkey0=ipkey0, me=me)
    if old == 'new':
        H[('f', addr.oid, 'name')] = NONE
        H[('f', addr.oid, 'ip')] = NONE
        H[('f', addr.oid, 'expires')] = NONE
        H[('f', addr.oid, 'expiry')] = NONE
        H[('f', addr.oid, 'created')] = NONE
    else:
        H[('f', addr.oid, 'name')] = VStr(name0)
        H[('f', addr.oid, 'ip')] = VStr(z3.String('oldip'))
        H[('f', addr.oid, 'created')] = A.VDateTime(z3.Int('t0'))
        path.assume(z3.Int('t0') <= now)
        if old == 'timed':
            e0, due0 = z3.Int('e0'), z3.Int('due0')
            ctx.input('e0', e0)
            ctx.input('due0', due0)
            H[('f', addr.oid, 'expires')] = A.VDateTime(e0)
            call = VOpaque('DelayedCall', 6000)
            H[('f', addr.oid, 'expiry')] = call
            r = ex.getattr_v(path, addr, '_expire')
            H[('g', 'timers')] = ((0, (call, due0, z3.BoolVal(True), r[0][1])),)
            # Inv: due at the expiry, or (expiry already past when set) at the set time, which is <= now
            path.assume(z3.Or(due0 == e0, z3.And(e0 < due0, due0 <= now)))
            path.assume(due0 >= now)      # the call has not fired yet (else the entry would be gone)
            pre.update(e0=e0, due0=due0)
        else:
            H[('f', addr.oid, 'expires')] = NONE
            # Inv(never): no *pending* call owned by the entry - either there never was one, or the one of an earlier timed
            # mapping has been cancelled (Addr.update keeps the cancelled DelayedCall object in the field)
            had = z3.Bool('had_a_timed_expiry_before')
            ctx.input('had_a_timed_expiry_before', VBool(had))
            call = VOpaque('DelayedCall', 6001)
            H[('f', addr.oid, 'expiry')] = VUnion([(had, call), (z3.Not(had), NONE)])
            r = ex.getattr_v(path, addr, '_expire')
            H[('g', 'timers')] = ((0, (call, z3.Int('due_cancelled'), z3.BoolVal(False), r[0][1])),)
    return pre


def owned_active_timers(path, addr):
    out = []
    for k, (c, due, active, fn) in path.heap.get(('g', 'timers'), ()):
        mine = isinstance(fn, VFunc) and fn.qualname.endswith('_expire') and isinstance(fn.bound, VInst) and fn.bound.oid == addr.oid
        out.append((c, due, active, mine))
    return out


def unit_update(old, shape):
    """shape: 'plain' = (name, ip, expiry) ; 'utc' = (name, ip, local-expiry, EXPIRES=<utc>, CACHED=..)"""
    def run(ctx):
        for q in FUNCS:
            ctx.fn(MODULE, q)
        ctx.fn('txtorcon.util', 'maybe_ip_addr')
        ex = ctx.ex
        path = ctx.new_path()
        pre = make_state(ctx, path, old)
        addr, amap, now = pre['addr'], pre['amap'], pre['now']
        name = pre['name0']
        ip = z3.String('ip')
        third = z3.String('third')
        ctx.input('ip', VStr(ip))
        ctx.input('third', VStr(third))
        from pyvc.exec import ci_regex
        anyre = z3.Full(z3.ReSort(z3.StringSort()))
        is_exp = lambda s: z3.InRe(s, z3.Concat(ci_regex('expires='), anyre))
        path.assume(z3.Not(is_exp(name)))
        path.assume(z3.Not(is_exp(ip)))
        path.assume(z3.Not(is_exp(third)))
        path.assume(F_family(mk_str('<error>')) == 0)
        if shape == 'plain':
            args = [VStr(name), VStr(ip), VStr(third)]
            G = third
        else:
            fourth = z3.String('fourth')
            fifth = z3.String('fifth')
            ctx.input('fourth', VStr(fourth))
            path.assume(is_exp(fourth))
            path.assume(z3.Not(is_exp(fifth)))
            args = [VStr(name), VStr(ip), VStr(third), VStr(fourth), VStr(fifth)]
            G = z3.SubString(fourth, 8, z3.Length(fourth))
        if old == 'new':
            # AddrMap.update registered the fresh entry under params[0] and params[1]
            path.assume(pre['ipkey0'] == ip)
        never = z3.InRe(G, ci_regex('NEVER'))
        is_err = ip == mk_str('<error>')
        E = A.F_strptime(G)
        ctx.input('E', E)
        ctx.cover('pre_satisfiable', path)
        ctx.cover('pre_far_future', path, z3.And(z3.Not(never), z3.Not(is_err), E > now + 3 * 86400))
        if old == 'timed':
            ctx.cover('pre_shortened', path, z3.And(z3.Not(never), z3.Not(is_err), E < pre['e0'], E > now))
        outs = ex.getattr_v(path, addr, 'update')
        outs = ex.call(outs[0][0], outs[0][1], args, {})
        opt = TOpt(TA)
        for p, r in outs:
            if isinstance(r, Raise):
                cname = r.exc.cls.__name__ if isinstance(r.exc, VInst) else '?'
                ctx.oblige('no_exception[%s]' % cname, p, B(False), clause='a well-formed ADDRMAP event never raises')
                continue
            H = p.heap
            heard = ctx.models.glog(p, 'heard')
            timers = owned_active_timers(p, addr)
            active_mine = [z3.And(act, B(mine)) for (c, due, act, mine) in timers]
            n_active = sum([z3.If(a, 1, 0) for a in active_mine]) if active_mine else z3.IntVal(0)
            addr1 = H[('f', amap.oid, 'addr')]
            exp1 = H[('f', addr.oid, 'expires')]
            gone = zand(opt.is_none(z3.Select(addr1.t, name)), opt.is_none(z3.Select(addr1.t, pre['ipkey0'])))
            heard_expired = B(len(heard) == 1 and len(heard[0]) == 2 and concrete_of(heard[0][0]) == (True, 'addrmap_expired')
                              and isinstance(heard[0][1], VStr)) if len(heard) == 1 else B(False)
            if len(heard) == 1 and isinstance(heard[0][1], VStr):
                heard_expired = z3.And(heard_expired, heard[0][1].t == name)
            ctx.oblige('post.error_mapping_dropped_at_once', p,
                       z3.Implies(is_err, zand(gone, heard_expired, n_active == 0)),
                       clause='error mappings are dropped at once (no longer returned under the name or the address; one expired; no pending call)')
            ctx.oblige('post.never_mapping_persists_without_pending_expiry', p,
                       z3.Implies(z3.And(z3.Not(is_err), never),
                                  zand(B(isinstance(exp1, VNone)), n_active == 0, addr1.t == pre['addr0'].t, B(len(heard) == 0))),
                       clause='never-expiring mappings persist')
            if isinstance(exp1, A.VDateTime):
                due_ok = []
                for (c, due, act, mine) in timers:
                    if mine:
                        due_ok.append(z3.Implies(act, z3.Or(due == E, z3.And(E < due, due <= now))))
                ctx.oblige('post.timed_mapping_expires_exactly_at_its_expiry', p,
                           z3.Implies(z3.And(z3.Not(is_err), z3.Not(never)),
                                      zand(exp1.t == E, n_active == 1, zand(*due_ok) if due_ok else B(False),
                                           addr1.t == pre['addr0'].t, B(len(heard) == 0))),
                           clause='a later event moves expiry to the new time, earlier or later, however far in the future')
            else:
                ctx.oblige('post.timed_mapping_expires_exactly_at_its_expiry', p,
                           z3.Not(z3.And(z3.Not(is_err), z3.Not(never))))
            nm1 = H[('f', addr.oid, 'name')]
            ctx.oblige('post.name_recorded', p, nm1.t == name if isinstance(nm1, VStr) else B(False))
    return run


def unit_expire(old):
    def run(ctx):
        for q in FUNCS:
            ctx.fn(MODULE, q)
        ex = ctx.ex
        path = ctx.new_path()
        pre = make_state(ctx, path, old)
        addr, amap = pre['addr'], pre['amap']
        if old == 'timed':
            # the scheduler is calling us: our own call is no longer active
            k, (c, due, act, fn) = path.heap[('g', 'timers')][0]
            path.heap[('g', 'timers')] = ((k, (c, due, z3.BoolVal(False), fn)),)
        ctx.cover('pre_satisfiable', path)
        outs = ex.getattr_v(path, addr, '_expire')
        outs = ex.call(outs[0][0], outs[0][1], [], {})
        opt = TOpt(TA)
        for p, r in outs:
            if isinstance(r, Raise):
                ctx.oblige('no_exception', p, B(False))
                continue
            heard = ctx.models.glog(p, 'heard')
            addr1 = p.heap[('f', amap.oid, 'addr')]
            ctx.oblige('post.expired_entry_reachable_under_neither_key', p,
                       zand(opt.is_none(z3.Select(addr1.t, pre['name0'])), opt.is_none(z3.Select(addr1.t, pre['ipkey0']))),
                       clause='when a mapping expires it is no longer returned under either the name or the address')
            ok = (len(heard) == 1 and concrete_of(heard[0][0]) == (True, 'addrmap_expired') and isinstance(heard[0][1], VStr))
            ctx.oblige('post.exactly_one_expired_notification', p,
                       z3.And(B(ok), heard[0][1].t == pre['name0']) if ok else B(False),
                       clause="listeners hear one 'expired' per expiry")
            other = z3.String('other_key')
            ctx.oblige('frame.other_entries_untouched', p,
                       z3.Implies(z3.Select(pre['addr0'].t, other) != opt.dt.constructor(1)(pre['me']),
                                  z3.Select(addr1.t, other) == z3.Select(pre['addr0'].t, other)))
    return run


def unit_map_update(known, shape):
    def run(ctx):
        for q in FUNCS:
            ctx.fn(MODULE, q)
        import txtorcon.addrmap as am
        ex = ctx.ex
        path = ctx.new_path()
        H = path.heap
        amap = ex.new_inst(path, am.AddrMap)
        now = z3.Int('now')
        H[('g', 'now')] = now
        addr0 = TMap(TStr(), TA).fresh('addr0')
        H[('f', amap.oid, 'addr')] = addr0
        H[('f', amap.oid, 'scheduler')] = VOpaque('scheduler', 8001)
        H[('f', amap.oid, 'listeners')] = ex.new_list(path, [])
        n = 3 if shape == 'plain' else 5
        toks = [z3.String('tok%d' % i) for i in range(n)]
        for i, t in enumerate(toks):
            ctx.input('tok%d' % i, VStr(t))
        from pyvc.exec import ci_regex
        anyre = z3.Full(z3.ReSort(z3.StringSort()))
        is_exp = lambda s: z3.InRe(s, z3.Concat(ci_regex('expires='), anyre))
        for i, t in enumerate(toks):
            path.assume(is_exp(t) if (shape == 'utc' and i == 3) else z3.Not(is_exp(t)))
        path.assume(F_family(mk_str('<error>')) == 0)
        H[('g', 'shlex_tokens')] = tuple(VStr(t) for t in toks)
        opt = TOpt(TA)
        cell = z3.Select(addr0.t, toks[0])
        path.assume(z3.Not(opt.is_none(cell)) if known else opt.is_none(cell))
        is_err = toks[1] == mk_str('<error>')
        ctx.cover('pre_satisfiable', path)
        ctx.cover('pre_error_mapping', path, is_err)
        outs = ex.getattr_v(path, amap, 'update')
        outs = ex.call(outs[0][0], outs[0][1], [VStr(z3.String('line'))], {})
        for p, r in outs:
            if isinstance(r, Raise):
                ctx.oblige('no_exception', p, B(False), clause='a well-formed ADDRMAP event never raises')
                continue
            heard = ctx.models.glog(p, 'heard')
            calls = ctx.models.glog(p, 'addr_update_calls')
            addr1 = p.heap[('f', amap.oid, 'addr')]
            if known:
                okc = (len(calls) == 1 and len(calls[0][1]) == n)
                ctx.oblige('post.known_name_updates_the_existing_entry', p,
                           zand(B(okc), calls[0][0].t == opt.dt.accessor(1, 0)(cell) if okc else B(False),
                                zand(*[calls[0][1][i].t == toks[i] for i in range(n)]) if okc else B(False)),
                           clause='a later event for the same name replaces the address and moves expiry')
                ctx.oblige('post.known_name_is_not_announced_again', p, zand(B(len(heard) == 0), addr1.t == addr0.t),
                           clause="exactly one 'added' per new name")
            else:
                ctx.oblige('post.error_for_unknown_name_changes_nothing', p,
                           z3.Implies(is_err, zand(B(len(heard) == 0), addr1.t == addr0.t, B(len(p.heap.get(('g', 'timers'), ())) == 0))),
                           clause='error mappings are dropped at once')
                added = [h for h in heard if concrete_of(h[0]) == (True, 'addrmap_added')]
                oka = len(heard) == 1 and len(added) == 1 and isinstance(added[0][1], VInst)
                reg = B(False)
                if oka:
                    me = opt.dt.constructor(1)(z3.IntVal(added[0][1].oid))
                    reg = zand(z3.Select(addr1.t, toks[0]) == me, z3.Select(addr1.t, toks[1]) == me)
                ctx.oblige('post.new_name_registered_and_announced_once', p, z3.Implies(z3.Not(is_err), zand(B(oka), reg)),
                           clause="listeners hear exactly one 'added' per new name; lookup works under the name and the address")
    return run


class FeedModels(A.AddrModels):
    def opaque_attr(self, ex, path, obj, name):
        if obj.kind == 'addrmap_obj' and name == 'addr':
            return [(path, TMap(TStr(), TOpaque('Addr')).fresh('known_names'))]
        return A.AddrModels.opaque_attr(self, ex, path, obj, name)

    def method(self, ex, path, recv, name, args, kw):
        if isinstance(recv, VOpaque) and recv.kind == 'addrmap_obj' and name == 'update':
            self.glog_add(path, 'map_updates', tuple(args))
            return [(path, NONE)]
        return A.AddrModels.method(self, ex, path, recv, name, args, kw)


def unit_feed():
    """TorState._addr_map: every ADDRMAP event text reaches AddrMap.update, once, unchanged (CACHED or not)"""
    def run(ctx):
        ctx.fn('txtorcon.torstate', 'TorState._addr_map')
        import txtorcon.torstate as ts
        ex = ctx.ex
        path = ctx.new_path()
        st = ex.new_inst(path, ts.TorState)
        path.heap[('f', st.oid, 'addrmap')] = VOpaque('addrmap_obj', 1)
        text = z3.String('event_text')
        ctx.input('event_text', VStr(text))
        ctx.cover('pre_satisfiable', path)
        ctx.cover('pre_cached', path, z3.Contains(text, mk_str('CACHED="YES"')))
        g = ex.getattr_v(path, st, '_addr_map')
        for p, r in ex.call(g[0][0], g[0][1], [VStr(text)], {}):
            if isinstance(r, Raise):
                ctx.oblige('no_exception', p, B(False))
                continue
            ups = ctx.models.glog(p, 'map_updates')
            ok = len(ups) == 1 and len(ups[0]) == 1 and isinstance(ups[0][0], VStr)
            ctx.oblige('post.every_event_reaches_the_address_map_once_unchanged', p, zand(B(ok), ups[0][0].t == text) if ok else B(False),
                       clause="a later event for the same name moves expiry to the new time (Tor's most recent mapping counts, cached or not)")
    return run


def make_models_for(unit_name):
    return FeedModels() if '_addr_map' in unit_name else A.AddrModels()


def units():
    out = [('C20/TorState._addr_map', unit_feed())]
    for known in (True, False):
        for shape in ('plain', 'utc'):
            out.append(('C20/AddrMap.update@%s/%s' % ('known' if known else 'new', shape), unit_map_update(known, shape)))
    for old in ('new', 'timed', 'never'):
        for shape in ('plain', 'utc'):
            out.append(('C20/Addr.update@%s/%s' % (old, shape), unit_update(old, shape)))
    for old in ('timed', 'never'):
        out.append(('C20/Addr._expire@%s' % old, unit_expire(old)))
    return out


# ==========================================================================================
# bounded twin (B): stand-alone module twin/tC20.py (real classes, oracle from the statement)
from pyvc.report import adopt_twin
FINDING_PATTERNS = []
twin, _replay_twin = adopt_twin('twin.tC20', FINDING_PATTERNS)


def replay(unit, name, model):
    """native replay of a solver model on the real classes (props/replay_addr.py)"""
    from props import replay_addr
    return replay_addr.replay(unit, name, model)


def replay_file(doc):
    if doc.get('kind') == 'twin':
        return _replay_twin(doc)
    unit, name = doc['obligation'].split('::')
    return replay(unit, name, doc['model'])
