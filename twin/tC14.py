"""Bounded dynamic check for C14: ADD_ONION carries exactly the requested service; key custody
follows the request.

The real txtorcon classes (EphemeralOnionService.create, EphemeralAuthenticatedOnionService.create,
Tor.create_onion_service, .remove) run against a real TorControlProtocol on a StringTransport.  The
server side is a small scripted Tor written from control-spec 3.27 (ADD_ONION), 3.28 (DEL_ONION),
3.2 (SETEVENTS) and 4.1.25 (HS_DESC): it decodes whatever the library wrote with its own ADD_ONION
argument parser, answers as the spec says and emits descriptor-upload events.  The oracle is computed
from the request (version, key, ports, options) alone.
"""
from twin import control_session as CS   # first: silences Twisted's stderr logging
import base64
import hashlib
import itertools
import random
import time

PROP = 'C14'

# two fixed RSA-1024 keys (PKCS#1 DER, base64, one line) and their v2 service ids
# (rend-spec-v2 1.5: base32 of the first 80 bits of SHA1 of the DER RSAPublicKey), generated offline
REAL_RSA = {
    '@RSA0': ('MIICXAIBAAKBgQDE9jN3RsIFW92uaY9bQpwQqUvrJefsbrmRNViqWvf7bimSacpI/YiKUwxb9uNvppTgSMIz7G7OlWDg9cwmr4HOyQtdr/UAbfNHM7Gmo2sGXdQHUr8O8U8D1UVTAkAQXal4H2G05TjXRuvf/lpJaC0HvQXGHwLNnJ+na04Igzzq+wIDAQABAoGATXmWxv1DRn5bVcbaCAjMgNVHMqkHcH4half0l5YO44zyt0/7rPhlpBuEygv0bK+28f5MvcXr1ED4CaVF95Wj1jVn7kC8bS7jGXBNAuFwIeq8+4Pe2SclXa85RGP0YHiJHjAtZ7snuVoeVwkKasrlOcKVB8HxOOM8So4KU2SeaYECQQDsHis0L/aKiPybJ2P457uZvjZkfZn5ZQx8emzwJoP7u2GER4PZ4Pfpw8OrRJkuaGlLoZRSDGsrr8NR9kMk2CVBAkEA1Yv4bsYVBv5c38Hy/6W/YcD3hbaJu7g5xsYn3lBwt4QFz3NKHQj1j22iC7WSde1eEKPWDWwDhTGS50Yt/N4VOwJBAOtX3qQzsj6+71kOV/z9rOU+zCQ5dME50Mo5lF+BZEgCqt4YEfmW3EOqFludEjlJZLo3oQhuzFtM4xfMp3wP3IECQEjlszT9YYg1pLatmqoyhpZ0LQr0OShfxzlXw5xckV3UL7eVf6NRv6HqpvqgTRL8qLO9egCy8rCxL5jLmD9OAKkCQH2LyHPgfTQSYr3qVoEC2kobTVNFXnj+JtksiOFu+dM4J+arTlIECimu0wDCQMiKnmmjinLhlm8ulRUXt8MfhQ4=',
              'd7tkiwxi3xtqxq2s'),
    '@RSA1': ('MIICXAIBAAKBgQDBPw7iw/BTBTGVDjVZAeL1vycM0Cx+rTGovwTCPdgMHCkOjvtVtPBdl20xzoCqUSzQ3Z+97B9UzYc1ik+pSbKkiuVF7Bew05fx7XeorZJx+9TgBEO8DE/+h/OG/bepsKfYTa4FVeAjZvdXlEMzEj4MJjUsLB5u/k5an0S8O/W+PQIDAQABAoGBAKRzIBzT94D+63nYFIgBNf5BRF8ADM1kX90laUxPSrrLgBj2jmYaS26p/W+kNxQ5bjT0VQtPlD4bhVOHt1Dt+YnXWn1tBZ5iWiAcnCDzRODSwLGSvN8zr87GzHS6AtLRA30oHw6HoqJmrcvGlHpGwbKO+Rlrnp+EPVaJrHPzgczVAkEA75NxtIEAgxDMywx5Q70qt6kt4HQSKTqcDkEIAGaN+GkMvMVOC19oLYmDJKWNkTZ+/szmcaScygm4yIJBEShCUwJBAM5+h4M3b4YnImLZp6uTIhi3rVT74/Wtqr/3sN57YCkLH13UDXD4+d2HGfPtWMcbskIOE+cxgakbkbyG2NNoCy8CQDHrr03Fc63b2lCVEM+kozoR7pVOmlos9EekFV6//+U7PoQ3OMP15WdXuBPyy0Tu7hd56qrTejg/PlnJinVgxjECQBcEQYSdxD+W0x1jl23ne5B3wMlNPm6fCf5V1JAn/mL0y21A+rKR/f/0VC89UHz5GFiGiy9k9EfuO8Ng4IBIA58CQDfI6pqZ42+qNiXIXXGrE4uGfwoefSnFzzrXUyU06dI5WIgVSI+dkfuGRIYRaVgsc2lqR2nbJEAMv2R0kMSZ3oE=',
              'qiv4yvb6w25bcwlh'),
}
_BLOB_TO_SID = dict((b, s) for b, s in REAL_RSA.values())


def _subst(s):
    """history strings name the long real keys by placeholder"""
    if isinstance(s, str):
        for k, (blob, _) in REAL_RSA.items():
            s = s.replace(k, blob)
    return s


def _h(*parts):
    return hashlib.sha256(repr(parts).encode('utf8')).digest()


def _b64(n, *parts):
    out = b''
    i = 0
    while len(out) < n:
        out += _h(i, *parts)
        i += 1
    return base64.b64encode(out[:n]).decode('ascii')


def _v3_address(pub32):
    # rend-spec-v3 6: base32(PUBKEY | CHECKSUM | VERSION), CHECKSUM = SHA3-256(".onion checksum" | PUBKEY | VERSION)[:2]
    chk = hashlib.sha3_256(b'.onion checksum' + pub32 + b'\x03').digest()[:2]
    return base64.b32encode(pub32 + chk + b'\x03').decode('ascii').lower()


def _v2_fake_sid(*parts):
    return base64.b32encode(_h('sid', *parts)[:10]).decode('ascii').lower()


# ==========================================================================================
# independent ADD_ONION / DEL_ONION decoders (control-spec 3.27 / 3.28)
#   "ADD_ONION" SP KeyType ":" KeyBlob [SP "Flags=" Flag *("," Flag)] [SP "MaxStreams=" N]
#       1*(SP "Port=" VirtPort ["," Target]) *(SP "ClientAuth=" ClientName [":" ClientBlob]) CRLF

KNOWN_FLAGS = {'discardpk': 'DiscardPK', 'detach': 'Detach', 'basicauth': 'BasicAuth',
               'nonanonymous': 'NonAnonymous', 'maxstreamscloseircuit': 'MaxStreamsCloseCircuit',
               'maxstreamsclosecircuit': 'MaxStreamsCloseCircuit', 'v3auth': 'V3Auth'}


def parse_add_onion(line):
    """-> dict(keytype, keyblob, flags [canonical names / raw], ports [(virt:int, target:str)], clients [(name, blob|None)], errors [str])"""
    res = {'keytype': None, 'keyblob': None, 'flags': [], 'ports': [], 'clients': [], 'errors': []}
    err = res['errors'].append
    toks = line.split(' ')
    if len(toks) < 2 or toks[1] == '':
        err('no key specifier')
        return res
    if ':' not in toks[1]:
        err('key specifier %r is not KeyType:KeyBlob' % toks[1][:40])
    else:
        res['keytype'], res['keyblob'] = toks[1].split(':', 1)
        if not res['keytype'] or not res['keyblob']:
            err('empty key type or blob')
    seen_flags = False
    for t in toks[2:]:
        if t == '':
            err('empty argument (doubled space)')
            continue
        k, sep, v = t.partition('=')
        kl = k.lower()
        if not sep:
            err('argument %r is not keyword=value' % t[:40])
        elif kl == 'flags':
            if seen_flags:
                err('Flags= given twice')
            seen_flags = True
            for f in v.split(','):
                if f == '':
                    err('empty flag in %r' % t)
                else:
                    res['flags'].append(KNOWN_FLAGS.get(f.lower(), f))
        elif kl == 'port':
            virt, comma, target = v.partition(',')
            if not (virt.isdigit() and 1 <= int(virt) <= 65535):
                err('VirtPort %r is not a port number' % virt[:20])
                continue
            virt = int(virt)
            if not comma:
                target = '127.0.0.1:%d' % virt          # "Target defaults to 127.0.0.1:VirtPort"
            elif target == '':
                err('empty Target in %r' % t)
                continue
            elif target.isdigit():
                target = '127.0.0.1:%s' % int(target)    # a bare port is that port on 127.0.0.1
            res['ports'].append((virt, target))
        elif kl == 'clientauth':
            name, colon, blob = v.partition(':')
            if name == '':
                err('empty ClientName in %r' % t)
                continue
            if colon and blob == '':
                err('empty ClientBlob in %r' % t)
            res['clients'].append((name, blob if colon else None))
        elif kl == 'maxstreams':
            if not v.isdigit():
                err('MaxStreams %r' % v)
        else:
            err('unknown argument %r' % t[:40])
    if not res['ports']:
        err('no Port= argument (at least one is required)')
    return res


# ==========================================================================================
# scripted Tor

class ScriptedTor(object):
    def __init__(self, proto, transport, hseed, on_step):
        self.proto, self.t = proto, transport
        self.hseed = hseed
        self.on_step = on_step
        self.consumed = 0
        self.mode = 'ok'          # 'ok' | 'reject' | 'leaky'
        self.seg = 'whole'        # 'whole' | 'lines'
        self.uploads = True       # False: the descriptor uploads have not happened (yet) when the history ends
        self.events = set()
        self.add_onion = []       # (raw line, parsed)
        self.del_onion = []       # raw argument strings
        self.other = []
        self.services = {}        # sid -> dict(returned_key, generated)
        self.created = []         # per accepted ADD_ONION: dict(sid=, private_key= 'Type:Blob' | None, client_blobs={})
        self.n = 0

    # ---- transport side
    def _deliver(self, data):
        if self.seg == 'lines':
            chunks = [c for c in next(CS.segmentations(data, 'lines'))]
        else:
            chunks = [data]
        for c in chunks:
            self.proto.dataReceived(c)
            self.on_step()

    def pump(self):
        for _ in range(200):
            data = self.t.value()
            new = data[self.consumed:]
            idx = new.rfind(b'\n')
            if idx < 0:
                return
            self.consumed += idx + 1
            for raw in new[:idx + 1].split(b'\n')[:-1]:
                if raw.endswith(b'\r'):
                    raw = raw[:-1]
                for out in self.handle(raw.decode('latin-1')):
                    self._deliver(out)
        raise RuntimeError('scripted Tor: the client never stops talking')

    # ---- command side
    def handle(self, line):
        verb = line.split(' ', 1)[0].upper()
        if verb == 'SETEVENTS':
            self.events = set(x.upper() for x in line.split(' ')[1:] if x and x.upper() != 'EXTENDED')
            return [b'250 OK\r\n']
        if verb == 'ADD_ONION':
            return self.do_add_onion(line)
        if verb == 'DEL_ONION':
            arg = line[len('DEL_ONION'):]
            arg = arg[1:] if arg.startswith(' ') else arg
            self.del_onion.append(arg)
            if arg in self.services:
                del self.services[arg]
                return [b'250 OK\r\n']
            return [b'552 Unknown Onion Service id\r\n']
        self.other.append(line)
        return [('510 Unrecognized command "%s"\r\n' % verb[:20]).encode('latin-1')]

    def do_add_onion(self, line):
        p = parse_add_onion(line)
        self.add_onion.append((line, p))
        self.n += 1
        if self.mode == 'reject':
            return [b'550 Failed to add Onion Service\r\n']
        if p['errors']:
            return [('512 %s\r\n' % p['errors'][0]).encode('latin-1', 'replace')]
        kt, kb = p['keytype'].upper(), p['keyblob']
        flags = set(p['flags'])
        if flags - set(KNOWN_FLAGS.values()):
            return [b"512 Invalid 'Flags' argument\r\n"]
        generated = kt == 'NEW'
        if generated:
            alg = kb.upper()
            if alg == 'BEST':
                alg = 'RSA1024'      # the algorithm "BEST" named while v2 services existed
            if alg not in ('RSA1024', 'ED25519-V3'):
                return [b'513 Invalid key type\r\n']
        elif kt in ('RSA1024', 'ED25519-V3'):
            alg = kt
            try:
                raw = base64.b64decode(kb.encode('ascii'), validate=True)
            except Exception:
                return [b'512 Failed to decode key\r\n']
            if alg == 'ED25519-V3' and len(raw) != 64:
                return [b'512 Failed to decode ED25519-V3 key\r\n']
        else:
            return [b'513 Invalid key type\r\n']
        basic = 'BasicAuth' in flags
        if p['clients'] and not basic:
            return [b'512 No auth type specified\r\n']
        if basic and not p['clients']:
            return [b'512 No auth clients specified\r\n']
        if basic and alg == 'ED25519-V3':
            return [b'513 ClientAuth not supported\r\n']
        if len(set(n for n, _ in p['clients'])) != len(p['clients']):
            return [b'512 Duplicate name in ClientAuth\r\n']
        # --- accepted
        tag = (self.hseed, self.n)
        if alg == 'RSA1024':
            if generated:
                if basic or self.n % 2:
                    ph = '@RSA%d' % (_h('pick', tag)[0] % 2)
                    blob, sid = REAL_RSA[ph]
                else:
                    blob, sid = _b64(608, 'rsa', tag), _v2_fake_sid(tag)
            else:
                blob, sid = kb, _BLOB_TO_SID.get(kb) or _v2_fake_sid('supplied', kb)
            authtype = 'BASIC_AUTH' if basic else 'NO_AUTH'
        else:
            if generated:
                blob = _b64(64, 'ed', tag)
                sid = _v3_address(_h('edpub', tag))
            else:
                blob, sid = kb, _v3_address(_h('edpub-of', kb))
            authtype = 'UNKNOWN'
        if sid in self.services:
            return [b'550 Onion address collision\r\n']
        lines = ['250-ServiceID=%s' % sid]
        returned_key = None
        if generated and ('DiscardPK' not in flags or self.mode == 'leaky'):
            returned_key = '%s:%s' % (alg, blob)
            lines.append('250-PrivateKey=%s' % returned_key)
        cblobs = {}
        for name, cb in p['clients']:
            if cb is None:
                cblobs[name] = _b64(16, 'cookie', tag, name).rstrip('=')
                lines.append('250-ClientAuth=%s:%s' % (name, cblobs[name]))
        lines.append('250 OK')
        self.services[sid] = True
        self.created.append({'sid': sid, 'private_key': returned_key if 'DiscardPK' not in flags else None,
                             'leaked_key': returned_key if 'DiscardPK' in flags else None, 'client_blobs': cblobs})
        out = [''.join(l + '\r\n' for l in lines).encode('ascii')]
        if 'HS_DESC' in self.events and self.uploads:
            dirs = ['$%s~hsdir%d' % (_h('fp', tag, i).hex()[:40].upper(), i) for i in range(2)]
            descid = base64.b32encode(_h('desc', tag)[:20]).decode('ascii').lower()
            if basic:
                dirs = dirs[:1]
            for d in dirs:
                out.append(('650 HS_DESC UPLOAD %s %s %s %s\r\n' % (sid, authtype, d, descid)).encode('ascii'))
            for d in dirs:
                out.append(('650 HS_DESC UPLOADED %s %s %s\r\n' % (sid, 'UNKNOWN', d)).encode('ascii'))
        return out


# ==========================================================================================
# small fakes

class _Config(object):
    """what _add_ephemeral_service needs from a TorConfig: the protocol and the (plain) list of services"""
    def __init__(self, proto):
        self.tor_protocol = proto
        self.protocol = proto
        self.EphemeralOnionServices = []


_REACTOR_CLASS = []


def _make_reactor():
    if _REACTOR_CLASS:
        return _REACTOR_CLASS[0]()
    from twisted.internet.testing import MemoryReactorClock
    from twisted.internet.address import IPv4Address
    from twisted.internet import defer

    class _Port(object):
        def __init__(self, addr):
            self._a = addr

        def getHost(self):
            return self._a

        def startListening(self):
            pass

        def stopListening(self):
            return defer.succeed(None)

    class _Reactor(MemoryReactorClock):
        """listenTCP(0) hands out 'free' port numbers like a kernel would (deterministically)"""
        def __init__(self):
            MemoryReactorClock.__init__(self)
            self.allocated = []

        def listenTCP(self, port, factory, backlog=50, interface=''):
            self.tcpServers.append((port, factory, backlog, interface))
            if port == 0:
                port = 40001 + 7 * len(self.allocated)
                self.allocated.append(port)
            return _Port(IPv4Address('TCP', interface or '0.0.0.0', port))
    _REACTOR_CLASS.append(_Reactor)
    return _Reactor()


# ==========================================================================================
# requests (cells) and the oracle

def _port_arg(p):
    return tuple(p) if isinstance(p, list) else p


def expected_ports(ports, allocated):
    """[(virt, target) | (virt, None = 'some free port on 127.0.0.1')] from the request forms"""
    out = []
    for p in ports:
        if isinstance(p, (list, tuple)):
            r, l = p
            if isinstance(l, int) or (isinstance(l, str) and l.isdigit()):
                out.append((int(r), '127.0.0.1:%d' % int(l)))
            else:
                out.append((int(r), l))
        elif isinstance(p, str):
            virt, target = p.split(' ', 1)
            out.append((int(virt), target))
        else:
            out.append((int(p), None))
    return out


def expected_flags(cell):
    f = set()
    if cell['detach']:
        f.add('Detach')
    if cell['key']['kind'] == 'discard':
        f.add('DiscardPK')
    if cell['auth'] is not None:
        f.add('BasicAuth')
    if cell['single_hop']:
        f.add('NonAnonymous')
    return f


def sig_of(cell):
    return 'v%d/key=%s/auth=%s/via=%s/tor=%s' % (cell['version'], cell['key']['kind'], 'none' if cell['auth'] is None else 'basic',
                                                 cell.get('via', 'create'), cell.get('tor', 'ok'))


def run_history(history):
    """history = {'cells': [cell...], 'remove_order': [cell indices], 'hseed': int}
    cell = {'version': 2|3, 'key': {'kind': none|discard|bare|prefixed|mismatch|crlf, 'value': str|None},
            'detach': bool|None, 'single_hop': bool|None, 'auth': None | [[name, token|None]...],
            'ports': [int | [remote, local] | 'remote target'], 'via': 'create'|'tor', 'tor': 'ok'|'reject'|'leaky', 'seg': 'whole'|'lines',
            'uploads': bool (does Tor report descriptor uploads before the history ends)}
    All creates run one after the other on one control connection, then the listed services are removed."""
    from txtorcon import onion as O
    from txtorcon.controller import Tor
    viol = []
    seen = set()

    def bad(clause, sig, what, ci):
        key = '%s:%s:%s' % (PROP, clause, sig)
        if (key, ci) in seen:
            return
        seen.add((key, ci))
        viol.append({'key': key, 'clause': clause, 'what': what, 'history': history})

    proto, t = CS.make_proto()
    proto._set_valid_events('HS_DESC CIRC STREAM')
    reactor = _make_reactor()
    config = _Config(proto)
    owner = {}        # id(onion) -> cell index
    state = {'ci': None, 'known': 0}

    def claim():
        for o in config.EphemeralOnionServices[state['known']:]:
            owner[id(o)] = state['ci']
        state['known'] = len(config.EphemeralOnionServices)

    def on_step():
        claim()
        for o in config.EphemeralOnionServices:
            ci = owner.get(id(o))
            if ci is None:
                continue
            c = history['cells'][ci]
            if c['key']['kind'] == 'discard':
                try:
                    pk = o.private_key
                except Exception:
                    continue
                if isinstance(pk, (str, bytes)):
                    bad('discarded_key_never_stored', sig_of(c) + '/during',
                        'observed private_key=%r... stored on the service object while DISCARD was requested; expected no key ever stored' % (pk[:24],), ci)

    tor = ScriptedTor(proto, t, history.get('hseed', 0), on_step)
    made = []      # per cell: dict(svc=, sid=) or None
    pending = []
    auth_objs = {}

    for ci, cell in enumerate(history['cells']):
        state['ci'] = ci
        sig = sig_of(cell)
        tor.mode, tor.seg, tor.uploads = cell.get('tor', 'ok'), cell.get('seg', 'whole'), cell.get('uploads', True)
        kind = cell['key']['kind']
        value = _subst(cell['key'].get('value'))
        key_arg = None if kind == 'none' else (O.DISCARD if kind == 'discard' else value)
        ports_arg = [_port_arg(p) for p in cell['ports']]
        auth = cell['auth']
        n_add0, n_created0, n_alloc0 = len(tor.add_onion), len(tor.created), len(reactor.allocated)
        wire0 = len(t.value())
        rec, sync_exc = None, None
        try:
            if auth is not None:
                # 'share_auth': re-use the AuthBasic object of an earlier cell (a caller creating two services
                # from one credentials object): the request is still the cell's own client list
                a = auth_objs.get(cell.get('share_auth')) if cell.get('share_auth') is not None else None
                if a is None:
                    a = O.AuthBasic([(n, _subst(tok)) if tok is not None else n for n, tok in auth])
                auth_objs[ci] = a
                d = O.EphemeralAuthenticatedOnionService.create(
                    reactor, config, ports_arg, detach=cell['detach'], private_key=key_arg, version=cell['version'],
                    auth=a, single_hop=cell['single_hop'])
            elif cell.get('via') == 'tor':
                d = Tor(reactor, proto, _tor_config=config).create_onion_service(
                    ports_arg, private_key=key_arg, version=cell['version'], single_hop=cell['single_hop'], detach=cell['detach'])
            else:
                d = O.EphemeralOnionService.create(
                    reactor, config, ports_arg, detach=cell['detach'], private_key=key_arg, version=cell['version'],
                    single_hop=cell['single_hop'])
            rec = CS.Recorder(d)
        except Exception as e:
            sync_exc = e
        on_step()
        pump_exc = None
        try:
            tor.pump()
        except Exception as e:      # not a C14 matter by itself; quoted in whatever the decoded wire then shows
            pump_exc = e
        on_step()
        outcome = ('raised', sync_exc) if sync_exc is not None else (rec.results[0] if rec.results else ('pending', None))
        if outcome[0] == 'pending':
            pending.append(d)
        failed = outcome[0] in ('raised', 'err')
        adds = tor.add_onion[n_add0:]
        new_wire = t.value()[wire0:]
        made.append(None)

        # ---- sentence: key material containing line breaks is rejected with no ADD_ONION sent
        if kind == 'crlf':
            if adds or b'ADD_ONION' in new_wire.upper():
                bad('crlf_key_no_add_onion_sent', sig, 'observed %d ADD_ONION line(s) on the wire (first: %r); expected none for a key containing CR/LF'
                    % (len(adds), (adds[0][0] if adds else new_wire)[:60]), ci)
            if not failed:
                bad('crlf_key_rejected', sig, 'observed create() outcome %r; expected the request to be rejected' % (outcome[0],), ci)
            continue
        # where the statement is silent (key type contradicts the version): refusal without sending is acceptable
        if kind == 'mismatch' and failed and not adds:
            continue

        # ---- sentence: sends exactly one ADD_ONION ...
        if len(adds) != 1:
            bad('exactly_one_add_onion', sig + '/n=%d' % len(adds), 'observed %d ADD_ONION commands (create outcome %s %s%s); expected exactly 1'
                % (len(adds), outcome[0], repr(outcome[1]) if isinstance(outcome[1], BaseException) else type(outcome[1]).__name__,
                   '; dataReceived raised %r' % (pump_exc,) if pump_exc else ''), ci)
            if not adds:
                continue
        line, p = adds[0]
        if p['errors']:
            bad('add_onion_well_formed', sig, 'observed %r which does not follow the ADD_ONION grammar: %s' % (line[:100], '; '.join(p['errors'][:3])), ci)
        # ---- ... whose key specifier ...
        if p['keytype'] is not None:
            got = (p['keytype'].upper(), p['keyblob'])
            if kind in ('none', 'discard'):
                want = [('NEW', 'BEST'), ('NEW', 'RSA1024')] if cell['version'] == 2 else [('NEW', 'ED25519-V3')]
                if (got[0], got[1].upper()) not in want:
                    bad('key_specifier_requests_new_key_of_version', sig, 'observed key specifier %s:%s; expected %s'
                        % (p['keytype'], p['keyblob'][:30], ' or '.join('%s:%s' % w for w in want)), ci)
            else:
                if ':' in value:
                    wt, wb = value.split(':', 1)
                else:
                    wt, wb = ('RSA1024' if cell['version'] == 2 else 'ED25519-V3'), value
                if got != (wt.upper(), wb):
                    bad('supplied_key_sent_unchanged_apart_from_prefix', sig, 'observed key specifier %s:%s...(%d chars); expected %s:%s...(%d chars)'
                        % (p['keytype'], p['keyblob'][:16], len(p['keyblob']), wt, wb[:16], len(wb)), ci)
        # ---- ... port mappings ...
        allocated = reactor.allocated[n_alloc0:]
        want_ports = expected_ports(cell['ports'], allocated)
        got_ports = list(p['ports'])
        unmatched = []
        free_virts = []
        for virt, target in want_ports:
            if target is None:
                free_virts.append(virt)
            elif (virt, target) in got_ports:
                got_ports.remove((virt, target))
            else:
                unmatched.append('%d,%s' % (virt, target))
        for virt in free_virts:
            hit = [g for g in got_ports if g[0] == virt and g[1].startswith('127.0.0.1:') and g[1][10:].isdigit()
                   and int(g[1][10:]) in allocated]
            if hit:
                got_ports.remove(hit[0])
            else:
                unmatched.append('%d,127.0.0.1:<one of the free ports %r>' % (virt, allocated))
        if unmatched or got_ports:
            bad('port_mappings_match_request', sig + '/missing=%d/extra=%d' % (len(unmatched), len(got_ports)),
                'observed Port= arguments %r; expected %r (requested ports %r): missing %r, unrequested %r'
                % (p['ports'], want_ports, cell['ports'], unmatched, got_ports), ci)
        # ---- ... flags ...
        wf, gf = expected_flags(cell), p['flags']
        missing, extra = sorted(wf - set(gf)), sorted(set(gf) - wf)
        dup = sorted(set(f for f in gf if gf.count(f) > 1))
        if missing or extra or dup:
            bad('flags_match_request', sig + '/missing=%s/extra=%s%s' % (','.join(missing) or '-', ','.join(extra) or '-', '/dup' if dup else ''),
                'observed Flags=%s; expected exactly {%s} for detach=%r key=%s auth=%s single_hop=%r'
                % (','.join(gf), ','.join(sorted(wf)), cell['detach'], kind, 'basic' if auth is not None else 'none', cell['single_hop']), ci)
        if kind == 'discard' and 'DiscardPK' not in gf:
            bad('discard_flag_sent', sig, 'observed Flags=%s without DiscardPK; expected DiscardPK because the caller asked to discard the key' % ','.join(gf), ci)
        # ---- ... and client-auth entries
        def norm(entries):
            return sorted(((nm, tok) for nm, tok in entries), key=lambda x: (x[0], x[1] is None, x[1] or ''))
        wc = norm((nm, _subst(tok)) for nm, tok in (auth or []))
        gc = norm(p['clients'])
        if wc != gc:
            bad('client_auth_entries_match_request', sig + '/want=%d/got=%d' % (len(wc), len(gc)),
                'observed ClientAuth entries %r; expected %r' % (gc, wc), ci)

        # ---- custody
        claim()
        accepted = tor.created[n_created0:]
        svc = None
        if outcome[0] == 'ok':
            svc = outcome[1]
        else:
            mine = [o for o in config.EphemeralOnionServices if owner.get(id(o)) == ci]
            svc = mine[-1] if mine else None
        if svc is None:
            continue
        try:
            pk = svc.private_key
        except Exception as e:
            pk = e
        if kind == 'discard' and isinstance(pk, (str, bytes)):
            bad('discarded_key_never_stored', sig + '/after', 'observed private_key=%r... after the request; expected no key stored' % (pk[:24],), ci)
        if len(accepted) != 1 or len(adds) != 1:
            continue
        acc = accepted[0]
        made[ci] = {'svc': svc, 'sid': acc['sid']}
        # sentence: the service's address is the one Tor returned
        try:
            hn = svc.hostname
        except Exception as e:
            hn = e
        if hn != acc['sid'] + '.onion':
            bad('address_is_the_one_tor_returned', sig, 'observed hostname %r; expected %r (ServiceID from the ADD_ONION reply)' % (hn, acc['sid'] + '.onion'), ci)
        if kind == 'none':
            rk = acc['private_key']
            if not (isinstance(pk, str) and pk.strip() in (rk, rk.split(':', 1)[1])):
                bad('generated_key_retained', sig, 'observed private_key=%s; expected the key Tor generated (%s...)'
                    % (repr(pk[:24]) if isinstance(pk, str) else 'None' if pk is None else type(pk).__name__, rk[:24]), ci)
        elif kind == 'discard':
            if pk is not None:
                bad('discarded_key_never_stored', sig + '/final', 'observed private_key=%s on the created service; expected None (nothing stored)'
                    % ('the DISCARD marker' if pk is O.DISCARD else repr(pk[:24]) if isinstance(pk, (str, bytes)) else type(pk).__name__,), ci)
        else:
            bare = value.split(':', 1)[1] if ':' in value else value
            pref = value if ':' in value else ('RSA1024:' if cell['version'] == 2 else 'ED25519-V3:') + value
            if pk not in (value, bare, pref):
                bad('supplied_key_kept_unchanged', sig, 'observed private_key=%s; expected the caller\'s key (%s...)'
                    % (pk[:24] + '...(%d chars)' % len(pk) if isinstance(pk, str) else 'None' if pk is None else type(pk).__name__, value[:24]), ci)

    # ---- sentence: removing the service sends DEL_ONION for exactly that address
    for ci in history.get('remove_order', []):
        if ci >= len(made) or made[ci] is None:
            continue
        state['ci'] = ci
        cell = history['cells'][ci]
        sig = sig_of(cell)
        tor.mode, tor.seg = 'ok', cell.get('seg', 'whole')
        n_del0, n_add0 = len(tor.del_onion), len(tor.add_onion)
        try:
            rec = CS.Recorder(made[ci]['svc'].remove())
            tor.pump()
        except Exception as e:
            bad('remove_sends_del_onion_for_that_address', sig + '/raised', 'observed %r from remove(); expected DEL_ONION %s' % (e, made[ci]['sid']), ci)
            continue
        dels = tor.del_onion[n_del0:]
        if dels != [made[ci]['sid']]:
            bad('remove_sends_del_onion_for_that_address', sig + '/n=%d' % len(dels), 'observed DEL_ONION arguments %r; expected exactly [%r]' % (dels, made[ci]['sid']), ci)
        if len(tor.add_onion) != n_add0:
            bad('exactly_one_add_onion', sig + '/on_remove', 'observed a further ADD_ONION while removing the service; expected none', ci)
        made[ci] = None
    # end of the session: whoever still waits for descriptor uploads is told to stop waiting
    for d in pending:
        try:
            d.cancel()
            tor.pump()
        except Exception:
            pass
    return viol


class _QuietFinalizers(object):
    """abandoned inlineCallbacks generators (a descriptor wait nobody owns any more) are finalized by the garbage collector,
    long after their session's transport is gone; Python reports what they then raise as 'Exception ignored in ...' on stderr"""
    def __enter__(self):
        import sys
        self._old = sys.unraisablehook
        sys.unraisablehook = lambda *a: None
        return self

    def __exit__(self, *exc):
        import gc
        import sys
        gc.collect()
        sys.unraisablehook = self._old
        return False


def replay_history(history):
    with _QuietFinalizers():
        return run_history(history)


# ==========================================================================================
# enumeration

PORT_FORMS = ('int', 'pair', 'pair_unix', 'str', 'str_unix')


def make_port(form, i):
    if form == 'int':
        return 80 + i
    if form == 'pair':
        return [443 + i, 8000 + i]
    if form == 'pair_unix':
        return [70 + i, 'unix:/tmp/tw/s%d.sock' % i]
    if form == 'str':
        return '%d 127.0.0.1:%d' % (2000 + i, 9000 + i)
    if form == 'str_unix':
        return '%d unix:/var/run/x%d.sock' % (3000 + i, i)
    if form == 'pair_ip':
        return [25 + i, '10.0.0.%d:%d' % (i + 1, 2500 + i)]
    if form == 'pair_digits':
        return ['%d' % (110 + i), '%d' % (1100 + i)]
    if form == 'str_private':
        return '%d 192.168.1.%d:%d' % (4000 + i, i + 2, 4400 + i)
    raise ValueError(form)


def port_shapes(max_n, forms=PORT_FORMS):
    for n in range(1, max_n + 1):
        for combo in itertools.product(forms, repeat=n):
            yield combo


def auth_options(max_clients):
    """None, then basic with 0..N clients, every with/without-token pattern"""
    yield None
    for n in range(max_clients + 1):
        for pat in itertools.product((False, True), repeat=n):
            yield list(pat)


KEY_KINDS = ('none', 'discard', 'bare', 'prefixed', 'mismatch', 'crlf')
CRLF_SHAPES = ('%s\n', '%s\r', '\n%s', 'AAAA\nBBBB%s', 'AAAA\rBBBB%s', '%s\r\nSIGNAL SHUTDOWN', 'P:%s\n', 'P:AA\r\n%s', '%s\r\nADD_ONION NEW:BEST Port=1,1')
NAMES = ('alice', 'bob', 'carol_3', 'Dave-4', 'e', 'Ffffffffffffffff', 'g+h')


def make_key(kind, version, auth, n):
    prefix = 'RSA1024' if version == 2 else 'ED25519-V3'
    if kind in ('none', 'discard'):
        return {'kind': kind, 'value': None}
    if version == 2:
        blob = '@RSA%d' % (n % 2) if (auth is not None or n % 3 == 0) else _b64(608, 'k2', n)
    else:
        blob = _b64(64, 'k3', n)
    if kind == 'bare':
        return {'kind': kind, 'value': blob}
    if kind == 'prefixed':
        return {'kind': kind, 'value': prefix + ':' + blob}
    if kind == 'mismatch':
        # a key whose type names the other service version
        return {'kind': kind, 'value': ('ED25519-V3:' + _b64(64, 'k3', n)) if version == 2 else 'RSA1024:@RSA%d' % (n % 2)}
    shape = CRLF_SHAPES[n % len(CRLF_SHAPES)]
    if shape.startswith('P:'):
        shape = prefix + shape[1:]
    return {'kind': 'crlf', 'value': shape % (blob if n % 2 else 'QUJDRA==')}


def make_cell(version, kind, detach, single_hop, authpat, shape, n, uploads_every=1):
    auth = None if authpat is None else [[NAMES[(n + j) % len(NAMES)], (_b64(16, 'tok', n, j).rstrip('=') if tok else None)]
                                          for j, tok in enumerate(authpat)]
    cell = {'version': version, 'key': make_key(kind, version, auth, n), 'detach': detach, 'single_hop': single_hop, 'auth': auth,
            'ports': [make_port(f, j + (n % 5) * 3) for j, f in enumerate(shape)],
            'via': 'tor' if (auth is None and n % 4 == 1) else 'create',
            'tor': ('reject' if n % 11 == 5 else 'leaky' if n % 11 in (2, 7) else 'ok'),
            'seg': 'lines' if n % 3 == 1 else 'whole',
            # matching an upload event to an authenticated service parses its RSA key (about 10 ms): only every k-th such history
            # goes on until Tor reports the uploads, the others end while create() still waits for them
            'uploads': auth is None or n % uploads_every == 0}
    return cell


def cell_id(cell):
    return (cell['version'], cell['key']['kind'], bool(cell['detach']), bool(cell['single_hop']),
            None if cell['auth'] is None else tuple(t is not None for _, t in cell['auth']),
            tuple('int' if isinstance(p, int) else ('pair_unix' if str(p[1]).startswith('unix:') else 'pair') if isinstance(p, list)
                  else ('str_unix' if ' unix:' in p else 'str') for p in cell['ports']),
            cell['via'], cell['tor'], cell.get('uploads', True))


def random_history(rnd, n):
    cells = []
    forms = PORT_FORMS + ('pair_ip', 'pair_digits', 'str_private')
    for j in range(rnd.randint(1, 4)):
        version = rnd.choice((2, 3))
        kind = rnd.choice(KEY_KINDS)
        authpat = None if rnd.random() < 0.5 else [rnd.random() < 0.5 for _ in range(rnd.randint(0, 5))]
        shape = [rnd.choice(forms) for _ in range(rnd.randint(1, 6))]
        m = n * 7 + j
        cell = make_cell(version, kind, rnd.choice((True, False, None)), rnd.choice((True, False, None)), authpat, shape, m, 2)
        # distinct numbers per mapping, distinct client names
        cell['ports'] = [make_port(f, i + 10 * j) for i, f in enumerate(shape)]
        if cell['auth'] is not None:
            cell['auth'] = [['%s%d' % (NAMES[rnd.randrange(len(NAMES))][:12], i), tok] for i, (_, tok) in enumerate(cell['auth'])]
        cell['tor'] = rnd.choice(('ok', 'ok', 'ok', 'leaky', 'reject'))
        cell['seg'] = rnd.choice(('whole', 'lines'))
        cell['via'] = 'tor' if (cell['auth'] is None and rnd.random() < 0.4) else 'create'
        if cell['key']['kind'] in ('bare', 'prefixed') and version == 2 and cell['auth'] is None:
            # a supplied key names one address: do not ask Tor for the same address twice in one session
            cell['key'] = make_key(kind, 2, None, 1 + 3 * (1000 * n + j))
        cells.append(cell)
    # one real RSA key = one address; a second ADD_ONION of it would be an address collision, not a C14 matter
    used = set()
    for c in cells:
        v = c['key'].get('value') or ''
        for ph in REAL_RSA:
            if ph in v and c['key']['kind'] != 'crlf':
                if ph in used:
                    c['key'] = {'kind': 'none', 'value': None}
                used.add(ph)
    order = list(range(len(cells)))
    rnd.shuffle(order)
    return {'cells': cells, 'remove_order': order[:rnd.randint(0, len(order))], 'hseed': n}


LAST_COUNTS = {}    # violation key -> number of occurrences in the last twin() run (the returned list keeps at most 12 per key)


def twin(tier, seed):
    with _QuietFinalizers():
        return _twin(tier, seed)


def _twin(tier, seed):
    rnd = random.Random(seed)
    t0 = time.time()
    violations, per_key, evaluations, distinct, samples = [], {}, 0, set(), []

    def run(hist):
        v = run_history(hist)
        for x in v:
            per_key[x['key']] = per_key.get(x['key'], 0) + 1
            if per_key[x['key']] <= 12:
                violations.append(x)
        distinct.add(tuple(cell_id(c) for c in hist['cells']))
        return v

    versions, dets, hops = (2, 3), (False, True), (False, True)
    auths = list(auth_options(3))
    n = 0
    if tier == 'quick':
        shapes = list(port_shapes(3))
        # (a) every option combination (version x key x detach x single-hop x auth 0..3 clients +- tokens), port shapes cycled
        for version, kind, det, hop, ap in itertools.product(versions, KEY_KINDS, dets, hops, auths):
            cell = make_cell(version, kind, det, hop, ap, shapes[(n * 13) % len(shapes)], n, 3)
            run({'cells': [cell], 'remove_order': [0], 'hseed': n})
            evaluations += 1
            n += 1
        # (b) every port shape of 1..3 mappings x version x {generated, discard, supplied}, other options cycled
        for shape in shapes:
            for version in versions:
                for kind in ('none', 'discard', 'prefixed'):
                    ap = auths[n % len(auths)] if n % 3 == 0 else None
                    cell = make_cell(version, kind, dets[n % 2], hops[(n // 2) % 2], ap, shape, n, 3)
                    run({'cells': [cell], 'remove_order': [0], 'hseed': n})
                    evaluations += 1
                    n += 1
        # (c) two services requested from ONE AuthBasic object (clients with and without tokens): the second request must be the same
        for version in (2,):
            for ap in [a for a in auths if a is not None and len(a) >= 1]:
                c1 = make_cell(version, 'none', False, False, ap, shapes[n % len(shapes)], n, 1)
                c2 = dict(make_cell(version, 'none', False, False, ap, shapes[(n + 1) % len(shapes)], n, 1))
                c2['share_auth'] = 0
                c1['tor'] = c2['tor'] = 'ok'
                c1['via'] = c2['via'] = 'create'
                run({'cells': [c1, c2], 'remove_order': [0, 1], 'hseed': n})
                evaluations += 1
                n += 1
        nrand = 250
        bounds_sys = ('all %d option combinations (2 versions x 6 key kinds x detach x single-hop x 16 auth settings) with cycled port shapes, '
                      'plus all %d port shapes (1..3 mappings over int/pair/pair-unix/string/string-unix) x 2 versions x 3 key kinds'
                      % (2 * len(KEY_KINDS) * 4 * len(auths), len(shapes)))
    else:
        shapes = list(port_shapes(3))
        for version, kind, det, hop, ap, shape in itertools.product(versions, KEY_KINDS, dets, hops, auths, shapes):
            cell = make_cell(version, kind, det, hop, ap, shape, n, 8)
            run({'cells': [cell], 'remove_order': [0], 'hseed': n})
            evaluations += 1
            n += 1
            if n % 2000 == 0 and time.time() - t0 > 420:
                break
        nrand = 3000
        bounds_sys = ('the full product 2 versions x 6 key kinds x detach x single-hop x 16 auth settings (none, basic 0..3 clients +- tokens) x '
                      '%d port shapes (1..3 mappings over 5 forms): %d cells%s' % (len(shapes), n, '' if n == 2 * 6 * 4 * len(auths) * len(shapes) else ' (time-capped)'))
    for i in range(nrand):
        hist = random_history(rnd, i)
        run(hist)
        evaluations += 1
        if len(samples) < 3 and len(hist['cells']) > 1 and i % 5 == 0:
            samples.append({'cells': [{'version': c['version'], 'key': c['key']['kind'], 'detach': c['detach'], 'single_hop': c['single_hop'],
                                       'auth': c['auth'] if c['auth'] is None else [[nm, 'token' if tk else None] for nm, tk in c['auth']],
                                       'ports': c['ports'], 'via': c['via'], 'tor': c['tor']} for c in hist['cells']],
                            'remove_order': hist['remove_order']})
    LAST_COUNTS.clear()
    LAST_COUNTS.update(per_key)
    return {'evaluations': evaluations, 'distinct_nontrivial': len(distinct), 'samples': samples, 'violations': violations,
            'rule': 'one evaluation = one control session in which 1 (systematic part) or 1..4 (seeded part) ephemeral services are requested through the real '
                    'create()/Tor.create_onion_service against a scripted Tor that decodes ADD_ONION with its own parser, and are then removed; every cell is '
                    'non-trivial (a request is made and the wire is decoded); distinct = distinct sessions, a session being the sequence of its services\' (version, key kind, detach, single-hop, client token pattern, '
                    'port-form sequence, entry point, Tor behaviour {ok, rejects, returns a key despite DiscardPK}); at most 12 violations are kept per key '
                    '(all are counted in tC14.LAST_COUNTS)',
            'bounds': '%s; then %d seeded sessions of 1..4 services (1..6 mappings incl. ip / digit-string / private-address forms, 0..5 clients, '
                      'detach / single-hop in {True, False, None}) removed in random order' % (bounds_sys, nrand)}
