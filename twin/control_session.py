"""Twin fixture: a real TorControlProtocol on a StringTransport, driven with server byte
streams built from a reference encoder written from control-spec 2.3 (not from txtorcon)."""
import itertools


def make_proto(connect=False, password_function=None):
    """real protocol; with connect=False the authentication chain is not started"""
    from twisted.test.proto_helpers import StringTransport
    import txtorcon.torcontrolprotocol as tcp
    proto = tcp.TorControlProtocol(password_function)
    t = StringTransport()
    if not connect:
        proto.connectionMade = lambda: None
    proto.makeConnection(t)
    return proto, t


# ---- reference encoder: a reply is a list of parts:
#   ('mid', text) | ('data', text, [data lines]) | final ('end', text)
def encode_reply(code, parts):
    out = []
    for p in parts:
        if p[0] == 'mid':
            out.append('%d-%s' % (code, p[1]))
        elif p[0] == 'data':
            out.append('%d+%s' % (code, p[1]))
            for ln in p[2]:
                out.append('.' + ln if ln.startswith('.') else ln)
            out.append('.')
        elif p[0] == 'end':
            out.append('%d %s' % (code, p[1]))
    return ''.join(l + '\r\n' for l in out).encode('ascii')


def reply_lines(parts):
    """the payload lines of a reply, in order (what a per-line callback sees / what is joined)"""
    lines = []
    for p in parts:
        if p[0] == 'mid':
            lines.append(p[1])
        elif p[0] == 'data':
            lines.append(p[1])
            lines.extend(p[2])
        else:
            lines.append(p[1])
    return lines


def expected_text(parts):
    """2xx text: every reply line and data line in order; final OK status line removed when it
    follows other content (a reply that is only OK is 'OK')"""
    lines = reply_lines(parts)
    if len(lines) > 1 and lines[-1] == 'OK':
        lines = lines[:-1]
    return '\n'.join(lines)


def segmentations(data, mode, rnd=None, k=3):
    n = len(data)
    if mode == 'whole':
        yield [data]
    elif mode == 'bytes':
        yield [data[i:i + 1] for i in range(n)]
    elif mode == 'lines':
        out, cur = [], b''
        for i in range(n):
            cur += data[i:i + 1]
            if cur.endswith(b'\r\n'):
                out.append(cur)
                cur = b''
        if cur:
            out.append(cur)
        yield out
    elif mode == 'random':
        for _ in range(k):
            cuts = sorted(rnd.sample(range(1, n), min(n - 1, rnd.randint(1, 6)))) if n > 1 else []
            out, prev = [], 0
            for c in cuts + [n]:
                out.append(data[prev:c])
                prev = c
            yield out
    elif mode == 'crlf_split':
        # cut between CR and LF everywhere
        out, prev = [], 0
        for i in range(n - 1):
            if data[i:i + 2] == b'\r\n':
                out.append(data[prev:i + 1])
                prev = i + 1
        out.append(data[prev:])
        yield [c for c in out if c]


class Recorder(object):
    """first-fire recorder for a Deferred"""
    def __init__(self, d):
        self.results = []
        d.addCallbacks(lambda v: self.results.append(('ok', v)) or None,
                       lambda f: self.results.append(('err', f.value)) or None)


def quiet_twisted_logging():
    """log.err() of deliberately failing listeners would otherwise print tracebacks to stderr"""
    try:
        from twisted.python import log
        if getattr(log, 'defaultObserver', None) is not None:
            log.defaultObserver.stop()
            log.defaultObserver = None
    except Exception:
        pass
    try:
        from twisted.logger import globalLogBeginner
        import io
        globalLogBeginner.beginLoggingTo([lambda e: None], redirectStandardIO=False, discardBuffer=True)
    except Exception:
        pass


quiet_twisted_logging()
