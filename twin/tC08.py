# -*- coding: utf-8 -*-
"""Bounded dynamic check ("twin") for C08: one notification per transition; built/closed waits
complete exactly once.

A real TorControlProtocol + TorState (from /repo) is connected, over a StringTransport, to a small
scripted Tor written from control-spec (PROTOCOLINFO / AUTHENTICATE / GETINFO / SETEVENTS /
USEFEATURE / CLOSECIRCUIT / CLOSESTREAM replies, 650 CIRC / STREAM events).  A history is a list of
steps: Tor events, listeners added (globally or on one object) / removed, when_built / when_closed /
close requests, and 'ack' steps that release the reply of the oldest close command Tor has received
(so both orders of "250 OK" vs "650 ... CLOSED" occur).  The oracle (class Oracle) keeps Tor's own
table and the registration sets from the steps alone and says, from the statement of C08, which
listener must see which call at which step and which waits must be complete / incomplete.
"""
from twin import control_session as CS  # noqa: F401  (first: silences Twisted's stderr logging)

import base64
import binascii
import collections
import itertools
import json
import random

# ------------------------------------------------------------------------------------------
# relays: 0,1 are in the consensus served by the scripted Tor; 2..4 are not
FPS = ['1A' * 20, '2B' * 20, '3C' * 20, '4D' * 20, '5E' * 20]
NICKS = ['alpha', 'bravo', 'charlie', 'delta', 'echo']
CONSENSUS = (0, 1)


def hop(i):
    return '$%s~%s' % (FPS[i], NICKS[i])


def cline(cid, status, hops=(), reason=None, remote=None, snap=False):
    """control-spec 4.1.1:  CircuitID SP CircStatus [SP Path] [SP BUILD_FLAGS=] [SP PURPOSE=]
    [SP TIME_CREATED=] [SP REASON= [SP REMOTE_REASON=]]"""
    s = '%d %s' % (cid, status)
    if hops:
        s += ' ' + ','.join(hop(i) for i in hops)
    s += ' BUILD_FLAGS=NEED_CAPACITY PURPOSE=GENERAL TIME_CREATED=2024-01-01T00:00:%02d.000000' % (cid % 60)
    if reason:
        s += ' REASON=' + reason
    if remote:
        s += ' REMOTE_REASON=' + remote
    return s if snap else 'CIRC ' + s


def sline(sid, status, circ, target, reason=None, remote=None, extra=None, snap=False):
    """control-spec 4.1.2:  StreamID SP StreamStatus SP CircuitID SP Target [SP REASON= [SP
    REMOTE_REASON=]] [SP SOURCE=] [SP SOURCE_ADDR=] [SP PURPOSE=]"""
    s = '%d %s %d %s' % (sid, status, circ, target)
    if reason:
        s += ' REASON=' + reason
    if remote:
        s += ' REMOTE_REASON=' + remote
    if extra:
        s += ' ' + extra
    return s if snap else 'STREAM ' + s


def parse_event(line):
    """independent reading of an event line (positional fields, then KEY=VALUE words)"""
    tok = line.split(' ')
    if tok[0] == 'CIRC':
        rest = tok[3:]
        path = []
        if rest and '=' not in rest[0]:
            path = [h[:41] for h in rest[0].split(',')]
            rest = rest[1:]
        return {'kind': 'c', 'id': int(tok[1]), 'status': tok[2], 'path': path,
                'kw': dict(t.split('=', 1) for t in rest)}
    if tok[0] == 'STREAM':
        return {'kind': 's', 'id': int(tok[1]), 'status': tok[2], 'circ': int(tok[3]), 'target': tok[4],
                'kw': dict(t.split('=', 1) for t in tok[5:])}
    raise ValueError(line)


# ------------------------------------------------------------------------------------------
# the oracle: Tor's table + who is registered where, from the steps alone

class Oracle(object):
    def __init__(self):
        self.tab = {'c': {}, 's': {}}       # id -> record of the latest incarnation
        self.glob = {'c': {}, 's': {}}      # listener -> step it was (first) added globally
        self.gen = 0

    def rec(self, kind, oid):
        return self.tab[kind].get(oid)

    def live(self, kind, oid):
        r = self.tab[kind].get(oid)
        return r is not None and r['gone'] is None

    def live_recs(self, kind):
        return [r for r in self.tab[kind].values() if r['gone'] is None]

    # ---- listener bookkeeping
    def add_global(self, kind, name, step):
        self.glob[kind].setdefault(name, step)
        for r in self.live_recs(kind):
            if name not in r['reg']:
                r['reg'][name] = step
                r['removed'].discard(name)

    def listen(self, kind, oid, name, step):
        r = self.tab[kind][oid]
        if name not in r['reg']:
            r['reg'][name] = step
            r['removed'].discard(name)

    def unlisten(self, kind, oid, name):
        r = self.tab[kind][oid]
        r['reg'].pop(name, None)
        r['removed'].add(name)

    # ---- one event: returns (record, notes) with notes = [(method, extra, flags-or-None)]
    def event(self, line, step):
        ev = parse_event(line)
        kind, oid, status = ev['kind'], ev['id'], ev['status']
        r = self.tab[kind].get(oid)
        notes = []
        first = r is None or r['gone'] is not None
        if first:
            self.gen += 1
            r = {'kind': kind, 'id': oid, 'gen': self.gen, 'status': None, 'gone': None, 'gone_step': None,
                 'appeared': step, 'reg': dict(self.glob[kind]), 'removed': set(), 'path': [], 'built': False,
                 'circ': 0}
            self.tab[kind][oid] = r
            if kind == 'c':
                notes.append(('circuit_new', None, None))
        r['status'] = status
        flags = {}
        for k, v in ev['kw'].items():
            flags[k] = v
            flags[k.lower()] = v
        if kind == 'c':
            if status == 'LAUNCHED':
                r['path'] = []
                notes.append(('circuit_launched', None, None))
            elif status not in ('CLOSED', 'FAILED'):
                old = len(r['path'])
                for h in ev['path'][old:]:
                    notes.append(('circuit_extend', h, None))
                r['path'] = list(ev['path'])
            if status == 'BUILT':
                r['built'] = True
                notes.append(('circuit_built', None, None))
            elif status == 'CLOSED':
                notes.append(('circuit_closed', None, flags))
            elif status == 'FAILED':
                notes.append(('circuit_failed', None, flags))
        else:
            if status == 'NEW':
                notes.append(('stream_new', None, None))
            elif status == 'SUCCEEDED':
                notes.append(('stream_succeeded', None, None))
            if status == 'CLOSED':
                notes.append(('stream_closed', None, flags))
                r['circ'] = 0
            elif status == 'FAILED':
                notes.append(('stream_failed', None, flags))
                r['circ'] = 0
            elif status == 'DETACHED':
                notes.append(('stream_detach', None, flags))
                r['circ'] = 0
            else:
                if ev['circ'] != 0 and r['circ'] == 0:
                    notes.append(('stream_attach', ev['circ'], None))
                r['circ'] = ev['circ']
        if status in ('CLOSED', 'FAILED'):
            r['gone'] = status
            r['gone_step'] = step
        return r, notes

    # ---- non-event steps (used by the generator's dry run and by the harness)
    def apply(self, st, step):
        op = st[0]
        if op == 'ev':
            self.event(st[1], step)
        elif op == 'boot':
            for ln in st[1]:
                self.event('CIRC ' + ln, step)
            for ln in st[2]:
                self.event('STREAM ' + ln, step)
        elif op == 'gl':
            self.add_global(st[1], st[2], step)
        elif op == 'ol':
            self.listen(st[1], st[3], st[2], step)
        elif op == 'ul':
            self.unlisten(st[1], st[3], st[2])


# ------------------------------------------------------------------------------------------
# the scripted Tor (server side of the control port)

class ScriptedTor(object):
    def __init__(self, proto, transport, oracle, snap_c, snap_s, consensus=True):
        self.proto, self.t, self.orc = proto, transport, oracle
        self.snap_c, self.snap_s = snap_c, snap_s
        self.consensus = consensus
        self.seen = 0
        self.hold = False
        self.held = []          # replies not yet released (CLOSECIRCUIT / CLOSESTREAM)
        self.events = set()
        self.received = []
        self.acked = collections.Counter()   # incarnation -> close replies released so far
        self.refused = collections.Counter()  # incarnation -> close commands answered 552

    def _value(self, key, lines):
        """GETINFO value: one line -> 250-key=value ; several -> 250+key= data block"""
        if len(lines) == 0:
            return [('mid', key + '=')]
        if len(lines) == 1:
            return [('mid', key + '=' + lines[0])]
        return [('data', key + '=', lines)]

    def answer(self, line):
        w = line.split(' ')
        verb = w[0].upper()
        ok = [('end', 'OK')]
        if verb == 'PROTOCOLINFO':
            return 250, [('mid', 'PROTOCOLINFO 1'), ('mid', 'AUTH METHODS=NULL'),
                         ('mid', 'VERSION Tor="0.4.8.9"')] + ok
        if verb == 'AUTHENTICATE' or verb == 'USEFEATURE':
            return 250, ok
        if verb == 'SETEVENTS':
            self.events = set(x.upper() for x in w[1:] if x.upper() != 'EXTENDED')
            return 250, ok
        if verb == 'GETINFO':
            parts = []
            for key in w[1:]:
                if key == 'version':
                    parts += self._value(key, ['0.4.8.9'])
                elif key == 'signal/names':
                    parts += self._value(key, ['RELOAD HUP SHUTDOWN DUMP USR1 DEBUG USR2 HALT TERM INT NEWNYM CLEARDNSCACHE HEARTBEAT ACTIVE DORMANT'])
                elif key == 'events/names':
                    parts += self._value(key, ['CIRC CIRC_MINOR STREAM ORCONN BW DEBUG INFO NOTICE WARN ERR NEWDESC ADDRMAP '
                                               'DESCCHANGED NS STATUS_GENERAL STATUS_CLIENT STATUS_SERVER GUARD STREAM_BW '
                                               'CLIENTS_SEEN NEWCONSENSUS BUILDTIMEOUT_SET SIGNAL CONF_CHANGED HS_DESC'])
                elif key == 'ns/all':
                    lines = []
                    if self.consensus:
                        for i in CONSENSUS:
                            ident = base64.b64encode(binascii.unhexlify(FPS[i])).decode('ascii').rstrip('=')
                            lines += ['r %s %s %s 2024-01-01 00:00:00 10.0.0.%d 9001 0' % (NICKS[i], ident, ident, i + 1),
                                      's Fast Guard Running Stable Valid', 'w Bandwidth=1000', 'p accept 1-65535']
                    parts.append(('data', key + '=', lines))
                elif key == 'circuit-status':
                    parts += self._value(key, list(self.snap_c))
                elif key == 'stream-status':
                    parts += self._value(key, list(self.snap_s))
                elif key in ('address-mappings/all', 'entry-guards'):
                    parts += self._value(key, [])
                elif key == 'process/pid':
                    parts += self._value(key, ['4242'])
                else:
                    return 552, [('end', 'Unrecognized key "%s"' % key)]
            return 250, parts + ok
        if verb == 'CLOSECIRCUIT':
            try:
                known = self.orc.live('c', int(w[1]))
            except (ValueError, IndexError):
                return 512, [('end', 'Bad arguments to CLOSECIRCUIT')]
            return (250, ok) if known else (552, [('end', 'Unknown circuit "%s"' % w[1])])
        if verb == 'CLOSESTREAM':
            try:
                known = self.orc.live('s', int(w[1]))
                int(w[2])
            except (ValueError, IndexError):
                return 512, [('end', 'Bad arguments to CLOSESTREAM')]
            return (250, ok) if known else (552, [('end', 'Unknown stream "%s"' % w[1])])
        return 510, [('end', 'Unrecognized command "%s"' % w[0])]

    def pump(self):
        """read every complete command line the client has written; answer (or hold the answer)"""
        while True:
            data = self.t.value()
            end = data.find(b'\r\n', self.seen)
            if end < 0:
                return
            line = data[self.seen:end].decode('latin-1')
            self.seen = end + 2
            self.received.append(line)
            code, parts = self.answer(line)
            reply = CS.encode_reply(code, parts)
            if self.hold and line.split(' ')[0].upper() in ('CLOSECIRCUIT', 'CLOSESTREAM'):
                w = line.split(' ')
                kind = 'c' if w[0].upper() == 'CLOSECIRCUIT' else 's'
                rec = self.orc.rec(kind, int(w[1])) if len(w) > 1 and w[1].isdigit() else None
                # the incarnation Tor knows (or last knew) under that id when the command arrives
                self.held.append((reply, rec['gen'] if rec else None))
            else:
                self.proto.dataReceived(reply)

    def ack(self):
        if self.held:
            reply, target = self.held.pop(0)
            self.acked[target] += 1
            if not reply.startswith(b'250'):
                self.refused[target] += 1
            self.proto.dataReceived(reply)
        self.pump()

    def emit(self, lines):
        data = b''
        for ln in lines:
            if ln.split(' ')[0] in self.events:
                data += b'650 ' + ln.encode('ascii') + b'\r\n'
        if data:
            self.proto.dataReceived(data)
        self.pump()


# ------------------------------------------------------------------------------------------
# listener doubles

_LCACHE = []


def make_listeners(log):
    """listener doubles writing to `log` (classes built once; the log list is swapped per session)"""
    if _LCACHE:
        CL, SL, cell = _LCACHE[0]
        cell[0] = log
        return CL, SL
    cell = [log]
    CL, SL = _make_listener_classes(cell)
    _LCACHE.append((CL, SL, cell))
    return CL, SL


def _make_listener_classes(cell):
    class _Log(object):
        def append(self, x):
            cell[0].append(x)
    log = _Log()
    from zope.interface import implementer
    from txtorcon.interface import ICircuitListener, IStreamListener

    @implementer(ICircuitListener)
    class CL(object):
        def __init__(self, name):
            self.name = name

        def circuit_new(self, circuit):
            log.append((self.name, 'circuit_new', circuit, None, None))

        def circuit_launched(self, circuit):
            log.append((self.name, 'circuit_launched', circuit, None, None))

        def circuit_extend(self, circuit, router):
            log.append((self.name, 'circuit_extend', circuit, getattr(router, 'id_hex', None), None))

        def circuit_built(self, circuit):
            log.append((self.name, 'circuit_built', circuit, None, None))

        def circuit_closed(self, circuit, **kw):
            log.append((self.name, 'circuit_closed', circuit, None, dict(kw)))

        def circuit_failed(self, circuit, **kw):
            log.append((self.name, 'circuit_failed', circuit, None, dict(kw)))

    @implementer(IStreamListener)
    class SL(object):
        def __init__(self, name):
            self.name = name

        def stream_new(self, stream):
            log.append((self.name, 'stream_new', stream, None, None))

        def stream_succeeded(self, stream):
            log.append((self.name, 'stream_succeeded', stream, None, None))

        def stream_attach(self, stream, circuit):
            log.append((self.name, 'stream_attach', stream, getattr(circuit, 'id', None), None))

        def stream_detach(self, stream, **kw):
            log.append((self.name, 'stream_detach', stream, None, dict(kw)))

        def stream_closed(self, stream, **kw):
            log.append((self.name, 'stream_closed', stream, None, dict(kw)))

        def stream_failed(self, stream, **kw):
            log.append((self.name, 'stream_failed', stream, None, dict(kw)))

    return CL, SL


KINDNAME = {'c': 'circuit', 's': 'stream'}


# ------------------------------------------------------------------------------------------
# one history

def run_history(hist):
    """hist = {'steps': [...], 'coalesce': bool, 'consensus': bool}; steps:
       ['gl', kind, L]            state.add_circuit_listener / add_stream_listener
       ['boot', [circuit-status lines], [stream-status lines]]   connect + bootstrap (exactly one)
       ['ev', 'CIRC ...' | 'STREAM ...']                         Tor emits the event
       ['ol', kind, L, id] / ['ul', kind, L, id]                 obj.listen(L) / obj.unlisten(L)
       ['wb', id] / ['wc', id]                                   circuit.when_built() / when_closed()
       ['cc', id, ifunused] / ['cs', id]                         circuit.close() / stream.close()
       ['ack']                                                   Tor's reply to the oldest close command arrives
    """
    from twisted.test.proto_helpers import StringTransport
    from twisted.python import log as tlog
    from twisted.internet.defer import AlreadyCalledError
    import txtorcon.torcontrolprotocol as tcp
    from txtorcon.torstate import TorState

    steps = hist['steps']
    coalesce = bool(hist.get('coalesce'))
    viol = []
    seen_keys = set()

    def bad(clause, sig, what):
        key = 'C08:%s:%s' % (clause, sig)
        if key in seen_keys:
            return
        seen_keys.add(key)
        viol.append({'key': key, 'clause': clause, 'what': what, 'history': hist})

    double_fires = []

    def observer(ev):
        f = ev.get('failure') or ev.get('log_failure')
        if f is not None and getattr(f, 'check', None) and f.check(AlreadyCalledError):
            double_fires.append(repr(f.value))

    tlog.addObserver(observer)
    try:
        orc = Oracle()
        log = []
        CL, SL = make_listeners(log)
        listeners = {}

        def L(kind, name):
            if (kind, name) not in listeners:
                listeners[(kind, name)] = (CL if kind == 'c' else SL)(name)
            return listeners[(kind, name)]

        proto = tcp.TorControlProtocol()
        state = TorState(proto)
        t = StringTransport()
        tor = None
        refs = {}
        objs = {}
        waits = []
        skipped = 0

        def refresh():
            for kind, table in (('c', state.circuits), ('s', state.streams)):
                for r in orc.live_recs(kind):
                    o = table.get(r['id'])
                    if o is not None:
                        refs[(kind, r['id'])] = (o, r['gen'])
                        objs.setdefault(r['gen'], o)

        def ref(kind, oid):
            r = orc.rec(kind, oid)
            got = refs.get((kind, oid))
            if r is not None and got is not None and got[1] == r['gen']:
                return got[0], r
            if r is not None and r['gen'] in objs:
                # appeared and went away within one read: the caller only knows it from a notification
                return objs[r['gen']], r
            return None, None

        def check_notifications(groups, mark, where):
            """groups: [(rec, notes)] one per event, in order; log[mark:] is what the listeners saw"""
            obs = collections.defaultdict(list)
            for name, meth, obj, extra, kw in log[mark:]:
                obs[name].append((meth, getattr(obj, 'id', None), extra, kw, obj))
            names = set(obs)
            for r, notes in groups:
                names.update(r['reg'])
            for name in sorted(names):
                seq = obs.get(name, [])
                exp_groups = []
                for r, notes in groups:
                    exp_groups.append([(m, r['id'], x) for m, x, f in notes] if name in r['reg'] else [])
                exp_total = collections.Counter(itertools.chain(*exp_groups))
                obs_total = collections.Counter((m, i, x) for m, i, x, kw, o in seq)
                missing = exp_total - obs_total
                extra = obs_total - exp_total
                for (m, i, x), n in sorted(missing.items(), key=repr):
                    rr = [r for r, notes in groups if r['id'] == i and r['kind'] == ('c' if m.startswith('circuit') else 's')][-1]
                    late = rr['reg'].get(name, -1) > rr['appeared']
                    if late:
                        bad('late_added_listener_is_notified', '%s:missing' % m,
                            'listener %s was added (step %d) after %s %d appeared (step %d) and is still registered, but got no %s%s at %s; expected exactly one'
                            % (name, rr['reg'][name], KINDNAME[rr['kind']], i, rr['appeared'], m, '' if x is None else '(%s)' % x, where))
                    else:
                        bad('one_notification_per_transition', '%s:missing' % m,
                            'registered listener %s got no %s%s for %s %d at %s; expected exactly one'
                            % (name, m, '' if x is None else '(%s)' % x, KINDNAME[rr['kind']], i, where))
                for (m, i, x), n in sorted(extra.items(), key=repr):
                    kind = 'c' if m.startswith('circuit') else 's'
                    rr = [r for r, notes in groups if r['id'] == i and r['kind'] == kind]
                    reg = bool(rr) and name in rr[-1]['reg']
                    if reg:
                        bad('one_notification_per_transition', '%s:%s' % (m, 'duplicate' if exp_total[(m, i, x)] else 'unexpected'),
                            'registered listener %s got %d x %s%s for %s %d at %s; expected %d'
                            % (name, obs_total[(m, i, x)], m, '' if x is None else '(%s)' % x, KINDNAME[kind], i, where, exp_total[(m, i, x)]))
                    else:
                        was = bool(rr) and name in rr[-1]['removed']
                        bad('removed_listener_is_not_notified', '%s:%s' % (m, 'removed' if was else 'never_registered'),
                            'listener %s is not registered on %s %d (%s) but got %s at %s'
                            % (name, KINDNAME[kind], i, 'removed earlier' if was else 'never added to it', m, where))
                chunks = None
                if not missing and not extra:
                    pos = 0
                    chunks = []
                    for g in exp_groups:
                        chunk = seq[pos:pos + len(g)]
                        if collections.Counter((m, i, x) for m, i, x, kw, o in chunk) != collections.Counter(g):
                            bad('notifications_in_event_order', 'reordered',
                                'listener %s saw %r at %s; expected the per-event groups %r in this order'
                                % (name, [(m, i) for m, i, x, kw, o in seq], where, exp_groups))
                            chunks = None
                            break
                        chunks.append(chunk)
                        pos += len(g)
                if chunks is None:
                    # counts are off (already reported): pair what was delivered with the events of the same object
                    # where that is unambiguous (one event for that object in this read)
                    chunks = []
                    for r, notes in groups:
                        same = [g for g in groups if g[0]['kind'] == r['kind'] and g[0]['id'] == r['id']]
                        chunks.append([e for e in seq if len(same) == 1 and e[1] == r['id']
                                       and e[0].startswith(KINDNAME[r['kind']])])
                # flags and object identity of what was delivered
                for (r, notes), chunk in zip(groups, chunks):
                    for m, i, x, kw, o in chunk:
                        for m2, x2, f in notes:
                            if m2 == m and f is not None:
                                wrong = sorted(k for k in f if (kw or {}).get(k) != f[k])
                                if wrong:
                                    low = [k for k in wrong if k != k.upper()]
                                    bad('flags_in_upper_and_lower_case',
                                        '%s:%s' % (m, 'lower_missing' if low and len(low) == len(wrong) else ('upper_missing' if not low else 'flags_missing')),
                                        '%s for %s %d delivered flags %r; expected every keyword of the event under its upper- and lower-case name: %r (wrong/missing: %r)'
                                        % (m, KINDNAME[r['kind']], i, kw, f, wrong))
                        known = objs.setdefault(r['gen'], o)
                        if known is not o:
                            bad('one_notification_per_transition', '%s:wrong_object' % m,
                                '%s delivered an object that is not the %s %d delivered/listed before' % (m, KINDNAME[r['kind']], i))

        def check_waits(where, quiescent):
            if double_fires:
                bad('wait_completes_exactly_once', 'fired_twice', 'a wait was completed a second time (%s) at %s' % (double_fires[0], where))
            for w in waits:
                if w.get('reported'):
                    continue
                r = w['rec']
                res = w['recorder'].results
                kinds = [k for k, v in res]
                tag = KINDNAME[r['kind']]
                if len(res) > 1:
                    w['reported'] = True
                    bad('wait_completes_exactly_once', '%s:%d_results' % (w['op'], len(res)), '%s wait of %s %d completed %d times' % (w['op'], tag, r['id'], len(res)))
                    continue
                pos = w['position']
                if w['op'] == 'wb':
                    exp = 'ok' if r['built'] else ('err' if r['gone'] else None)
                    if exp is None and res:
                        w['reported'] = True
                        bad('built_wait_succeeds_iff_built', 'completed_before_decided:%s' % kinds[0],
                            'when_built() of circuit %d (requested at step %d, status now %s) completed with %s at %s although the circuit is neither BUILT nor closed/failed'
                            % (r['id'], w['step'], r['status'], kinds[0], where))
                    elif exp == 'ok' and kinds != ['ok']:
                        w['reported'] = True
                        bad('built_wait_succeeds_iff_built', 'requested_%s:%s' % (pos, kinds[0] if kinds else 'never_completes'),
                            'when_built() of circuit %d requested %s (step %d); the circuit reached BUILT; observed %r at %s, expected one success'
                            % (r['id'], pos, w['step'], kinds, where))
                    elif exp == 'err' and kinds != ['err']:
                        w['reported'] = True
                        bad('built_wait_fails_when_closed_first', 'requested_%s:%s:%s' % (pos, r['gone'], kinds[0] if kinds else 'never_completes'),
                            'when_built() of circuit %d requested %s (step %d); Tor reported it %s without ever reporting BUILT; observed %r at %s, expected one failure'
                            % (r['id'], pos, w['step'], r['gone'], kinds, where))
                elif w['op'] == 'wc':
                    if r['gone'] is None and res:
                        w['reported'] = True
                        bad('closed_wait_completes_when_reported_gone', 'completed_early',
                            'when_closed() of circuit %d completed at %s while Tor still has the circuit (%s)' % (r['id'], where, r['status']))
                    elif r['gone'] is not None and len(res) != 1:
                        w['reported'] = True
                        bad('closed_wait_completes_when_reported_gone', 'requested_%s:%s:never_completes' % (pos, r['gone']),
                            'when_closed() of circuit %d requested %s (step %d); Tor reported it %s at step %s; not completed at %s'
                            % (r['id'], pos, w['step'], r['gone'], r['gone_step'], where))
                else:
                    order = 'after_gone' if not w['live'] else ('ack_before_event' if (r.get('acks_at_gone') or 0) > w['acks'] else 'event_before_ack')
                    if r['gone'] is None and res:
                        w['reported'] = True
                        at_ack = where.startswith('ack') or where.startswith('final')
                        bad('close_completes_only_when_reported_gone', '%s:completed_%s' % (tag, 'at_ack' if at_ack else 'early'),
                            'close() of %s %d (requested at step %d) completed with %s at %s but Tor has not reported it CLOSED/FAILED (status %s)'
                            % (tag, r['id'], w['step'], kinds[0], where, r['status']))
                    elif r['gone'] is not None and quiescent and not res:
                        w['reported'] = True
                        sibs = [x for x in waits if x is not w and x['op'] == w['op'] and x['rec'] is r]
                        done = [x for x in sibs if x['recorder'].results]
                        nth = 1 + len([x for x in sibs if x['seq'] < w['seq']])
                        if not w['live']:
                            bad('close_requested_after_gone_completes', '%s:%s:%s' % (tag, r['gone'], 'first_request' if nth == 1 else 'repeated_request'),
                                'close() of %s %d requested at step %d, after Tor reported it %s (step %s): the wait never completes (all commands acknowledged) at %s; expected it to complete exactly once'
                                % (tag, r['id'], w['step'], r['gone'], r['gone_step'], where))
                        elif done:
                            bad('repeated_close_requests_share_outcome', '%s:%s:%s_request_never_completes' % (tag, order, 'first' if nth == 1 else 'later'),
                                'close() requested %d times on %s %d; Tor reported it %s (step %s) and every command is acknowledged; %d request(s) completed but request #%d (step %d) never completes, at %s'
                                % (len(sibs) + 1, tag, r['id'], r['gone'], r['gone_step'], len(done), nth, w['step'], where))
                        else:
                            bad('close_completes_once_reported_gone', '%s:%s:%s:never_completes' % (tag, order, r['gone']),
                                'close() of %s %d requested at step %d; Tor reported it %s (step %s, %s) and every command is acknowledged; the wait is not complete at %s'
                                % (tag, r['id'], w['step'], r['gone'], r['gone_step'], order.replace('_', ' '), where))
            # shared outcome among requests made while Tor still had the object
            if quiescent:
                byrec = collections.defaultdict(list)
                for w in waits:
                    if w['op'] in ('cc', 'cs') and w['live'] and w['recorder'].results:
                        byrec[id(w['rec'])].append(w)
                for ws in byrec.values():
                    ks = set(w['recorder'].results[0][0] for w in ws)
                    if len(ks) > 1 and not ws[0].get('share_reported'):
                        ws[0]['share_reported'] = True
                        r = ws[0]['rec']
                        late = tor.refused[r['gen']]
                        bad('repeated_close_requests_share_outcome',
                            '%s:different_outcomes%s' % (KINDNAME[r['kind']], ':tor_refused_command_that_arrived_after_the_event' if late else ''),
                            'close() requests on %s %d (all made while Tor still had it) completed with different outcomes %r%s'
                            % (KINDNAME[r['kind']], r['id'], [w['recorder'].results[0][0] for w in ws],
                               '; the close command reached Tor only after the object was gone and was answered 552' if late else ''))

        i = 0
        n = len(steps)
        booted = False
        while i < n:
            st = steps[i]
            op = st[0]
            where = '%s@%d' % (op, i)
            mark = len(log)
            try:
                if op == 'gl':
                    orc.add_global(st[1], st[2], i)
                    if st[1] == 'c':
                        state.add_circuit_listener(L('c', st[2]))
                    else:
                        state.add_stream_listener(L('s', st[2]))
                    if log[mark:]:
                        check_notifications([], mark, where)
                elif op == 'boot':
                    groups = []
                    for ln in st[1]:
                        groups.append(orc.event('CIRC ' + ln, i))
                    for ln in st[2]:
                        groups.append(orc.event('STREAM ' + ln, i))
                    tor = ScriptedTor(proto, t, orc, st[1], st[2], hist.get('consensus', True))
                    proto.makeConnection(t)
                    tor.pump()
                    rec = CS.Recorder(state.post_bootstrap)
                    if [k for k, v in rec.results] != ['ok']:
                        bad('bootstrap', 'failed', 'scripted bootstrap did not complete: %r; received %r' % (rec.results, tor.received[-3:]))
                        return viol
                    booted = True
                    tor.hold = True
                    refresh()
                    check_notifications(groups, mark, where)
                elif op == 'ev':
                    j = i
                    lines = [st[1]]
                    if coalesce:
                        while j + 1 < n and steps[j + 1][0] == 'ev':
                            j += 1
                            lines.append(steps[j][1])
                    groups = []
                    for k, ln in enumerate(lines):
                        r, notes = orc.event(ln, i + k)
                        if r['gone'] is not None and r.get('acks_at_gone') is None:
                            r['acks_at_gone'] = tor.acked[r['gen']]
                        groups.append((r, notes))
                    tor.emit(lines)
                    refresh()
                    where = 'ev@%d' % i if j == i else 'ev@%d..%d' % (i, j)
                    check_notifications(groups, mark, where)
                    i = j
                elif op in ('ol', 'ul'):
                    o, r = ref(st[1], st[3])
                    if o is None or r['gone'] is not None or (op == 'ul' and st[2] not in r['reg']):
                        skipped += 1
                    elif op == 'ol':
                        orc.listen(st[1], st[3], st[2], i)
                        o.listen(L(st[1], st[2]))
                    else:
                        orc.unlisten(st[1], st[3], st[2])
                        o.unlisten(L(st[1], st[2]))
                    if log[mark:]:
                        check_notifications([], mark, where)
                elif op in ('wb', 'wc', 'cc', 'cs'):
                    kind = 's' if op == 'cs' else 'c'
                    o, r = ref(kind, st[1])
                    if o is None:
                        skipped += 1
                    else:
                        if op == 'wb':
                            d = o.when_built()
                            pos = ('after_closed' if r['gone'] else 'while_built') if r['built'] else ('after_' + r['gone'].lower() if r['gone'] else 'before_decided')
                        elif op == 'wc':
                            d = o.when_closed()
                            pos = 'after_gone' if r['gone'] else 'before_gone'
                        elif op == 'cc':
                            d = o.close(IfUnused=True) if (len(st) > 2 and st[2]) else o.close()
                            pos = 'after_gone' if r['gone'] else 'live'
                        else:
                            d = o.close()
                            pos = 'after_gone' if r['gone'] else 'live'
                        waits.append({'op': op, 'rec': r, 'step': i, 'seq': len(waits), 'position': pos,
                                      'live': r['gone'] is None, 'acks': tor.acked[r['gen']], 'recorder': CS.Recorder(d)})
                        tor.pump()
                elif op == 'ack':
                    tor.ack()
                else:
                    raise ValueError('unknown step %r' % (st,))
            except Exception as e:
                bad('one_notification_per_transition', 'exception:%s:%s' % (op, type(e).__name__), 'step %d %r raised %r' % (i, st, e))
                return viol
            if booted:
                check_waits(where, not tor.held)
            i += 1
        if booted:
            guard = 0
            while tor.held and guard < 100:
                tor.ack()
                guard += 1
                check_waits('final-ack', not tor.held)
            check_waits('final', True)
        hist_skipped = skipped
        if hist_skipped and hist.get('strict'):
            bad('precondition', 'skipped', '%d steps skipped (object not listed by TorState)' % hist_skipped)
        return viol
    finally:
        try:
            tlog.removeObserver(observer)
        except Exception:
            pass


def replay_history(history):
    return run_history(history)


# ------------------------------------------------------------------------------------------
# enumeration

def merges(events, tokens):
    """every way to place the action tokens (kept in this order) into the gaps of the event list"""
    n = len(events)
    for gaps in itertools.combinations_with_replacement(range(n + 1), len(tokens)):
        out = []
        k = 0
        for g in range(n + 1):
            while k < len(tokens) and gaps[k] == g:
                out.append(tokens[k])
                k += 1
            if g < n:
                out.append(events[g])
        yield out


def valid(steps):
    """dry run on the oracle: every action refers to an object that exists (and is live where needed)"""
    orc = Oracle()
    pending = 0
    for idx, st in enumerate(steps):
        op = st[0]
        if op in ('ol', 'ul'):
            r = orc.rec(st[1], st[3])
            if r is None or r['gone'] is not None:
                return False
            if op == 'ul' and st[2] not in r['reg']:
                return False
        elif op in ('wb', 'wc', 'cc'):
            if orc.rec('c', st[1]) is None:
                return False
            pending += op == 'cc'
        elif op == 'cs':
            if orc.rec('s', st[1]) is None:
                return False
            pending += 1
        elif op == 'ack':
            if not pending:
                return False
        orc.apply(st, idx)
    return True


def ev(line):
    return ['ev', line]


def circuit_scripts():
    P1, P2 = (2,), (2, 0)
    return [
        ('built_then_closed', [], [], [ev(cline(1, 'LAUNCHED')), ev(cline(1, 'EXTENDED', P1)), ev(cline(1, 'EXTENDED', P2)),
                                       ev(cline(1, 'BUILT', P2)), ev(cline(1, 'CLOSED', P2, 'FINISHED'))]),
        ('failed_before_built', [], [], [ev(cline(1, 'LAUNCHED')), ev(cline(1, 'EXTENDED', P1)),
                                         ev(cline(1, 'FAILED', P1, 'DESTROYED', 'CHANNEL_CLOSED'))]),
        ('closed_before_built', [], [], [ev(cline(1, 'LAUNCHED')), ev(cline(1, 'CLOSED', (), 'REQUESTED'))]),
        ('snapshot_built_then_closed', [cline(1, 'BUILT', (0, 3, 1), snap=True)], [],
         [ev(cline(1, 'CLOSED', (0, 3, 1), 'DESTROYED', 'OR_CONN_CLOSED')), ev(cline(2, 'LAUNCHED'))]),
        ('never_gone', [], [], [ev(cline(1, 'LAUNCHED')), ev(cline(1, 'EXTENDED', P1)), ev(cline(1, 'BUILT', P1))]),
        ('id_reused', [], [], [ev(cline(1, 'LAUNCHED')), ev(cline(1, 'FAILED', (), 'TIMEOUT')), ev(cline(1, 'LAUNCHED')),
                               ev(cline(1, 'EXTENDED', (4,))), ev(cline(1, 'BUILT', (4,))), ev(cline(1, 'CLOSED', (4,), 'FINISHED'))]),
        ('snapshot_extended_then_built', [cline(1, 'EXTENDED', P1, snap=True)], [],
         [ev(cline(1, 'BUILT', P2)), ev(cline(1, 'CLOSED', P2, 'REQUESTED'))]),
    ]


def stream_scripts():
    T, IP = 'www.example.com:80', '93.184.216.34:80'
    src = 'SOURCE_ADDR=127.0.0.1:40001 PURPOSE=USER'
    snap2 = [cline(1, 'BUILT', (0, 2), snap=True), cline(2, 'BUILT', (1, 3), snap=True)]
    return [
        ('succeeded_then_closed', snap2, [], [ev(sline(1, 'NEW', 0, T, extra=src)), ev(sline(1, 'SENTCONNECT', 1, T)),
                                              ev(sline(1, 'REMAP', 1, IP, extra='SOURCE=EXIT')), ev(sline(1, 'SUCCEEDED', 1, IP)),
                                              ev(sline(1, 'CLOSED', 1, IP, 'DONE'))]),
        ('detached_reattached', snap2, [], [ev(sline(1, 'NEW', 0, T, extra=src)), ev(sline(1, 'SENTCONNECT', 1, T)),
                                            ev(sline(1, 'DETACHED', 1, T, 'TIMEOUT')), ev(sline(1, 'SENTCONNECT', 2, T)),
                                            ev(sline(1, 'SUCCEEDED', 2, IP)), ev(sline(1, 'CLOSED', 2, IP, 'END', 'DONE'))]),
        ('failed', snap2, [], [ev(sline(1, 'NEW', 0, T, extra=src)), ev(sline(1, 'SENTCONNECT', 1, T)),
                               ev(sline(1, 'FAILED', 1, T, 'END', 'EXITPOLICY'))]),
        ('closed_unattached', snap2, [], [ev(sline(1, 'NEW', 0, T, extra=src)), ev(sline(1, 'CLOSED', 0, T, 'MISC'))]),
        ('circuit_closes_under_stream', snap2, [], [ev(sline(1, 'NEW', 0, T, extra=src)), ev(sline(1, 'SENTCONNECT', 1, T)),
                                                    ev(cline(1, 'CLOSED', (0, 2), 'DESTROYED', 'OR_CONN_CLOSED')),
                                                    ev(sline(1, 'DETACHED', 1, T, 'DESTROY')), ev(sline(1, 'FAILED', 0, T, 'TIMEOUT'))]),
        ('snapshot_succeeded_then_closed', snap2, [sline(1, 'SUCCEEDED', 1, T, snap=True)],
         [ev(sline(1, 'CLOSED', 1, T, 'DONE')), ev(sline(2, 'NEW', 0, T, extra=src))]),
        ('never_gone', snap2, [], [ev(sline(1, 'NEW', 0, T, extra=src)), ev(sline(1, 'SENTCONNECT', 2, T)), ev(sline(1, 'SUCCEEDED', 2, IP))]),
        ('id_reused', snap2, [], [ev(sline(1, 'NEW', 0, T, extra=src)), ev(sline(1, 'FAILED', 0, T, 'TIMEOUT')),
                                  ev(sline(1, 'NEW', 0, T, extra=src)), ev(sline(1, 'SENTCONNECT', 2, T)),
                                  ev(sline(1, 'SUCCEEDED', 2, IP)), ev(sline(1, 'CLOSED', 2, IP, 'DONE'))]),
    ]


def token_sequences(tier, kind):
    """families of action sequences placed at every combination of positions"""
    k = kind
    fam = []
    lis = [['gl', k, 'L1'], ['ol', k, 'L1', 1], ['ul', k, 'L0', 1], ['ul', k, 'L1', 1], ['gl', k, 'L0'], ['ol', k, 'L0', 1]]
    for a in lis:
        fam.append(('listeners', [a]))
    core = lis[:4]
    for a, b in itertools.product(lis if tier == 'thorough' else core, repeat=2):
        fam.append(('listeners', [a, b]))
    if tier == 'thorough':
        for a, b, c in itertools.product(core, repeat=3):
            fam.append(('listeners', [a, b, c]))
    if kind == 'c':
        ws = [['wb', 1], ['wc', 1]]
        for a in ws:
            fam.append(('waits', [a]))
        for a, b in itertools.product(ws, repeat=2):
            fam.append(('waits', [a, b]))
        if tier == 'thorough':
            for a, b, c in itertools.product(ws, repeat=3):
                fam.append(('waits', [a, b, c]))
    C = ['cc', 1, False] if kind == 'c' else ['cs', 1]
    A = ['ack']
    shapes = ['C', 'CA', 'CC', 'CCA', 'CAC']
    if tier == 'thorough':
        shapes += ['CAA', 'CCAA', 'CACA', 'CAAC', 'CCC', 'CCCA', 'CCAC', 'CACC', 'CCCAA', 'CCACA', 'CACAC', 'CCAAC']
    for s in shapes:
        fam.append(('close', [C if ch == 'C' else A for ch in s]))
    if kind == 'c':
        mixes = [[C, ['wb', 1]], [['wb', 1], C], [C, ['wc', 1]], [['wc', 1], C], [C, A, ['wb', 1]], [C, ['wc', 1], A], [['cc', 1, True], A]]
        for m in mixes:
            fam.append(('close+wait', m))
    else:
        fam.append(('close+listener', [C, ['ul', 's', 'L0', 1]]))
        fam.append(('close+listener', [C, ['gl', 's', 'L1'], A]))
    return fam


def systematic(tier):
    for kind, scripts in (('c', circuit_scripts()), ('s', stream_scripts())):
        fams = token_sequences(tier, kind)
        for name, snap_c, snap_s, events in scripts:
            head = [['gl', kind, 'L0'], ['gl', 'c' if kind == 's' else 's', 'X0'], ['boot', snap_c, snap_s]]
            for fam, tokens in fams:
                for body in merges(events, tokens):
                    steps = head + body
                    if not valid(steps):
                        continue
                    yield {'steps': steps, 'coalesce': False, 'consensus': True, 'script': '%s/%s/%s' % (KINDNAME[kind], name, fam)}


# ---- seeded random longer histories over a 3 circuit x 3 stream population

def random_history(rnd, nsteps):
    orc = Oracle()
    steps = []
    idx = 0

    def push(st):
        steps.append(st)
        orc.apply(st, len(steps) - 1)

    for kind in ('c', 's'):
        for name in ('L0', 'L1'):
            if rnd.random() < 0.5:
                push(['gl', kind, name])
    snap_c, snap_s = [], []
    for cid in (1, 2):
        if rnd.random() < 0.5:
            hops = tuple(rnd.sample(range(5), rnd.randint(1, 3)))
            snap_c.append(cline(cid, rnd.choice(['BUILT', 'BUILT', 'EXTENDED']), hops, snap=True))
    built = [int(l.split(' ')[0]) for l in snap_c if ' BUILT ' in l]
    if built and rnd.random() < 0.5:
        snap_s.append(sline(1, 'SUCCEEDED', rnd.choice(built), 'snap.example.com:443', snap=True))
    if len(snap_s) == 1 and rnd.random() < 0.3:
        snap_s.append(sline(2, 'SENTCONNECT', rnd.choice(built), 'snap2.example.com:80', snap=True))
    push(['boot', snap_c, snap_s])
    closes = 0
    names = ['L0', 'L1', 'L2']
    targets = ['www.example.com:80', 'torproject.org:443', '10.1.2.3:22']
    creason = ['FINISHED', 'REQUESTED', 'TIMEOUT', 'DESTROYED']
    while len(steps) < nsteps:
        x = rnd.random()
        if x < 0.55:
            opts = []
            for cid in (1, 2, 3):
                r = orc.rec('c', cid)
                if r is None or r['gone']:
                    if not any(s['circ'] == cid for s in orc.live_recs('s')):
                        opts.append((3, cline(cid, 'LAUNCHED')))
                    continue
                hops = tuple(FPS.index(h[1:]) for h in r['path'])
                if r['status'] in ('LAUNCHED', 'EXTENDED') and len(hops) < 3:
                    nh = rnd.choice([i for i in range(5) if i not in hops])
                    opts.append((4, cline(cid, 'EXTENDED', hops + (nh,))))
                if r['status'] == 'EXTENDED' and hops:
                    opts.append((4, cline(cid, 'BUILT', hops)))
                rs = rnd.choice(creason)
                rem = rnd.choice([None, None, 'CHANNEL_CLOSED'])
                if r['status'] == 'BUILT':
                    opts.append((2, cline(cid, 'CLOSED', hops, rs, rem)))
                else:
                    opts.append((1, cline(cid, 'FAILED', hops, rs, rem)))
                    opts.append((0.5, cline(cid, 'CLOSED', hops, rs, rem)))
            for sid in (1, 2, 3):
                r = orc.rec('s', sid)
                if r is None or r['gone']:
                    opts.append((3, sline(sid, 'NEW', 0, rnd.choice(targets), extra='SOURCE_ADDR=127.0.0.1:%d PURPOSE=USER' % (40000 + sid))))
                    continue
                tgt = r.get('target') or targets[0]
                if r['circ']:
                    c = r['circ']
                    if orc.live('c', c):
                        opts.append((1, sline(sid, 'REMAP', c, '198.51.100.%d:80' % sid, extra='SOURCE=EXIT')))
                        if r['status'] in ('SENTCONNECT', 'REMAP'):
                            opts.append((3, sline(sid, 'SUCCEEDED', c, tgt)))
                    opts.append((2, sline(sid, 'DETACHED', c, tgt, rnd.choice(['TIMEOUT', 'DESTROY', 'END']))))
                    opts.append((1.5, sline(sid, 'CLOSED', c, tgt, 'DONE', rnd.choice([None, 'DONE']))))
                    opts.append((1, sline(sid, 'FAILED', c, tgt, 'END', rnd.choice([None, 'EXITPOLICY']))))
                else:
                    bc = [q['id'] for q in orc.live_recs('c') if q['status'] == 'BUILT']
                    if bc:
                        opts.append((4, sline(sid, 'SENTCONNECT', rnd.choice(bc), tgt)))
                    opts.append((0.5, sline(sid, 'REMAP', 0, '198.51.100.%d:80' % sid, extra='SOURCE=CACHE')))
                    opts.append((1, sline(sid, 'CLOSED', 0, tgt, 'MISC')))
                    opts.append((1, sline(sid, 'FAILED', 0, tgt, 'TIMEOUT')))
            tot = sum(w for w, _ in opts)
            y = rnd.random() * tot
            for w, ln in opts:
                y -= w
                if y <= 0:
                    break
            push(['ev', ln])
            p = parse_event(ln)
            if p['kind'] == 's' and p['status'] == 'NEW':
                orc.rec('s', p['id'])['target'] = p['target']
        elif x < 0.75:
            kind = rnd.choice('cs')
            name = rnd.choice(names)
            livers = orc.live_recs(kind)
            y = rnd.random()
            if y < 0.35 or not livers:
                push(['gl', kind, name])
            else:
                r = rnd.choice(livers)
                regd = sorted(r['reg'])
                if y < 0.7 and regd:
                    push(['ul', kind, rnd.choice(regd), r['id']])
                else:
                    push(['ol', kind, name, r['id']])
        elif x < 0.85:
            have = sorted(orc.tab['c'])
            if have:
                push([rnd.choice(['wb', 'wb', 'wc']), rnd.choice(have)])
        elif x < 0.93:
            kind = rnd.choice('cs')
            have = sorted(orc.tab[kind])
            livers = [r['id'] for r in orc.live_recs(kind)]
            if have:
                oid = rnd.choice(livers) if (livers and rnd.random() < 0.8) else rnd.choice(have)
                push(['cc', oid, rnd.random() < 0.2] if kind == 'c' else ['cs', oid])
                closes += 1
        else:
            if closes:
                push(['ack'])
    return {'steps': steps, 'coalesce': rnd.random() < 0.3, 'consensus': rnd.random() < 0.8, 'script': 'random'}


def nontrivial_signature(hist):
    """a case is non-trivial when it has at least one event after bootstrap (or a non-empty snapshot) and
    at least one action (listener change after bootstrap, wait or close)"""
    steps = hist['steps']
    b = [i for i, s in enumerate(steps) if s[0] == 'boot'][0]
    has_ev = any(s[0] == 'ev' for s in steps) or bool(steps[b][1]) or bool(steps[b][2])
    has_act = any(s[0] in ('gl', 'ol', 'ul', 'wb', 'wc', 'cc', 'cs') for s in steps[b + 1:])
    if has_ev and has_act:
        return json.dumps([steps, hist.get('coalesce')], sort_keys=True)
    return None


PER_KEY_CAP = 10


def twin(tier, seed):
    rnd = random.Random(seed)
    violations, samples = [], []
    perkey = collections.Counter()
    distinct = set()
    evaluations = 0
    fam_count = collections.Counter()

    def run(h):
        v = run_history(h)
        sig = nontrivial_signature(h)
        if sig is not None:
            distinct.add(hash(sig))
        for x in v:
            perkey[x['key']] += 1
            if perkey[x['key']] <= PER_KEY_CAP:
                violations.append(x)
        return v

    for h in systematic(tier):
        run(h)
        evaluations += 1
        fam_count[h['script'].split('/')[0] + '/' + h['script'].split('/')[2]] += 1
        if len(samples) < 2 and evaluations in (400, 2500):
            samples.append({'script': h['script'], 'steps': h['steps']})
    nrand, length = (250, 36) if tier == 'quick' else (20000, 48)
    for k in range(nrand):
        h = random_history(rnd, length if k % 4 else length * 2)
        run(h)
        evaluations += 1
        if len(samples) < 3 and k == 3:
            samples.append({'script': 'random', 'coalesce': h['coalesce'], 'steps': h['steps'][:14] + [['...', len(h['steps'])]]})
    return {
        'evaluations': evaluations,
        'distinct_nontrivial': len(distinct),
        'samples': samples,
        'violations': violations,
        'rule': 'one evaluation = one session of a real TorControlProtocol+TorState against a scripted Tor: optional global listeners before '
                'bootstrap, a circuit-status/stream-status snapshot, then a history of CIRC/STREAM events interleaved with actions '
                '(global add, obj.listen, obj.unlisten, when_built, when_closed, close, release of a close acknowledgement). Systematic part: '
                '7 circuit and 8 stream life-cycle scripts (built-then-closed, failed/closed before BUILT, snapshot objects, never gone, id '
                'reused, detach/re-attach, circuit closing under a stream) x action families (listeners: 1-2 [thorough: 1-3] of global add / '
                'obj.listen / obj.unlisten of an early or a late listener / repeated add; waits: 1-2 [1-3] of when_built/when_closed; close: '
                '1-2 [1-3] close requests with 0-1 [0-2] acknowledgement releases in every order; close+wait / close+listener mixes) x every '
                'placement of the actions in the gaps of the script (invalid placements, e.g. an action on an object not yet seen, are not '
                'run). Random part: seeded histories over circuits 1-3 / streams 1-3 (ids reused after close, relays in and not in the '
                'consensus, circuits closing under attached streams, detach/re-attach), 30%% delivered with consecutive events coalesced '
                'into one read. Non-trivial = at least one event (or snapshot entry) and at least one action after bootstrap; distinct by '
                'the full step list. Systematic sessions per family: %s. At most %d violations kept per key (counts: %s).'
                % (dict(fam_count), PER_KEY_CAP, dict(perkey)),
        'bounds': ('tier %s: scripts of <= 6 events with <= %d actions placed at every position; %d random histories of %d (every 4th: %d) steps; '
                   '<= 3 circuits, <= 3 streams, <= 3 listeners per kind, paths <= 3 hops'
                   % (tier, 3 if tier == 'quick' else 5, nrand, length, length * 2)),
    }
