"""Twin for C10: config changes reach Tor only on save, as one SETCONF with exactly the changes.

A REAL txtorcon TorConfig on a REAL TorControlProtocol (StringTransport) talks to an in-file
scripted Tor (written from control-spec 3.1 SETCONF, 3.3 GETCONF, 3.9 GETINFO, 3.21
PROTOCOLINFO, 4.1.18 CONF_CHANGED; it keeps a configuration store with SETCONF semantics and has
its own kvline parser).  Histories = sequences of attribute assignments, in-place list operations
and saves (accepted / rejected) over one option of every declared type; every observation is
checked against an oracle derived from the property statement only.

Conventions of the oracle (where the statement is silent it accepts anything):
  * an option whose pending value equals what Tor already holds MAY be named or omitted
    (assigning the same value / a mutation that was reverted is not clearly "a change");
  * in-place operations are always done the documented way, on a fresh read
    (`conf.Opt.append(x)`), with arguments valid for the list that was read; operations that do
    not alter the list are skipped;
  * when the list that is read differs from the pending value (a list was assigned and the option
    is mutated through a read before any save), both op(pending) and op(read) are admissible --
    but not the bare assigned value: an in-place mutation is a change and must not be lost
    (signature `...:list_assigned_then_mutated_before_save`);
  * comma-separated list types: `K=a,b` and `K=a K=b` are the same value;
  * a clearing entry is `Key`, `Key=` or `Key=""`;
  * reads are checked only after an acknowledged save, against the scripted Tor's store (which was
    filled from the wire bytes by the independent parser), modulo the declared type's
    representation (Boolean 1/True, Boolean+Auto auto/-1, Integer 5/'5', CommaList 'a,b'/[a,b]);
    not for an option whose SETCONF entries were already reported (consequence);
  * only first failures: a history stops at the first step that produced a violation;
  * a violation seen against a Tor that emits CONF_CHANGED is keyed `...+conf_changed_events` only
    if the same history without the events does not show it.
"""
from twin import control_session  # noqa: F401  (first: silences twisted logging)
import itertools
import json
import random
import time
import warnings

from twin.control_session import make_proto, Recorder

RAISE = '<raise>'

# ----------------------------------------------------------------------------------------------
# declared option types: (type name as Tor prints it in config/names, option name, kind)
#   kind 'list'  : txtorcon treats it as list-valued (is_list_config_type)
#   kind 'scalar'
TYPES = [
    ('Boolean', 'AvoidDiskWrites', 'scalar'),
    ('Boolean+Auto', 'ClientUseIPv6', 'scalar'),
    ('Integer', 'NumCPUs', 'scalar'),
    ('SignedInteger', 'KeepalivePeriodSkew', 'scalar'),
    ('Port', 'NATDListenPort', 'scalar'),
    ('TimeInterval', 'NewCircuitPeriod', 'scalar'),
    ('TimeMsecInterval', 'CircuitPriorityHalflifeMsec', 'scalar'),
    ('DataSize', 'BandwidthRate', 'scalar'),
    ('Float', 'PathsNeededToBuildCircuits', 'scalar'),
    ('Time', 'AccountingStartTime', 'scalar'),
    ('String', 'Nickname', 'scalar'),
    ('Filename', 'DataDirectory', 'scalar'),
    ('LineList', 'SocksPort', 'list'),
    ('CommaList', 'LongLivedPorts', 'list'),
    ('RouterList', 'ExitNodes', 'list'),
    ('TimeIntervalCommaList', 'TestingServerDownloadSchedule', 'list'),
]
# bystanders that are always declared (never touched by single-option histories)
BYSTANDERS = [('LineList', 'Log', 'list'), ('Integer', 'MaxCircuitDirtiness', 'scalar'),
              ('String', 'ContactInfo', 'scalar')]
TYPE_OF = dict((n, t) for (t, n, k) in TYPES + BYSTANDERS)
KIND_OF = dict((n, k) for (t, n, k) in TYPES + BYSTANDERS)
NAME_OF_TYPE = dict((t, n) for (t, n, k) in TYPES)
INT_FAMILY = ('Integer', 'SignedInteger', 'Port', 'TimeInterval', 'DataSize')
COMMA_FAMILY = ('CommaList', 'RouterList', 'TimeIntervalCommaList')

SCALAR_INIT = {
    'Boolean': '0', 'Boolean+Auto': 'auto', 'Integer': '4', 'SignedInteger': '2', 'Port': '9',
    'TimeInterval': '30', 'TimeMsecInterval': '30000', 'DataSize': '1024', 'Float': '0.6',
    'Time': '2020-01-01 00:00:00', 'String': 'initnick', 'Filename': '/var/lib/tor',
}
# values assigned to scalars: (value, may be invalid)
SCALAR_VALUES = {
    'Boolean': [True, False, 1, 0],
    'Boolean+Auto': [1, 0, -1, '1', True, 'x'],
    'Integer': [7, '8', 4, 'abc'],
    'SignedInteger': [-3, 5, '6', 'abc'],
    'Port': [9051, '9052', 'abc'],
    'TimeInterval': [60, '90', 'abc'],
    'TimeMsecInterval': ['500', '2 seconds'],
    'DataSize': [2048, '4096', 'abc'],
    'Float': [0.5, '0.25'],
    'Time': ['2021-02-03 04:05:06', '2022-01-01'],
    'String': ['nick', 'two words', 'initnick'],
    'Filename': ['/tmp/x', '/tmp/a b'],
}
LIST_ELEMS = ['a', 'b', 'c', 'd e', 9050]


def expected_scalar(typ, value):
    """the validated value, as the string Tor must receive; RAISE if the value is not valid"""
    if typ == 'Boolean':
        return '1' if value else '0'
    if typ == 'Boolean+Auto':
        try:
            n = int(value)
        except (TypeError, ValueError):
            return RAISE
        return 'auto' if n < 0 else ('1' if n else '0')
    if typ in INT_FAMILY:
        try:
            return str(int(value))
        except (TypeError, ValueError):
            return RAISE
    return str(value)


def read_matches(typ, read, stored):
    """does the value read from the TorConfig represent what the scripted Tor stores?
    stored: str (scalar), list of str (list kinds), None (cleared scalar)"""
    try:
        if typ == 'LineList':
            return isinstance(read, list) and [str(x) for x in read] == list(stored)
        if typ in COMMA_FAMILY:
            flat_s = [p.strip() for s in stored for p in s.split(',')]
            if isinstance(read, list):
                flat_r = [p.strip() for s in read for p in str(s).split(',')]
            else:
                flat_r = [p.strip() for p in str(read).split(',')]
            return flat_r == flat_s
        if stored is None:
            return True
        if typ == 'Boolean':
            return read in (0, 1, True, False) and bool(read) == (stored == '1')
        if typ == 'Boolean+Auto':
            if stored == 'auto':
                return read == 'auto' or (not isinstance(read, str) and int(read) == -1)
            return read != 'auto' and int(read) == int(stored)
        if typ in INT_FAMILY:
            return int(read) == int(stored)
        if typ == 'Float':
            return float(read) == float(stored)
        return str(read) == stored
    except Exception:
        return False


# ----------------------------------------------------------------------------------------------
# independent parser for the arguments of SETCONF (control-spec 3.1, 2.1.1 QuotedString)
class WireSyntaxError(Exception):
    pass


def parse_setconf_args(rest):
    """'k1=v1 k2 k3="a b"' -> [(k1, v1), (k2, None), (k3, 'a b')]"""
    out, i, n = [], 0, len(rest)
    while i < n:
        if rest[i] == ' ':
            i += 1
            continue
        j = i
        while j < n and rest[j] not in ' =':
            j += 1
        key = rest[i:j]
        if not key:
            raise WireSyntaxError('empty keyword at %d in %r' % (i, rest))
        if j >= n or rest[j] == ' ':
            out.append((key, None))
            i = j
            continue
        j += 1  # past '='
        if j < n and rest[j] == '"':
            j += 1
            buf = []
            while True:
                if j >= n:
                    raise WireSyntaxError('unterminated quoted string in %r' % rest)
                c = rest[j]
                if c == '\\':
                    if j + 1 >= n:
                        raise WireSyntaxError('dangling backslash in %r' % rest)
                    buf.append(rest[j + 1])
                    j += 2
                elif c == '"':
                    j += 1
                    break
                else:
                    buf.append(c)
                    j += 1
            if j < n and rest[j] != ' ':
                raise WireSyntaxError('garbage after quoted string in %r' % rest)
            out.append((key, ''.join(buf)))
        else:
            k = j
            while k < n and rest[k] != ' ':
                k += 1
            out.append((key, rest[j:k]))
            j = k
        i = j
    return out


# ----------------------------------------------------------------------------------------------
class ScriptedTor(object):
    """server side of the control connection; SETCONF is held until answer_setconf()"""
    EVENTS = 'CIRC STREAM ORCONN BW NEWDESC ADDRMAP CONF_CHANGED HS_DESC STATUS_GENERAL'
    SIGNALS = 'RELOAD HUP SHUTDOWN DUMP USR1 DEBUG USR2 HALT TERM INT NEWNYM CLEARDNSCACHE'

    def __init__(self, schema, store, emit_events):
        self.schema = list(schema)            # [(name, type)]
        self.lower = dict((n.lower(), n) for (n, t) in self.schema)
        self.types = dict(self.schema)
        self.store = dict(store)              # name -> str | list[str] | None
        self.emit_events = emit_events
        self.subscribed = set()
        self.log = []                         # every command line received
        self.held = []                        # SETCONF lines not yet answered
        self.buf = b''
        self.proto = self.transport = None

    def attach(self, proto, transport):
        self.proto, self.transport = proto, transport

    def is_list(self, name):
        return self.types[name] == 'LineList' or self.types[name] in COMMA_FAMILY

    # -- wire
    def pump(self):
        for _ in range(10000):
            data = self.transport.value()
            if not data:
                return
            self.transport.clear()
            self.buf += data
            while b'\r\n' in self.buf:
                line, self.buf = self.buf.split(b'\r\n', 1)
                line = line.decode('ascii', 'replace')
                self.log.append(line)
                if line.split(' ')[0].upper() == 'SETCONF':
                    self.held.append(line)
                    continue
                self.send(self.handle(line))
        raise RuntimeError('scripted Tor: conversation does not terminate')

    def send(self, lines):
        self.proto.dataReceived(''.join(l + '\r\n' for l in lines).encode('ascii'))

    def handle(self, line):
        parts = line.split(' ')
        cmd, args = parts[0].upper(), [p for p in parts[1:] if p]
        if cmd == 'PROTOCOLINFO':
            return ['250-PROTOCOLINFO 1', '250-AUTH METHODS=NULL', '250-VERSION Tor="0.4.8.12"', '250 OK']
        if cmd == 'AUTHENTICATE':
            return ['250 OK']
        if cmd == 'USEFEATURE':
            return ['250 OK']
        if cmd == 'SETEVENTS':
            known = self.EVENTS.split()
            for a in args:
                if a.upper() not in known:
                    return ['552 Unrecognized event "%s"' % a]
            self.subscribed = set(a.upper() for a in args)
            return ['250 OK']
        if cmd == 'GETINFO':
            out = []
            for k in args:
                if k == 'signal/names':
                    out.append('250-signal/names=' + self.SIGNALS)
                elif k == 'events/names':
                    out.append('250-events/names=' + self.EVENTS)
                elif k == 'version':
                    out.append('250-version=0.4.8.12')
                elif k in ('onions/current', 'onions/detached'):
                    out.append('250-%s=' % k)
                elif k == 'config/names':
                    out.append('250+config/names=')
                    out.extend('%s %s' % (n, t) for (n, t) in self.schema)
                    out.append('.')
                elif k == 'config/defaults':
                    out.append('250+config/defaults=')
                    for (n, t) in self.schema:
                        if not self.is_list(n):
                            out.append('%s %s' % (n, SCALAR_INIT[t]))
                    out.append('.')
                else:
                    return ['552 Unrecognized key "%s"' % k]
            return out + ['250 OK']
        if cmd == 'GETCONF':
            out = []
            for k in args:
                name = self.lower.get(k.lower())
                if name is None:
                    return ['552 Unrecognized configuration key "%s"' % k]
                v = self.store.get(name)
                if v is None or v == []:
                    out.append('250-%s' % name)
                elif self.types[name] == 'LineList':
                    out.extend('250-%s=%s' % (name, x) for x in v)
                elif self.types[name] in COMMA_FAMILY:
                    out.append('250-%s=%s' % (name, ','.join(v)))
                else:
                    out.append('250-%s=%s' % (name, v))
            if not out:
                return ['250 OK']
            out[-1] = '250 ' + out[-1][4:]
            return out
        return ['510 Unrecognized command "%s"' % parts[0]]

    # -- SETCONF
    def answer_setconf(self, accept):
        """answer the oldest held SETCONF; returns (pairs or None if unparseable)"""
        line = self.held.pop(0)
        rest = line[len('SETCONF'):]
        try:
            pairs = parse_setconf_args(rest)
        except WireSyntaxError as e:
            self.send(['512 syntax error: %s' % str(e)[:40]])
            return None
        if not accept:
            self.send(['513 Unacceptable option value: scripted refusal'])
            return pairs
        new = {}
        for (k, v) in pairs:
            name = self.lower.get(k.lower())
            if name is None:
                self.send(['552 Unrecognized option: Unknown option \'%s\'.  Failing.' % k])
                return pairs
            new.setdefault(name, [])
            if v is not None and v != '':
                new[name].append(v)
        changed = []
        for name, vals in new.items():
            if self.is_list(name):
                val = list(vals)
            else:
                val = vals[-1] if vals else None
            if self.store.get(name) != val:
                changed.append(name)
            self.store[name] = val
        out = []
        if self.emit_events and 'CONF_CHANGED' in self.subscribed and changed:
            out.append('650-CONF_CHANGED')
            for name in changed:
                v = self.store[name]
                if v is None or v == []:
                    out.append('650-%s' % name)
                elif isinstance(v, list):
                    out.extend('650-%s=%s' % (name, x) for x in v)
                else:
                    out.append('650-%s=%s' % (name, v))
            out.append('650 OK')
        self.send(out + ['250 OK'])
        return pairs


# ----------------------------------------------------------------------------------------------
# list operations on the model (a tuple of str), with concrete arguments
def concretise(op, before, i, v):
    """abstract (op, i, v) -> concrete (op, args) valid for the list `before`, or None"""
    n = len(before)
    if op == 'append':
        return ('append', [v])
    if op == 'extend':
        return ('extend', [list(v)])
    if op == 'insert':
        return ('insert', [i % (n + 1), v])
    if n == 0:
        return None
    if op == 'remove':
        return ('remove', [before[i % n]])   # the element itself (may be a non-str)
    if op == 'pop':
        return ('pop', [i % n])
    if op == 'poplast':
        return ('pop', [])
    if op == 'setitem':
        return ('__setitem__', [i % n, v])
    raise ValueError(op)


def model_apply(lst, cop, cargs):
    """apply a concrete op to a tuple of str; None when not applicable"""
    l = list(lst)
    try:
        if cop == 'append':
            l.append(str(cargs[0]))
        elif cop == 'extend':
            l.extend(str(x) for x in cargs[0])
        elif cop == 'insert':
            l.insert(cargs[0], str(cargs[1]))
        elif cop == 'remove':
            l.remove(str(cargs[0]))
        elif cop == 'pop':
            l.pop(*cargs)
        elif cop == '__setitem__':
            l[cargs[0]] = str(cargs[1])
    except (ValueError, IndexError):
        return None
    return tuple(l)


def canon(name, tup):
    """comma-separated list types: one value 'a,b' and two values 'a','b' denote the same list"""
    if TYPE_OF[name] in COMMA_FAMILY:
        return tuple(p.strip() for x in tup for p in str(x).split(','))
    return tuple(tup)


def spell(name, case):
    if case == 'lower':
        return name.lower()
    if case == 'upper':
        return name.upper()
    return name


# ----------------------------------------------------------------------------------------------
EVS = '+conf_changed_events'


def _viol(clause, sig, what, history):
    return {'key': 'C10:%s:%s' % (clause, sig), 'clause': clause, 'what': what, 'history': history}


def run_history(h):
    """h = {'opts': [option names used], 'init': {list option: initial value in the scripted Tor},
            'ops': [...], 'events': bool, 'case': 'exact'|'lower'|'upper', 'full': bool}
       ops: ['set', k, value] | ['mut', k, op, i, v] | ['save', accept]   (k indexes 'opts')
    returns (violations, info)"""
    from txtorcon.torconfig import TorConfig
    viol = []
    seen = set()
    ev = bool(h.get('events'))

    def flag(clause, sig, what):
        sig = sig + (EVS if ev else '')
        if (clause, sig) in seen:
            return
        seen.add((clause, sig))
        viol.append(_viol(clause, sig, what, h))

    opts = list(h['opts'])
    case = h.get('case', 'exact')
    if h.get('full'):
        schema = [(n, t) for (t, n, k) in TYPES + BYSTANDERS]
    else:
        schema = [(n, TYPE_OF[n]) for n in opts] + [(n, t) for (t, n, k) in BYSTANDERS]
    store = {}
    for (n, t) in schema:
        if KIND_OF[n] == 'list':
            store[n] = ['notice stdout'] if n == 'Log' else []
        else:
            store[n] = SCALAR_INIT[t]
    for n, v in (h.get('init') or {}).items():
        store[n] = list(v) if isinstance(v, (list, tuple)) else v
    tor = ScriptedTor(schema, store, ev)

    proto, tr = make_proto(connect=True)
    tor.attach(proto, tr)
    tor.pump()
    with warnings.catch_warnings():
        warnings.simplefilter('ignore')
        cfg = TorConfig(control=proto)
    tor.pump()
    boot = Recorder(cfg.post_bootstrap)
    if not boot.results or boot.results[0][0] != 'ok':
        flag('harness_bootstrap', 'failed', 'bootstrap against the scripted Tor did not succeed: %r' % (boot.results,))
        return viol, {'setconfs': 0}

    def saved_norm(name):
        v = tor.store.get(name)
        if KIND_OF[name] == 'list':
            return canon(name, v or ())
        return v

    # ---- the model (ghost state of the statement)
    cands = {}             # changed option -> set of admissible pending values (dict order = change order)
    rejected = set()       # changed options that have been through a rejected save
    fresh_assign = set()   # list options assigned and not yet through any save attempt
    mixed = set()          # list options mutated (through a read) while in fresh_assign; until the next ack
    assign_kind = {}       # list option -> 'str' / 'list': kind of the latest assignment
    live_kind = {}         # ... of the latest assignment that went through a save attempt
    lost_plain = set()     # comma-separated options mutated while the str-assigned value is what reads return
    content_flagged = set()
    info = {'setconfs': 0, 'checked_saves': 0}
    mark = [len(tor.log)]

    def content_flag(name, kind, what):
        """one flag per option and SETCONF; kind: 'missing' | 'wrong'"""
        typ = TYPE_OF[name]
        content_flagged.add(name)
        if KIND_OF[name] == 'scalar':
            if kind == 'missing':
                flag('rejected_save_keeps_changes' if name in rejected else 'names_every_changed_option', typ, what)
            else:
                flag('scalar_once_validated_value', typ, what)
        elif kind == 'missing' and () in cands[name]:
            flag('emptied_list_clears_option', typ, what)
        elif name in mixed:
            flag('in_place_mutation_is_a_change', typ + ':list_assigned_then_mutated_before_save', what)
        elif name in lost_plain:
            flag('in_place_mutation_is_a_change', typ + ':mutated_after_string_assignment_was_sent', what)
        elif kind == 'missing':
            flag('rejected_save_keeps_changes' if name in rejected else 'names_every_changed_option', typ, what)
        elif cands[name] == set([()]):
            flag('emptied_list_clears_option', typ + ':wrong_entries', what)
        else:
            flag('list_once_per_element_in_order', typ, what)

    def drain():
        while tor.held:
            tor.answer_setconf(True)
            tor.pump()
        mark[0] = len(tor.log)

    def settle(context):
        """after an assignment / list operation nothing may be on the wire"""
        tor.pump()
        new = tor.log[mark[0]:]
        if new:
            flag('nothing_sent_before_save', context,
                 'observed %d command(s) on the wire after %s without save(): %r; expected none'
                 % (len(new), context, new[:2]))
        drain()

    def model_reset():
        cands.clear()
        rejected.clear()
        fresh_assign.clear()
        mixed.clear()
        lost_plain.clear()

    def save_attempted():
        for n in fresh_assign:
            live_kind[n] = assign_kind.get(n)
        fresh_assign.clear()

    def check_setconf(line, pairs, mandatory):
        by = {}
        for (k, v) in pairs:
            name = tor.lower.get(k.lower())
            if name is None or name not in cands:
                flag('no_unchanged_option', TYPE_OF.get(name, 'unknown_option'),
                     'SETCONF %r names %r which was not changed since the last successful save (changed: %r)'
                     % (line, k, list(cands)))
                continue
            by.setdefault(name, []).append(v)
        for name in cands:
            vals = by.get(name)
            want = sorted(cands[name], key=repr)
            if vals is None:
                if name in mandatory:
                    content_flag(name, 'missing', 'SETCONF %r does not name %s which was changed%s; expected %s'
                                 % (line, name, ' (and has been through a rejected save)' if name in rejected else '',
                                    ('one clearing entry (%s or %s=)' % (name, name)) if cands[name] == set([()])
                                    else 'its pending value, one of %r' % (want,)))
                continue
            if KIND_OF[name] == 'scalar':
                if len(vals) != 1 or vals[0] not in cands[name]:
                    content_flag(name, 'wrong', 'SETCONF %r carries %s=%r; expected exactly once with the validated value %r'
                                 % (line, name, vals, want))
                continue
            clearing = [v for v in vals if v is None or v == '']
            if clearing:
                ok = (len(vals) == 1 and () in cands[name])
            else:
                ok = canon(name, vals) in cands[name]
            if not ok:
                content_flag(name, 'wrong', 'SETCONF %r carries %s values %r; expected %s'
                             % (line, name, vals, 'exactly one clearing entry' if cands[name] == set([()])
                                else 'one entry per element in list order, one of %r' % (want,)))

    def after_ack(rec, touched):
        tsig = '/'.join(sorted(set(TYPE_OF[n] for n in touched)))
        if not rec.results or rec.results[0][0] != 'ok':
            flag('nothing_pending_after_ack', 'save_deferred:' + tsig,
                 'after Tor answered 250 OK the Deferred of save() is %r; expected it to have fired with success'
                 % (rec.results[:1],))
        if cfg.needs_save():
            flag('nothing_pending_after_ack', 'needs_save:' + tsig,
                 'after Tor answered 250 OK needs_save() is True (unsaved=%r); expected nothing pending'
                 % (list(getattr(cfg, 'unsaved', {})),))
        for name in touched:
            if name in content_flagged:
                continue      # what was sent is already reported; a differing read is its consequence
            try:
                got = getattr(cfg, spell(name, case))
            except Exception as e:
                got = e
            if isinstance(got, Exception) or not read_matches(TYPE_OF[name], got, tor.store.get(name)):
                sit = (':list_assigned_then_mutated_before_save' if name in mixed else
                       ':mutated_after_string_assignment_was_sent' if name in lost_plain else '')
                flag('reads_return_saved_values', TYPE_OF[name] + sit,
                     'after the acknowledged save %s reads %r but the scripted Tor holds %r'
                     % (name, got, tor.store.get(name)))
        model_reset()
        # a further save sends nothing
        m = len(tor.log)
        try:
            rec2 = Recorder(cfg.save())
        except Exception as e:
            flag('further_save_sends_nothing', 'raised:' + tsig, 'second save() raised %r' % (e,))
            return
        tor.pump()
        if len(tor.log) != m:
            flag('further_save_sends_nothing', tsig,
                 'a second save() right after the acknowledged one sent %r; expected nothing' % (tor.log[m:][:2],))
        elif not rec2.results or rec2.results[0][0] != 'ok':
            flag('further_save_sends_nothing', 'deferred:' + tsig,
                 'a second save() with nothing pending returned a Deferred in state %r; expected success'
                 % (rec2.results[:1],))
        drain()

    def do_save(accept):
        mandatory = [n for n in cands if saved_norm(n) not in cands[n]]
        touched = list(cands)
        content_flagged.clear()
        tsig = '/'.join(sorted(set(TYPE_OF[n] for n in touched)))
        m = len(tor.log)
        try:
            d = cfg.save()
        except Exception as e:
            flag('exactly_one_setconf', 'save_raised:' + tsig, 'save() raised %r; expected one SETCONF' % (e,))
            drain()
            return
        rec = Recorder(d)
        tor.pump()
        cmds = tor.log[m:]
        if not touched:
            if cmds:
                flag('further_save_sends_nothing', 'nothing_changed',
                     'save() with no change since the last acknowledged save sent %r; expected nothing' % (cmds[:2],))
            drain()
            return
        if not cmds:
            for name in mandatory:
                content_flag(name, 'missing', 'save() sent nothing at all; expected one SETCONF naming %s (pending %r)'
                             % (name, sorted(cands[name], key=repr)))
            # Tor was told nothing, so it neither acknowledged nor rejected; the optional changes are dropped
            save_attempted()
            if accept:
                model_reset()
            return
        if len(cmds) != 1 or len(tor.held) != 1:
            flag('exactly_one_setconf', tsig,
                 'save() sent %d commands %r; expected exactly one SETCONF' % (len(cmds), cmds[:3]))
        if tor.held:
            info['setconfs'] += 1
            line = tor.held[0]
            try:
                pairs = parse_setconf_args(line[len('SETCONF'):])
            except WireSyntaxError as e:
                pairs = None
                flag('exactly_one_setconf', 'unparseable:' + tsig, 'SETCONF line %r is not parseable: %s' % (line, e))
            if pairs is not None:
                info['checked_saves'] += 1
                check_setconf(line, pairs, mandatory)
            tor.answer_setconf(accept)
            tor.pump()
            if len(tor.log) > m + len(cmds):
                # the protocol had queued more behind the first command
                flag('exactly_one_setconf', 'followed_by_more:' + tsig,
                     'save() issued further commands after its SETCONF was answered: %r; expected exactly one SETCONF'
                     % (tor.log[m + len(cmds):][:2],))
        drain()
        save_attempted()
        if accept:
            after_ack(rec, touched)
        else:
            if mandatory and not cfg.needs_save():
                flag('rejected_save_keeps_changes', 'needs_save_false:' + tsig,
                     'after Tor rejected the SETCONF needs_save() is False; expected the changes to remain pending')
            rejected.update(cands)

    for op in list(h['ops']) + [['save', True]]:
        if viol:
            break      # only first failures are reported: what follows a violation is its consequence
        kind = op[0]
        if kind == 'save':
            do_save(bool(op[1]))
            continue
        name = opts[op[1] % len(opts)]
        typ = TYPE_OF[name]
        attr = spell(name, case)
        if kind == 'set':
            value = op[2]
            if KIND_OF[name] == 'list' and isinstance(value, (list, tuple)):
                value = list(value)
                exp = canon(name, [str(x) for x in value])
            elif typ == 'LineList':
                exp = RAISE
            elif KIND_OF[name] == 'list':
                exp = canon(name, (str(value),))     # comma-separated type given as one string
            else:
                exp = expected_scalar(typ, value)
            try:
                setattr(cfg, attr, value)
                raised = None
            except Exception as e:
                raised = e
            if exp is RAISE:
                if raised is None:
                    flag('scalar_once_validated_value' if KIND_OF[name] == 'scalar' else 'list_once_per_element_in_order',
                         '%s:invalid_accepted' % typ,
                         'assigning %r to %s (%s) was accepted; expected it to be refused' % (value, name, typ))
                    cands.pop(name, None)
                    cands[name] = set([str(value)])
            elif raised is not None:
                flag('scalar_once_validated_value' if KIND_OF[name] == 'scalar' else 'list_once_per_element_in_order',
                     '%s:valid_refused' % typ,
                     'assigning %r to %s (%s) raised %r; expected it to become pending' % (value, name, typ, raised))
            else:
                cands.pop(name, None)
                cands[name] = set([exp])
                if KIND_OF[name] == 'list':
                    fresh_assign.add(name)
                    assign_kind[name] = 'list' if isinstance(value, list) else 'str'
            settle('assign:' + typ)
        elif kind == 'mut':
            if KIND_OF[name] != 'list':
                continue
            try:
                lst = getattr(cfg, attr)
                before = canon(name, [str(x) for x in lst])
                conc = concretise(op[2], list(lst), op[3], op[4])
            except Exception as e:
                flag('harness_read', typ, 'reading %s raised %r' % (name, e))
                continue
            if conc is None:
                continue
            cop, cargs = conc
            after_read = model_apply(before, cop, cargs)
            if after_read is None or after_read == before:
                continue     # not applicable / not a change (e.g. setitem with the same value)
            cur = cands.get(name)
            if cur is None:
                cur = set([saved_norm(name)])
            new = set([after_read])
            for c in cur:
                r = model_apply(c, cop, cargs)
                if r is not None:
                    new.add(r)
            try:
                getattr(lst, cop)(*cargs)
            except Exception as e:
                flag('harness_mutation', '%s:%s' % (typ, cop), '%s.%s%r raised %r on %r' % (name, cop, tuple(cargs), e, before))
                continue
            cands[name] = new
            if name in fresh_assign:
                mixed.add(name)
            elif live_kind.get(name) == 'str':
                lost_plain.add(name)
            settle('mutate:' + typ)
    return viol, info


def evaluate(h):
    """run one history; a violation seen with a CONF_CHANGED-emitting Tor is reported under the plain key (and the
    plain history) when the same history without the events shows it as well"""
    v, info = run_history(h)
    if v and h.get('events'):
        h0 = dict(h)
        h0['events'] = False
        plain = dict((x['key'], x) for x in run_history(h0)[0])
        out = []
        for x in v:
            k = x['key'][:-len(EVS)] if x['key'].endswith(EVS) else x['key']
            out.append(plain.get(k, x))
        v = out
    return v, info


def replay_history(history):
    return evaluate(history)[0]


# ----------------------------------------------------------------------------------------------
# enumeration
SAVES = [['save', True], ['save', False]]


def scalar_alphabet(typ, reduced=False):
    vals = SCALAR_VALUES[typ]
    if reduced:
        vals = vals[:2] + [v for v in vals[2:] if expected_scalar(typ, v) is RAISE][:1]
    return [['set', 0, v] for v in vals] + SAVES


LIST_ALPHABET = [
    ['set', 0, []], ['set', 0, ['a']], ['set', 0, ['b', 'c']],
    ['mut', 0, 'append', 0, 'x'], ['mut', 0, 'extend', 0, ['y', 'z w']], ['mut', 0, 'insert', 0, 'i'],
    ['mut', 0, 'remove', 0, None], ['mut', 0, 'pop', 0, None], ['mut', 0, 'poplast', 0, None],
    ['mut', 0, 'setitem', 0, 's'],
]
LIST_REDUCED = [
    ['set', 0, []], ['set', 0, ['a']], ['mut', 0, 'append', 0, 'x'], ['mut', 0, 'remove', 0, None],
    ['mut', 0, 'poplast', 0, None], ['mut', 0, 'setitem', 0, 's'],
]


def list_alphabet(typ, reduced=False):
    alpha = [list(x) for x in (LIST_REDUCED if reduced else LIST_ALPHABET)]
    if typ != 'LineList':
        alpha.append(['set', 0, 'q,r'])       # comma-separated types: one string
    elif not reduced:
        alpha.append(['set', 0, 'notalist'])  # must be refused
    return alpha + SAVES


def alphabet(typ, reduced=False):
    if KIND_OF[NAME_OF_TYPE[typ]] == 'list':
        return list_alphabet(typ, reduced)
    return scalar_alphabet(typ, reduced)


def sequences(alpha, minlen, maxlen):
    """all sequences with at least one non-save op"""
    for n in range(minlen, maxlen + 1):
        for seq in itertools.product(alpha, repeat=n):
            if any(o[0] != 'save' for o in seq):
                yield [list(o) for o in seq]


def random_ops(rnd, opts, length):
    ops = []
    for _ in range(length):
        k = rnd.randrange(len(opts))
        name = opts[k]
        typ = TYPE_OF[name]
        r = rnd.random()
        if r < 0.22:
            ops.append(['save', rnd.random() < 0.6])
        elif KIND_OF[name] == 'scalar':
            ops.append(['set', k, rnd.choice(SCALAR_VALUES[typ])])
        elif r < 0.40:
            n = rnd.choice([0, 0, 1, 2, 3])
            ops.append(['set', k, [rnd.choice(LIST_ELEMS) for _ in range(n)]])
        elif r < 0.44 and typ != 'LineList':
            ops.append(['set', k, rnd.choice(['q,r', 'm'])])
        else:
            op = rnd.choice(['append', 'extend', 'insert', 'remove', 'pop', 'poplast', 'setitem'])
            if op == 'extend':
                v = [rnd.choice(LIST_ELEMS) for _ in range(rnd.choice([1, 2]))]
            else:
                v = rnd.choice(LIST_ELEMS)
            ops.append(['mut', k, op, rnd.randrange(6), v])
    return ops


LIST_INITS = {
    'LineList': [['p1', 'p2 opt'], [], ['p1']],
    'CommaList': [['80', '443'], []],
    'RouterList': [['nodeA', 'nodeB'], []],
    'TimeIntervalCommaList': [['0', '60'], []],
}
REP_SCALARS = ('Boolean', 'Boolean+Auto', 'Integer', 'String')

# plan rows: (type, index of the initial value, reduced alphabet?, min length, max length, spelling, events)
def plan(tier):
    rows = []
    scalars = [t for (t, n, k) in TYPES if k == 'scalar']
    commas = list(COMMA_FAMILY)
    if tier == 'quick':
        for t in scalars:
            rows.append((t, 0, t not in REP_SCALARS, 1, 2, 'exact', False))
        for t in ('Boolean+Auto', 'Integer'):
            rows.append((t, 0, True, 3, 3, 'exact', False))
        rows.append(('LineList', 0, False, 1, 2, 'exact', False))
        rows.append(('LineList', 0, True, 3, 3, 'exact', False))
        rows.append(('LineList', 1, False, 1, 1, 'exact', False))
        rows.append(('LineList', 1, True, 2, 2, 'exact', False))
        rows.append(('LineList', 2, True, 1, 2, 'exact', False))
        rows.append(('CommaList', 0, False, 1, 2, 'exact', False))
        rows.append(('CommaList', 1, True, 1, 2, 'exact', False))
        rows.append(('RouterList', 0, True, 1, 2, 'exact', False))
        rows.append(('TimeIntervalCommaList', 0, True, 1, 2, 'exact', False))
        # spelling / CONF_CHANGED variants
        for t in ('LineList', 'CommaList') + REP_SCALARS:
            rows.append((t, 0, True, 1, 2, 'exact', True))
        rows.append(('LineList', 0, True, 3, 3, 'lower', False))
        for t in ('String', 'Boolean'):
            rows.append((t, 0, True, 3, 3, 'exact', False))
        for t in ('LineList', 'Integer'):
            rows.append((t, 0, True, 1, 2, 'lower', False))
        for (t, n, k) in TYPES:
            if t not in ('LineList', 'Integer'):
                rows.append((t, 0, True, 1, 1, 'lower', False))
            rows.append((t, 0, True, 1, 1, 'upper', False))
    else:
        for t in scalars:
            rows.append((t, 0, False, 1, 4 if t in REP_SCALARS else 3, 'exact', False))
        for t in ('Boolean+Auto', 'Integer'):
            rows.append((t, 0, True, 5, 5, 'exact', False))
        rows.append(('LineList', 0, False, 1, 4, 'exact', False))
        rows.append(('LineList', 0, True, 5, 5, 'exact', False))
        rows.append(('LineList', 1, False, 1, 3, 'exact', False))
        rows.append(('LineList', 1, True, 4, 4, 'exact', False))
        rows.append(('LineList', 2, False, 1, 3, 'exact', False))
        for t in commas:
            rows.append((t, 0, False, 1, 3, 'exact', False))
            rows.append((t, 1, False, 1, 2, 'exact', False))
        rows.append(('CommaList', 0, True, 4, 4, 'exact', False))
        for (t, n, k) in TYPES:
            rows.append((t, 0, False, 1, 2, 'exact', True))
            rows.append((t, 0, False, 1, 2, 'lower', False))
            rows.append((t, 0, True, 1, 2, 'upper', False))
            if k == 'list':
                rows.append((t, 0, True, 3, 3, 'exact', True))
                rows.append((t, 0, True, 3, 3, 'lower', False))
    return rows


def patterns(typ):
    """structured length-3 families for a list type: change / save (accepted or rejected) / change, in every order"""
    alpha = list_alphabet(typ)
    sets = [o for o in alpha if o[0] == 'set']
    muts = [o for o in alpha if o[0] == 'mut']
    for ev in (False, True):
        for a in SAVES:
            for s1 in sets:
                for m1 in muts:
                    yield [s1, a, m1], ev
            for m1 in muts:
                for m2 in muts:
                    yield [m1, a, m2], ev
        if ev:
            continue
        for s1 in sets:
            for m1 in muts:
                for x in SAVES + [o for o in muts if s1[2] == []]:
                    yield [s1, m1, x], ev


def gen_histories(tier, seed):
    rnd = random.Random(seed)
    for (typ, name, kind) in TYPES:
        if kind != 'list':
            continue
        for ops, ev in patterns(typ):
            yield {'opts': [name], 'init': {name: list(LIST_INITS[typ][0])}, 'ops': [list(o) for o in ops],
                   'events': ev, 'case': 'exact'}
    for (typ, ii, reduced, lo, hi, case, ev) in plan(tier):
        name = NAME_OF_TYPE[typ]
        init = {name: list(LIST_INITS[typ][ii])} if KIND_OF[name] == 'list' else {}
        for ops in sequences(alphabet(typ, reduced), lo, hi):
            yield {'opts': [name], 'init': dict(init), 'ops': ops, 'events': ev, 'case': case}
    # seeded random longer histories over one to three options
    n_rand = N_RANDOM[tier]
    names = [n for (t, n, k) in TYPES]
    lists = [n for (t, n, k) in TYPES if k == 'list']
    for _ in range(n_rand):
        k = rnd.choice([1, 1, 2, 3])
        opts = [rnd.choice(lists)] + [rnd.choice(names) for _ in range(k - 1)]
        opts = list(dict.fromkeys(opts))
        rnd.shuffle(opts)
        init = {}
        for n in opts:
            if KIND_OF[n] == 'list':
                init[n] = list(rnd.choice(LIST_INITS[TYPE_OF[n]]))
        length = rnd.randint(4, 6) if rnd.random() < 0.7 else rnd.randint(7, 12)
        yield {'opts': opts, 'init': init, 'ops': random_ops(rnd, opts, length),
               'events': rnd.random() < 0.15, 'case': rnd.choice(['exact', 'exact', 'exact', 'lower']),
               'full': rnd.random() < 0.25}


N_RANDOM = {'quick': 800, 'thorough': 20000}


def twin(tier, seed):
    t0 = time.time()
    budget = 540.0 if tier == 'thorough' else 17.0
    evaluations = 0
    distinct = set()
    samples = []
    violations = {}
    counts = {}
    truncated = False
    for h in gen_histories(tier, seed):
        if time.time() - t0 > budget:
            truncated = True
            break
        v, info = evaluate(h)
        evaluations += 1
        if info.get('checked_saves'):
            distinct.add(json.dumps([h['opts'], h['init'], h['ops'], h['events'], h['case']], sort_keys=True))
            if len(samples) < 3 and len(h['ops']) >= 3 and evaluations % 97 == 0:
                samples.append(h)
        for x in v:
            # one representative (the shortest history) per key
            counts[x['key']] = counts.get(x['key'], 0) + 1
            old = violations.get(x['key'])
            if old is None or len(x['history']['ops']) < len(old['history']['ops']):
                violations[x['key']] = x
    if not samples:
        samples = [{'opts': ['SocksPort'], 'init': {'SocksPort': ['p1']},
                    'ops': [['mut', 0, 'append', 0, 'x'], ['save', False], ['save', True]], 'events': False, 'case': 'exact'}]
    return {
        'evaluations': evaluations,
        'distinct_nontrivial': len(distinct),
        'samples': samples[:3],
        'violations': [dict(violations[k], occurrences=counts[k]) for k in sorted(violations)],
        'rule': ('a case is a history (option(s) with their declared type, initial value in the scripted Tor, sequence of '
                 'assign / append / extend / insert / remove / pop / setitem / save-accepted / save-rejected, attribute '
                 'spelling, whether Tor emits CONF_CHANGED) run on a real TorConfig+TorControlProtocol against the scripted '
                 'Tor, always closed by an accepted save and a second save; one representative (shortest history) per violation '
                 'key with its number of occurrences; structured families and exhaustive short sequences per declared type, '
                 'then seeded random histories over 1-3 options. Non-trivial = at least one SETCONF was produced and its '
                 'content checked against the oracle; distinct = distinct (options, initial values, op sequence, events, '
                 'spelling).'),
        'bounds': ('tier %s, seed %d: 16 declared types; for each list type 413 structured change/save/change histories; scalars exhaustive to length %s, lists to length %s over an alphabet '
                   'of 13 ops and up to 3 initial values, spelling/CONF_CHANGED variants to length 2-3, %d random histories of '
                   '4-12 ops over 1-3 options%s'
                   % (tier, seed, '4-5' if tier == 'thorough' else '2-3', '3-4' if tier == 'thorough' else '1-3',
                      N_RANDOM[tier], '; TRUNCATED by the time budget' if truncated else '')),
    }
