"""Bounded dynamic check ("twin") for C15: onion creation completes only on this service's
confirmed descriptor upload.

The real txtorcon classes (TorControlProtocol on a StringTransport, TorConfig, EphemeralOnionService,
EphemeralAuthenticatedOnionService, FilesystemOnionService, the deprecated EphemeralHiddenService) are
driven against a small in-file scripted Tor written from control-spec (PROTOCOLINFO / AUTHENTICATE /
GETINFO / GETCONF / SETEVENTS / SETCONF / ADD_ONION replies, section 4.1.25 HS_DESC events).  The
scripted Tor holds back the reply to the creating command (ADD_ONION or SETCONF) until the history says
so and emits "650 HS_DESC ..." events for the service being created and for a second, foreign service.

The oracle is computed from the history alone (never from the library):  truth sets att / ok / bad of
directories named in events ADDRESSED TO THIS SERVICE; the first decisive event is
  default mode  : the first UPLOADED of this service                        -> creation must complete
  await-all mode: the first event after which att <= ok|bad and ok != {}     -> creation must complete
  both          : a FAILED of this service after which att != {} and att <= bad -> creation must fail
Nothing else may complete or fail the creation; it happens at most once; afterwards the HS_DESC
listener of the wait is gone.
"""
from twin import control_session as CS   # noqa: F401  (first: silences Twisted's stderr logging)

import base64
import hashlib
import itertools
import os
import random
import shutil
import tempfile
import time
import warnings

# --------------------------------------------------------------------------------------------------
# constants of the scripted world

OWN_V3 = 'pg6mmjiyjmcrsslvykfwnntlaru7p5svn6y2ymmju6nubxndf4pscryd'       # 56 base32 chars
FOREIGN_V3 = 'x3zq4wnrkdvhhmwgeocx5dvoyvyzefznoxsmh47n7j2lcyqb7tpmdxad'
FOREIGN_V2 = 'duskgytldkxiuqc6'                                            # 16 base32 chars
V3_KEYBLOB = base64.b64encode(bytes(range(64))).decode('ascii')
# an RSA-1024 key (PKCS#1 DER, base64, one line) as ADD_ONION returns it after "RSA1024:"
RSA_BLOB = (
    'MIICXAIBAAKBgQC1mDFdgOwKPVkKvv9YPSO5MJvPGKZvS6d/K5ctP4bNmnBKHMjyciLtGKpavDZkc4MaW9hlpgzdwBs+NwC5'
    'u7ja19EaDkmF4lsdoc/5DQiis1KY+pxtz3Vqcdkt5Q866sjHn6PJu9JyOVv+nABnjNMRUARt3pwaVEwCxyIilqd53wIDAQAB'
    'AoGAWSFtQW6w7Em2NZ8Pp5jCuvfP0fNQZZoliTa1CgF/QdVGvimou88ns2YC32w36lAEDmD8MtAwynqrJHtMwN0R2owqPeW2'
    'y5Kje7JgqUDGw3l7zWtFxlzaxXvXkMJt5lfZYLeJwq9FxRySGGFaY7LhJCuadSoD54M+wjhMqz13aVkCQQDmYbfthyIOMvub'
    'm6AoRTRFFuHardUudf+TxbE7BbQpb1cClNpumRlrZW1lMTW+wD6fjkcfkGzPT+2oal52YKSDAkEAycml0rJ6i/UFXe2FE1YS'
    'c9+lBMSqe5FnpbrTKjHzAiIuBInZ/RYq24vuoIP6igu7Sx8SWE8pUfgBClI4QURudQJBAKc6v5w3v0y3TVSC/xq8QVj1ZzSp'
    'glmbZc4Kbr/9P+3j2DEThAtMLtt6YJJXyj+QpOSFDrOmzpUd29GohLFBLakCQHvi3XfaM/qxV7YvGUCh23pgmEOxKqnqv6O0'
    'a+i/+d4Zdf87UyZa8b0Q0FSkMrGGOlsInI6zKz8z8A+SIw+PH/ECQG7cEdhFZTBU/zLcUR8/RyppBuDrW7hdjkMKU7K8y+KY'
    'wgDNL3JfvDoHXwlXZtOo3ZtOpE+y2oNhwb44Cu/bk2s=')

_PERMID = []


def rsa_service_id():
    """rend-spec-v2 1.2: permanent-id = first 80 bits of SHA1 of the DER (PKCS#1) public key, base32"""
    if not _PERMID:
        from cryptography.hazmat.primitives import serialization
        key = serialization.load_der_private_key(base64.b64decode(RSA_BLOB), password=None)
        der = key.public_key().public_bytes(serialization.Encoding.DER, serialization.PublicFormat.PKCS1)
        _PERMID.append(base64.b32encode(hashlib.sha1(der).digest()[:10]).lower().decode('ascii'))
    return _PERMID[0]


def _fp(i):
    return hashlib.sha1(b'hsdir-%d' % i).hexdigest().upper()


# directory label -> control-spec LongName ("$" fingerprint "~" nickname)
HSDIRS = dict(('d%d' % i, '$%s~dirNode%d' % (_fp(i), i)) for i in range(1, 6))
HSDIRS.update(dict(('x%d' % i, '$%s~otherNode%d' % (_fp(100 + i), i)) for i in range(1, 4)))

KINDS = ('ephemeral', 'filesystem', 'ephemeral_auth', 'legacy')
UPLOAD_ACTIONS = ('UPLOAD', 'UPLOADED', 'FAILED')
NOISE_ACTIONS = ('CREATED', 'REQUESTED', 'RECEIVED')


def own_address(kind):
    return OWN_V3 if kind in ('ephemeral', 'filesystem') else rsa_service_id()


def foreign_address(kind):
    return FOREIGN_V3 if kind in ('ephemeral', 'filesystem') else FOREIGN_V2


def event_line(kind, svc, action, dirlabel):
    """control-spec 4.1.25:
    "650" SP "HS_DESC" SP Action SP HSAddress SP AuthType SP HsDir [SP DescriptorID] [SP "REASON=" Reason] ..."""
    addr = own_address(kind) if svc == 'own' else foreign_address(kind)
    hsdir = HSDIRS[dirlabel]
    descid = base64.b32encode(hashlib.sha1((svc + dirlabel).encode()).digest()).lower().decode('ascii')
    auth = 'BASIC_AUTH' if (kind == 'ephemeral_auth' and svc == 'own') else 'NO_AUTH'
    if action == 'UPLOAD':
        txt = 'HS_DESC UPLOAD %s %s %s %s' % (addr, auth, hsdir, descid)
        if len(addr) == 56:
            txt += ' HSDIR_INDEX=%s' % hashlib.sha256(dirlabel.encode()).hexdigest().upper()
    elif action == 'UPLOADED':
        txt = 'HS_DESC UPLOADED %s UNKNOWN %s' % (addr, hsdir)
    elif action == 'FAILED':
        txt = 'HS_DESC FAILED %s UNKNOWN %s REASON=UPLOAD_REJECTED' % (addr, hsdir)
    elif action == 'CREATED':
        txt = 'HS_DESC CREATED %s UNKNOWN UNKNOWN %s' % (addr, descid)
    elif action == 'REQUESTED':
        txt = 'HS_DESC REQUESTED %s NO_AUTH %s %s' % (addr, hsdir, descid)
    elif action == 'RECEIVED':
        txt = 'HS_DESC RECEIVED %s NO_AUTH %s %s' % (addr, hsdir, descid)
    else:
        raise ValueError(action)
    return ('650 %s\r\n' % txt).encode('ascii')


# --------------------------------------------------------------------------------------------------
# scripted Tor (server side of the control connection), from control-spec section 3

EVENT_NAMES = 'CIRC STREAM ORCONN BW NEWDESC ADDRMAP STATUS_GENERAL CONF_CHANGED HS_DESC HS_DESC_CONTENT NETWORK_LIVENESS'


def _split_args(s):
    """split on SP outside of QuotedStrings"""
    out, cur, inq, esc = [], '', False, False
    for ch in s:
        if esc:
            cur += ch
            esc = False
        elif inq and ch == '\\':
            cur += ch
            esc = True
        elif ch == '"':
            inq = not inq
            cur += ch
        elif ch == ' ' and not inq:
            if cur:
                out.append(cur)
            cur = ''
        else:
            cur += ch
    if cur:
        out.append(cur)
    return out


def _unquote(v):
    if len(v) >= 2 and v[0] == '"' and v[-1] == '"':
        body, out, i = v[1:-1], '', 0
        while i < len(body):
            if body[i] == '\\' and i + 1 < len(body):
                out += body[i + 1]
                i += 2
            else:
                out += body[i]
                i += 1
        return out
    return v


class ScriptedTor(object):
    def __init__(self, proto, transport, kind):
        self.proto, self.t, self.kind = proto, transport, kind
        self.seen = 0
        self.buf = b''
        self.commands = []          # every command line received, in order
        self.subscribed = []        # event names of the last accepted SETEVENTS
        self.held = None            # encoded reply of the creating command, not yet sent
        self.backlog = []           # commands received while a reply is held (answered in order later)
        self.creating_commands = 0
        self.hold_creating = True

    # -- plumbing
    def send(self, data):
        self.proto.dataReceived(data)

    def pump(self):
        while True:
            data = self.t.value()
            if len(data) == self.seen:
                return
            self.buf += data[self.seen:]
            self.seen = len(data)
            while b'\r\n' in self.buf:
                line, self.buf = self.buf.split(b'\r\n', 1)
                line = line.decode('ascii')
                self.commands.append(line)
                if self.held is not None:
                    self.backlog.append(line)
                else:
                    self.handle(line)

    def release(self):
        """send the held reply of the creating command, then answer whatever queued up behind it"""
        data, self.held = self.held, None
        if data is None:
            return False
        self.send(data)
        while self.backlog and self.held is None:
            self.handle(self.backlog.pop(0))
        self.pump()
        return True

    def reply(self, code, parts):
        self.send(CS.encode_reply(code, parts))

    # -- commands
    def handle(self, line):
        verb, _, rest = line.partition(' ')
        verb = verb.upper()
        if verb == 'PROTOCOLINFO':
            self.reply(250, [('mid', 'PROTOCOLINFO 1'), ('mid', 'AUTH METHODS=NULL'),
                             ('mid', 'VERSION Tor="0.4.8.9"'), ('end', 'OK')])
        elif verb in ('AUTHENTICATE', 'USEFEATURE', 'TAKEOWNERSHIP', 'DEL_ONION'):
            self.reply(250, [('end', 'OK')])
        elif verb == 'GETINFO':
            self.getinfo(rest.split())
        elif verb == 'GETCONF':
            keys = rest.split()
            if all(k.lower() == 'hiddenserviceoptions' for k in keys) and keys:
                # no hidden services configured: the default is reported as a bare keyword
                self.reply(250, [('end', 'HiddenServiceOptions')])
            else:
                self.reply(552, [('end', 'Unrecognized configuration key "%s"' % (keys[0] if keys else ''))])
        elif verb == 'SETEVENTS':
            names = [n for n in rest.split() if n.upper() != 'EXTENDED']
            bad = [n for n in names if n.upper() not in EVENT_NAMES.split()]
            if bad:
                self.reply(552, [('end', 'Unrecognized event "%s"' % bad[0])])
            else:
                self.subscribed = [n.upper() for n in names]
                self.reply(250, [('end', 'OK')])
        elif verb == 'SETCONF':
            self.setconf(_split_args(rest))
        elif verb == 'ADD_ONION':
            self.add_onion(rest.split())
        else:
            self.reply(510, [('end', 'Unrecognized command "%s"' % verb)])

    def getinfo(self, keys):
        parts = []
        for k in keys:
            if k == 'version':
                parts.append(('mid', 'version=0.4.8.9'))
            elif k == 'signal/names':
                parts.append(('mid', 'signal/names=RELOAD HUP SHUTDOWN DUMP USR1 DEBUG USR2 HALT TERM INT NEWNYM CLEARDNSCACHE HEARTBEAT ACTIVE DORMANT'))
            elif k == 'events/names':
                parts.append(('mid', 'events/names=' + EVENT_NAMES))
            elif k == 'config/names':
                parts.append(('data', 'config/names=', [
                    'HiddenServiceOptions Virtual', 'HiddenServiceDir Dependent', 'HiddenServicePort Dependent',
                    'HiddenServiceVersion Dependent', 'HiddenServiceDirGroupReadable Dependent']))
            elif k == 'config/defaults':
                parts.append(('data', 'config/defaults=', []))
            elif k in ('onions/current', 'onions/detached'):
                self.reply(551, [('end', 'No onion services of the specified type.')])
                return
            else:
                self.reply(552, [('end', 'Unrecognized key "%s"' % k)])
                return
        self.reply(250, parts + [('end', 'OK')])

    def _creating(self, encoded):
        self.creating_commands += 1
        if self.hold_creating and self.creating_commands == 1:
            self.held = encoded
        else:
            self.send(encoded)

    def setconf(self, args):
        hsdirs = []
        for a in args:
            k, _, v = a.partition('=')
            if k.lower() == 'hiddenservicedir':
                hsdirs.append(_unquote(v))
        for d in hsdirs:
            # Tor creates the directory, the keys and the hostname file while it processes SETCONF
            os.makedirs(d, exist_ok=True)
            with open(os.path.join(d, 'hostname'), 'w') as f:
                f.write(own_address(self.kind) + '.onion\n')
        enc = CS.encode_reply(250, [('end', 'OK')])
        if hsdirs:
            self._creating(enc)
        else:
            self.send(enc)

    def add_onion(self, args):
        """control-spec 3.27: "ADD_ONION" SP KeyType ":" KeyBlob [SP "Flags=" ...] 1*(SP "Port=" ...) *(SP "ClientAuth=" ...)"""
        if not args or ':' not in args[0]:
            self.reply(512, [('end', 'Invalid key type/blob')])
            return
        keytype, _, blob = args[0].partition(':')
        flags, clients, ports = [], [], 0
        for a in args[1:]:
            k, _, v = a.partition('=')
            if k.lower() == 'flags':
                flags = [x.lower() for x in v.split(',')]
            elif k.lower() == 'clientauth':
                clients.append(v)
            elif k.lower() == 'port':
                ports += 1
        if not ports:
            self.reply(512, [('end', 'Missing \'Port\' argument')])
            return
        parts = []
        if keytype.upper() == 'NEW':
            v3 = blob.upper() == 'ED25519-V3'
        else:
            v3 = keytype.upper() == 'ED25519-V3'
        parts.append(('mid', 'ServiceID=%s' % (OWN_V3 if v3 else rsa_service_id())))
        if keytype.upper() == 'NEW' and 'discardpk' not in flags:
            parts.append(('mid', 'PrivateKey=%s' % (('ED25519-V3:' + V3_KEYBLOB) if v3 else ('RSA1024:' + RSA_BLOB))))
        for c in clients:
            if ':' not in c:
                parts.append(('mid', 'ClientAuth=%s:%s' % (c, base64.b64encode(hashlib.md5(c.encode()).digest()).decode().rstrip('='))))
        self._creating(CS.encode_reply(250, parts + [('end', 'OK')]))


# --------------------------------------------------------------------------------------------------
# one history

class HarnessError(Exception):
    pass


class _LogTap(object):
    """collects exceptions that the library logs (Event.got_update logs listener exceptions)"""
    def __init__(self):
        self.failures = []

    def __call__(self, ev):
        f = ev.get('log_failure') or ev.get('failure')
        if f is not None and getattr(f, 'value', None) is not None:
            self.failures.append(f.value)

    def __enter__(self):
        from twisted.logger import globalLogPublisher
        globalLogPublisher.addObserver(self)
        return self

    def __exit__(self, *a):
        from twisted.logger import globalLogPublisher
        try:
            globalLogPublisher.removeObserver(self)
        except ValueError:
            pass


def normalize(history):
    h = dict(history)
    h['items'] = [list(it) for it in h['items']]
    h.setdefault('bystander', False)
    h.setdefault('progress', False)
    if sum(1 for it in h['items'] if it[0] == 'reply') != 1:
        raise ValueError('a history has exactly one reply item')
    if h['kind'] not in KINDS:
        raise ValueError(h['kind'])
    return h


def oracle(items, await_all):
    """-> (decisive, trace): decisive = None | ('ok'|'err', index of the deciding item); ghost sets per the
    statement, from events addressed to this service only"""
    att, ok, bad = set(), set(), set()
    decisive = None
    for i, it in enumerate(items):
        if it[0] != 'evt' or it[1] != 'own' or it[2] not in UPLOAD_ACTIONS:
            continue
        action, d = it[2], it[3]
        if action == 'UPLOAD':
            att.add(d)
        elif action == 'UPLOADED':
            ok.add(d)
        else:
            bad.add(d)
        if decisive is not None:
            continue
        if action == 'FAILED' and att and att <= bad:
            decisive = ('err', i)
        elif action in ('UPLOADED', 'FAILED'):
            if await_all:
                if ok and att <= (ok | bad):
                    decisive = ('ok', i)
            elif action == 'UPLOADED':
                decisive = ('ok', i)
    return decisive


def _describe(it):
    return 'reply' if it[0] == 'reply' else '%s %s %s' % (it[1], it[2], it[3])


def run_history(history, workdir=None):
    """run ONE case on the real classes; returns (violations, info)"""
    h = normalize(history)
    kind, await_all, items = h['kind'], h['await_all'], h['items']
    mode_all = bool(await_all) and kind != 'legacy'
    viol = []

    def bad(clause, detail, what):
        viol.append({'key': 'C15:%s:%s/%s' % (clause, kind, detail), 'clause': clause, 'what': what, 'history': h})

    own_tmp = None
    if kind == 'filesystem' and workdir is None:
        own_tmp = workdir = tempfile.mkdtemp(prefix='tC15-')
    try:
        with _LogTap() as tap, warnings.catch_warnings():
            warnings.simplefilter('ignore')
            info = _drive(h, kind, await_all, items, mode_all, workdir, tap, bad)
    finally:
        if own_tmp:
            shutil.rmtree(own_tmp, ignore_errors=True)
    return viol, info


def _drive(h, kind, await_all, items, mode_all, workdir, tap, bad):
    from twisted.internet.task import Clock
    from twisted.internet import defer
    import txtorcon
    from txtorcon import onion as onion_mod
    from txtorcon import torconfig as torconfig_mod

    proto, t = CS.make_proto(connect=True)
    tor = ScriptedTor(proto, t, kind)
    tor.pump()
    if not proto.post_bootstrap.called:
        raise HarnessError('protocol did not bootstrap against the scripted Tor: %r' % (tor.commands[-3:],))
    cfg_rec = CS.Recorder(txtorcon.TorConfig.from_protocol(proto))
    tor.pump()
    if not cfg_rec.results or cfg_rec.results[0][0] != 'ok':
        raise HarnessError('TorConfig did not bootstrap: %r' % (cfg_rec.results,))
    config = cfg_rec.results[0][1]

    bystander_calls = []
    if h['bystander']:
        proto.add_event_listener('HS_DESC', bystander_calls.append)
        tor.pump()
    hs_event = proto.valid_events['HS_DESC']
    baseline = list(hs_event.callbacks)

    progress_calls = []
    progress = (lambda *a, **kw: progress_calls.append(a)) if h['progress'] else None
    ports = ['80 127.0.0.1:8080']
    reactor = Clock()
    if kind == 'ephemeral':
        d = onion_mod.EphemeralOnionService.create(reactor, config, ports, version=3, progress=progress,
                                                   await_all_uploads=await_all)
    elif kind == 'ephemeral_auth':
        d = onion_mod.EphemeralAuthenticatedOnionService.create(
            reactor, config, ports, version=2, progress=progress, await_all_uploads=await_all,
            auth=onion_mod.AuthBasic(['alice']))
    elif kind == 'filesystem':
        hsdir = os.path.join(workdir, 'hs')
        shutil.rmtree(hsdir, ignore_errors=True)
        d = onion_mod.FilesystemOnionService.create(reactor, config, hsdir, ports, version=3, progress=progress,
                                                    await_all_uploads=await_all)
    else:
        svc = torconfig_mod.EphemeralHiddenService(['80 127.0.0.1:8080'])
        d = defer.maybeDeferred(svc.add_to_tor, proto)
    rec = CS.Recorder(d)
    tor.pump()
    if tor.held is None:
        raise HarnessError('the creating command was never received: %r / %r' % (tor.commands[-3:], rec.results))

    status = []          # rec.results length after each item
    double = []          # (item index, exception) of attempts to fire a second time
    for i, it in enumerate(items):
        n_logged = len(tap.failures)
        try:
            if it[0] == 'reply':
                tor.release()
            else:
                tor.send(event_line(kind, it[1], it[2], it[3]))
            tor.pump()
        except defer.AlreadyCalledError as e:
            double.append((i, e))
        for f in tap.failures[n_logged:]:
            if isinstance(f, defer.AlreadyCalledError):
                double.append((i, f))
        status.append(len(rec.results))
    tor.pump()

    # ---------------- the oracle
    decisive = oracle(items, mode_all)
    observed = None
    if rec.results:
        step = [i for i, n in enumerate(status) if n >= 1]
        observed = (rec.results[0][0], step[0] if step else len(items))
    exp_txt = 'nothing decisive in the history' if decisive is None else \
        '%s decided by item %d (%s)' % ({'ok': 'completion', 'err': 'failure'}[decisive[0]], decisive[1], _describe(items[decisive[1]]))
    r_idx = [i for i, it in enumerate(items) if it[0] == 'reply'][0]

    # did Tor report anything about this service before it answered the creating command?
    early = 'own_events_before_reply' if any(it[0] == 'evt' and it[1] == 'own' for it in items[:r_idx]) else 'reply_before_own_events'

    # history feature (input side only): the foreign service got an upload confirmed by a directory this service uses too
    own_dirs = set(it[3] for it in items if it[0] == 'evt' and it[1] == 'own' and it[2] == 'UPLOAD')
    if any(it[0] == 'evt' and it[1] == 'foreign' and it[2] == 'UPLOADED' and it[3] in own_dirs for it in items):
        early += '+foreign_UPLOADED_on_shared_dir'

    live_ok = 'await_all_completes_once_every_attempt_settled_with_a_success' if mode_all else 'completes_once_own_upload_confirmed'
    safe_ok = 'await_all_completes_only_when_every_attempt_settled_with_a_success' if mode_all else 'completes_only_after_own_confirmed_upload'
    if observed is None:
        if decisive is not None and decisive[0] == 'ok':
            bad(live_ok, early, 'observed creation still pending at the end of the history; expected ' + exp_txt)
        elif decisive is not None:
            bad('fails_when_every_attempted_upload_failed', early, 'observed creation still pending at the end of the history; expected ' + exp_txt)
    else:
        okind, s = observed
        val = rec.results[0][1]
        obs_txt = ('completed' if okind == 'ok' else 'failed (%s: %s)' % (type(val).__name__, str(val)[:80])) + \
            ' at item %d (%s)' % (s, _describe(items[s]) if s < len(items) else 'end')
        at = items[s] if s < len(items) else None
        if at is not None and at[0] == 'evt' and at[1] == 'foreign':
            shared = any(it[0] == 'evt' and it[1] == 'own' and it[3] == at[3] for it in items)
            bad('foreign_event_never_completes_or_fails',
                'foreign_%s_%s_dir_%s' % (at[2], 'shared' if shared else 'unshared', 'completes' if okind == 'ok' else 'fails'),
                'observed ' + obs_txt + ', an event of another service; expected ' + exp_txt)
        elif decisive is not None and decisive[1] <= s:
            if decisive[0] != okind:
                if decisive[0] == 'err':
                    bad('fails_when_every_attempted_upload_failed', early, 'observed ' + obs_txt + '; expected ' + exp_txt)
                else:
                    bad('fails_only_when_every_attempted_upload_failed', early, 'observed ' + obs_txt + '; expected ' + exp_txt)
        else:
            if okind == 'ok':
                bad(safe_ok, early,
                    'observed ' + obs_txt + ' before any deciding event; expected ' + exp_txt)
            else:
                bad('fails_only_when_every_attempted_upload_failed', early,
                    'observed ' + obs_txt + ' before any deciding event; expected ' + exp_txt)
    if len(rec.results) > 1 or double:
        i, e = double[0] if double else (len(items), None)
        bad('completes_or_fails_exactly_once',
            'second_fire_at_' + (items[i][1] + '_' + items[i][2] if i < len(items) and items[i][0] == 'evt' else 'reply'),
            'observed a second attempt to complete/fail the creation (%r) at item %d (%s), first outcome %r; expected exactly one'
            % (type(e).__name__ if e is not None else rec.results, i, _describe(items[i]) if i < len(items) else 'end',
               observed and observed[0]))
    if observed is not None:
        left = [cb for cb in hs_event.callbacks if cb not in baseline]
        if left:
            bad('subscription_removed_after_%s' % ('success' if observed[0] == 'ok' else 'failure'),
                'listener_still_subscribed',
                'observed %d HS_DESC listener(s) of the wait still subscribed after creation %s; expected none'
                % (len(left), 'completed' if observed[0] == 'ok' else 'failed'))
    if not rec.results:
        # finish the still-pending creation while the transport is alive (nothing is checked after this)
        try:
            d.cancel()
            tor.pump()
        except Exception:
            pass
    return {'observed': observed, 'decisive': decisive, 'commands': len(tor.commands),
            'progress_calls': len(progress_calls), 'bystander_events': len(bystander_calls)}


def replay_history(history):
    try:
        v, _ = run_history(history)
        return v
    except HarnessError as e:
        return [{'key': 'C15:harness_error:%s' % history.get('kind'), 'clause': 'harness_error', 'what': str(e)[:300], 'history': history}]


# --------------------------------------------------------------------------------------------------
# enumeration

def _merges(seqs):
    """all interleavings of the given sequences preserving each sequence's own order"""
    seqs = [s for s in seqs if s]
    if not seqs:
        yield []
        return
    for k, s in enumerate(seqs):
        rest = seqs[:k] + [s[1:]] + seqs[k + 1:]
        for tail in _merges(rest):
            yield [s[0]] + tail


def _per_dir(svc, d, outcome):
    seq = [['evt', svc, 'UPLOAD', d]]
    if outcome == 'S':
        seq.append(['evt', svc, 'UPLOADED', d])
    elif outcome == 'F':
        seq.append(['evt', svc, 'FAILED', d])
    return seq


def event_orderings(n_own, foreign_dirs):
    """every ordering of UPLOAD then (UPLOADED | FAILED | nothing yet) per directory, for the own service on
    d1..dn and the foreign service on foreign_dirs; own directories first appear in index order (renaming
    symmetry)"""
    own_dirs = ['d%d' % (i + 1) for i in range(n_own)]
    for own_out in itertools.product('SFN', repeat=n_own):
        for for_out in itertools.product('SFN', repeat=len(foreign_dirs)):
            seqs = [_per_dir('own', d, o) for d, o in zip(own_dirs, own_out)]
            seqs += [_per_dir('foreign', d, o) for d, o in zip(foreign_dirs, for_out)]
            for m in _merges(seqs):
                firsts = [it[3] for it in m if it[1] == 'own' and it[2] == 'UPLOAD']
                if firsts == own_dirs:
                    yield m


def with_reply(events, pos):
    return [list(e) for e in events[:pos]] + [['reply']] + [list(e) for e in events[pos:]]


def random_history(rnd, max_own, max_foreign, kinds):
    n_own = rnd.randint(1, max_own)
    own_dirs = ['d%d' % (i + 1) for i in range(n_own)]
    pool = own_dirs + ['x1', 'x2']
    fdirs = rnd.sample(pool, rnd.randint(0, min(max_foreign, len(pool))))
    # mostly-failing / mostly-succeeding / mixed profiles so that every deciding rule is reached often
    prof = rnd.choice(['SFN', 'FFFN', 'SSFN', 'FFFFS', 'SF'])
    seqs = [_per_dir('own', d, rnd.choice(prof)) for d in own_dirs]
    seqs += [_per_dir('foreign', d, rnd.choice('SSFN')) for d in fdirs]
    for svc in ('own', 'foreign'):
        if rnd.random() < 0.3:
            seqs.append([['evt', svc, rnd.choice(NOISE_ACTIONS), rnd.choice(pool)]])
    events = []
    seqs = [s for s in seqs if s]
    while seqs:
        s = rnd.choice(seqs)
        events.append(s.pop(0))
        seqs = [x for x in seqs if x]
    p = rnd.choice([0, len(events), rnd.randint(0, len(events)), rnd.randint(0, len(events))])
    kind = rnd.choice(kinds)
    return {'kind': kind, 'await_all': rnd.choice([None, False, True, True]) if kind != 'legacy' else False,
            'items': with_reply(events, p), 'bystander': rnd.random() < 0.3, 'progress': rnd.random() < 0.5}


def _nontrivial(h):
    return any(it[0] == 'evt' and it[2] in ('UPLOADED', 'FAILED') for it in h['items'])


def _case_id(h):
    return (h['kind'], bool(h['await_all']), tuple(tuple(it) for it in h['items']))


def cases(tier, rnd):
    """yields (phase, history); deterministic for a given rnd"""
    quick = tier == 'quick'
    modes = (None, True)
    idx = 0
    # phase A: no foreign service; every ordering x every reply position x both modes x every kind
    for n in ((1, 2) if quick else (1, 2, 3)):
        for ev in event_orderings(n, []):
            for pos in range(len(ev) + 1):
                for mode in modes:
                    for kind in KINDS:
                        if kind == 'legacy' and mode:
                            continue
                        idx += 1
                        if n == 3 and kind != 'ephemeral' and (idx + pos) % 4:
                            continue
                        yield 'A', {'kind': kind, 'await_all': mode, 'items': with_reply(ev, pos),
                                    'bystander': idx % 3 == 0, 'progress': idx % 2 == 0}
    if not quick:
        # four own directories: every ordering, reply position rotating first / middle / last, both modes
        for ev in event_orderings(4, []):
            idx += 1
            L = len(ev)
            pos = [0, L, rnd.randint(1, L - 1)][idx % 3]
            for mode in modes:
                kind = 'ephemeral' if idx % 5 else KINDS[1 + (idx // 5) % 2]
                yield 'A', {'kind': kind, 'await_all': mode, 'items': with_reply(ev, pos),
                            'bystander': idx % 3 == 0, 'progress': idx % 2 == 0}
    # phase B: foreign directories (shared with an own directory, or the foreign service's own), every ordering
    #   (n own dirs, foreign dirs, reply positions policy, probability of keeping an ordering, both modes per ordering?)
    if quick:
        scopes = [(1, ['d1'], 'all', 1.0, True), (1, ['x1'], 'all', 1.0, True),
                  (2, ['d1'], 'rotate', 0.75, False), (2, ['d2'], 'rotate', 0.75, False), (2, ['x1'], 'rotate', 0.5, False)]
    else:
        scopes = [(1, ['d1'], 'all', 1.0, True), (1, ['x1'], 'all', 1.0, True),
                  (2, ['d1'], 'all', 1.0, True), (2, ['d2'], 'all', 1.0, True), (2, ['x1'], 'all', 1.0, True),
                  (3, ['d1'], 'rotate', 0.5, False), (3, ['d2'], 'rotate', 0.5, False), (3, ['d3'], 'rotate', 0.5, False),
                  (3, ['x1'], 'rotate', 0.25, False),
                  (1, ['d1', 'x1'], 'rotate', 1.0, True), (2, ['d1', 'd2'], 'rotate', 1.0 / 16, True),
                  (2, ['d2', 'x1'], 'rotate', 1.0 / 16, True)]
    for n, fd, policy, keep, both in scopes:
        for ev in event_orderings(n, fd):
            idx += 1
            if keep < 1.0 and rnd.random() >= keep:
                continue
            if not any(it[1] == 'foreign' and it[2] != 'UPLOAD' for it in ev) and idx % 3:
                continue     # the foreign service only starts uploads: keep one ordering in three
            L = len(ev)
            if policy == 'all':
                poss = list(range(L + 1))
            else:
                poss = [[0], [L], [rnd.randint(1, max(1, L - 1))]][idx % 3]
            for pos in poss:
                for mode in (modes if both else (modes[(idx // 3) % 2],)):
                    kind = 'ephemeral'
                    if (idx + pos) % 5 == 0:
                        kind = KINDS[1 + (idx // 5) % 3]
                    if kind == 'legacy' and mode:
                        kind = 'filesystem'
                    yield 'B', {'kind': kind, 'await_all': mode, 'items': with_reply(ev, pos),
                                'bystander': idx % 4 == 0, 'progress': idx % 2 == 1}
    # phase C: seeded random longer histories (more directories, up to three foreign directories, the other
    #   HS_DESC actions CREATED / REQUESTED / RECEIVED as noise, all kinds, await_all in {None, False, True})
    for _ in range(300 if quick else 20000):
        yield 'C', random_history(rnd, 3 if quick else 4, 2 if quick else 3, KINDS)


def twin(tier, seed):
    rnd = random.Random(seed)
    t0 = time.time()
    quick = tier == 'quick'
    hard_stop = 17.0 if quick else 540.0     # safety net only; the enumeration is sized to finish well before
    violations, per_key, samples = [], {}, []
    distinct = set()
    evaluations = 0
    counts = {}
    truncated = False
    workdir = tempfile.mkdtemp(prefix='tC15-')
    try:
        for phase, h in cases(tier, rnd):
            if time.time() - t0 > hard_stop:
                truncated = True
                break
            try:
                v, info = run_history(h, workdir)
            except HarnessError as e:
                v, info = [{'key': 'C15:harness_error:%s' % h['kind'], 'clause': 'harness_error', 'what': str(e)[:300], 'history': h}], {}
            evaluations += 1
            counts[phase] = counts.get(phase, 0) + 1
            if _nontrivial(h):
                distinct.add(_case_id(h))
            for x in v:
                per_key[x['key']] = per_key.get(x['key'], 0) + 1
                if per_key[x['key']] <= 3:
                    violations.append(x)
            if len(samples) < 3 and _nontrivial(h) and len(h['items']) >= 5 + len(samples) \
                    and any(it[0] == 'evt' and it[1] == 'foreign' for it in h['items']):
                samples.append({'kind': h['kind'], 'await_all': h['await_all'], 'items': [_describe(it) for it in h['items']],
                                'oracle': info.get('decisive') and list(info['decisive']),
                                'observed': info.get('observed') and list(info['observed'])})
    finally:
        shutil.rmtree(workdir, ignore_errors=True)
    for x in violations:
        x['what'] += ' [%d case(s) with this key in this run]' % per_key[x['key']]
    return {'evaluations': evaluations, 'distinct_nontrivial': len(distinct), 'samples': samples, 'violations': violations,
            'rule': 'one evaluation = one creation (EphemeralOnionService / FilesystemOnionService / EphemeralAuthenticatedOnionService.create, '
                    'or the deprecated EphemeralHiddenService.add_to_tor) on a real TorControlProtocol + TorConfig against a scripted Tor that holds '
                    'the ADD_ONION/SETCONF reply and delivers one ordering of HS_DESC UPLOAD -> (UPLOADED | FAILED | nothing yet) per directory for '
                    'the service and for a foreign service, with the reply inserted at a chosen position; non-trivial = at least one UPLOADED or '
                    'FAILED event in the history; distinct by (kind, mode, exact item sequence). At most 3 violations are kept per key (the total '
                    'per key is appended to "what").',
            'bounds': 'tier %s: phase A (no foreign service) own directories 1..%s, every ordering x every reply position x both modes x 4 kinds%s: '
                      '%d runs; phase B (%s, shared with an own directory or not) own directories 1..%d, every ordering (sampled for the larger '
                      'scopes), reply first/between/last: %d runs; phase C seeded random (own <= %d directories, foreign <= %d, noise actions): '
                      '%d runs; %.1f s%s'
                      % (tier, 2 if quick else 3, '' if quick else ' (4 directories: every ordering, rotating reply position)', counts.get('A', 0),
                         'one foreign directory' if quick else 'one or two foreign directories', 2 if quick else 3, counts.get('B', 0),
                         3 if quick else 4, 2 if quick else 3, counts.get('C', 0), time.time() - t0,
                         ' (TRUNCATED by the wall-clock safety net)' if truncated else '')}
