"""Bounded dynamic check ("twin") for C20: the address map holds a name exactly until its latest
mapping expires.

A real TorState (real TorControlProtocol on a StringTransport, real AddrMap / Addr) is driven with
ADDRMAP events written from control-spec 4.1.7

    "650" SP "ADDRMAP" SP Address SP NewAddress SP Expiry [SP "error=" ErrorCode]
          [SP "EXPIRES=" UTCExpiry] [SP "CACHED=" Cached]
    Expiry = DQUOTE ISOTime DQUOTE / "NEVER"     (Expiry is LOCAL time, UTCExpiry is UTC)

either on the wire (after the scripted Tor below has answered TorState's SETEVENTS commands) or by
handing the payload to the handler TorState registered.  Time is a task.Clock that starts at a
real epoch second; `utcnow()` (and now()/today()/time.time() should the library use them) is pinned
to that clock.  Delayed calls run as under a real reactor: an exception in one is recorded, it does
not stop the others.

The oracle is the ghost map  name -> (address, expiry | NEVER)  = Tor's most recent mapping.
"""
from twin import control_session  # noqa: F401  (first: silences Twisted's stderr logging)

import calendar
import contextlib
import datetime as _real_datetime
import os
import random
import time
import types

DAY = 86400
NAMES = ['a.example.com', 'b.example.net']
ADDRS = ['10.0.0.1', '10.0.0.2', 'exit.example.org']
ERR = '<error>'
T0S = [calendar.timegm((2026, 3, 10, 12, 0, 0)),
       calendar.timegm((2024, 2, 28, 23, 59, 50)),      # leap-year month end
       calendar.timegm((2025, 12, 31, 18, 30, 0))]      # year end
TZS = [28800, -18000, 19800, 0]                         # Tor's local-time offset for the Expiry field

# names Tor answers to GETINFO events/names (control-spec 4.1); only used to let TorState subscribe
SPEC_EVENTS = ('CIRC STREAM ORCONN BW DEBUG INFO NOTICE WARN ERR NEWDESC ADDRMAP AUTHDIR_NEWDESCS '
               'DESCCHANGED NS STATUS_GENERAL STATUS_CLIENT STATUS_SERVER GUARD STREAM_BW CLIENTS_SEEN '
               'NEWCONSENSUS BUILDTIMEOUT_SET SIGNAL CONF_CHANGED CIRC_MINOR TRANSPORT_LAUNCHED CONN_BW '
               'CIRC_BW CELL_STATS TB_EMPTY HS_DESC HS_DESC_CONTENT NETWORK_LIVENESS').split()


# ------------------------------------------------------------------------------------------
# pinned wall clock

_CUR = {'clock': None, 'depth': 0}


def _now_seconds():
    return _CUR['clock'].seconds()


class _PinnedDatetime(_real_datetime.datetime):
    @classmethod
    def utcnow(cls):
        return cls(1970, 1, 1) + _real_datetime.timedelta(seconds=_now_seconds())

    @classmethod
    def now(cls, tz=None):
        if tz is None:
            return cls.utcnow()         # the process runs with TZ=UTC (see _pinned)
        return (cls(1970, 1, 1, tzinfo=_real_datetime.timezone.utc)
                + _real_datetime.timedelta(seconds=_now_seconds())).astimezone(tz)

    @classmethod
    def today(cls):
        return cls.utcnow()


@contextlib.contextmanager
def _pinned():
    """txtorcon.addrmap sees a datetime/time whose 'now' is the session clock; local time == UTC"""
    import txtorcon.addrmap as am
    if _CUR['depth']:
        _CUR['depth'] += 1
        try:
            yield
        finally:
            _CUR['depth'] -= 1
        return
    shim = types.ModuleType('datetime')
    shim.__dict__.update({k: v for k, v in _real_datetime.__dict__.items() if not k.startswith('__')})
    shim.datetime = _PinnedDatetime
    tshim = types.ModuleType('time')
    tshim.__dict__.update({k: v for k, v in time.__dict__.items() if not k.startswith('__')})
    tshim.time = lambda: float(_now_seconds())
    saved = {k: am.__dict__[k] for k in ('datetime', 'time') if k in am.__dict__}
    old_tz = os.environ.get('TZ')
    os.environ['TZ'] = 'UTC'
    time.tzset()
    _CUR['depth'] = 1
    try:
        if isinstance(saved.get('datetime'), types.ModuleType):
            am.datetime = shim
        elif 'datetime' in saved:       # "from datetime import datetime"
            am.datetime = _PinnedDatetime
        if isinstance(saved.get('time'), types.ModuleType):
            am.time = tshim
        yield
    finally:
        _CUR['depth'] = 0
        for k, v in saved.items():
            setattr(am, k, v)
        if old_tz is None:
            os.environ.pop('TZ', None)
        else:
            os.environ['TZ'] = old_tz
        time.tzset()


# ------------------------------------------------------------------------------------------
# session: real classes + scripted Tor + recording listeners

def _make_clock(t0):
    from twisted.internet import task

    class ReactorClock(task.Clock):
        """task.Clock; like a real reactor an exception in a delayed call is recorded, not propagated"""
        def __init__(self):
            task.Clock.__init__(self)
            self.errors = []

        def callLater(self, delay, f, *a, **kw):
            def guarded(*a2, **kw2):
                try:
                    return f(*a2, **kw2)
                except Exception as e:      # noqa
                    self.errors.append(repr(e))
            return task.Clock.callLater(self, delay, guarded, *a, **kw)

    c = ReactorClock()
    c.rightNow = int(t0)
    return c


def _make_listener():
    from zope.interface import implementer
    from txtorcon.interface import IAddrListener

    @implementer(IAddrListener)
    class Listener(object):
        def __init__(self):
            self.log = []

        def addrmap_added(self, addr):
            self.log.append(('added', getattr(addr, 'name', None), str(getattr(addr, 'ip', None))))

        def addrmap_expired(self, name):
            self.log.append(('expired', name, None))
    return Listener()


class Session(object):
    def __init__(self, t0):
        from twisted.test.proto_helpers import StringTransport
        import txtorcon.torcontrolprotocol as tcp
        import txtorcon.torstate as ts
        self.clock = _make_clock(t0)
        _CUR['clock'] = self.clock
        self.proto = tcp.TorControlProtocol()
        self.transport = StringTransport()
        self.proto.connectionMade = lambda: None        # no authentication chain: Tor is "already set up"
        self.proto.makeConnection(self.transport)
        for n in SPEC_EVENTS:
            self.proto.valid_events[n] = tcp.Event(n)
        self.state = ts.TorState(self.proto, bootstrap=False)
        self.state.addrmap.scheduler = self.clock
        self.listeners = [_make_listener(), _make_listener()]
        for l in self.listeners:
            self.state.addrmap.add_listener(l)
        self.subscribed = False
        self._answered = 0
        self.state._add_events()
        self._scripted_tor()

    def _scripted_tor(self):
        """answer every command line the library wrote: SETEVENTS -> 250 OK, anything else -> 510"""
        for _ in range(64):
            lines = self.transport.value().split(b'\r\n')[:-1]
            if len(lines) <= self._answered:
                return
            ln = lines[self._answered]
            self._answered += 1
            if ln.upper().startswith(b'SETEVENTS'):
                if b'ADDRMAP' in ln.upper().split():
                    self.subscribed = True
                self.proto.dataReceived(b'250 OK\r\n')
            else:
                self.proto.dataReceived(b'510 Unrecognized command\r\n')

    def deliver(self, payload, via):
        if via == 'wire':
            self.proto.dataReceived(('650 ADDRMAP %s\r\n' % payload).encode('ascii'))
        else:
            ev = self.proto.events['ADDRMAP']
            for cb in list(ev.callbacks):       # the handler TorState registered, called without the
                cb(payload)                     # protocol's catch-and-log wrapper

    def lookup(self, key):
        """-> (mapping or None, unexpected-exception repr or None)"""
        try:
            r = self.state.addrmap.find(key)
        except LookupError:
            return None, None
        except Exception as e:      # noqa
            return None, repr(e)
        return r, None


# ------------------------------------------------------------------------------------------
# reference encoder (control-spec 4.1.7)

def fmt(t):
    return time.strftime('%Y-%m-%d %H:%M:%S', time.gmtime(t))


def payload(name, addr, kind, exp, form, tz):
    """form 0: Expiry only (Tor's local time == UTC);  1: + EXPIRES=;  2: + CACHED="YES";  3: + CACHED="NO" """
    cached = {2: ' CACHED="YES"', 3: ' CACHED="NO"'}.get(form, '')
    if kind == 'never':
        return '%s %s NEVER%s' % (name, addr, cached)
    target = ERR if kind == 'error' else addr
    if form == 0:
        return '%s %s "%s"' % (name, target, fmt(exp))
    s = '%s %s "%s"' % (name, target, fmt(exp + tz))
    if kind == 'error':
        s += ' error=yes'
    return s + ' EXPIRES="%s"' % fmt(exp) + cached


# ------------------------------------------------------------------------------------------
# one history

def run_history(h):
    """h = {'t0': epoch, 'tz': seconds, 'steps': [['map', name#, addr#, kind, offset, form, via] | ['adv', dt]]}
    offset is relative to the clock at the moment the event is delivered."""
    with _pinned():
        return _run_history(h)[0]


def _run_history(h):
    viol, seen = [], set()
    info = {'transitions': set()}

    def bad(clause, sig, what):
        key = 'C20:%s:%s' % (clause, sig)
        if key in seen:
            return
        seen.add(key)
        viol.append({'key': key, 'clause': clause, 'what': what, 'history': h})

    s = Session(h['t0'])
    if not s.subscribed:
        bad('events_subscribed', 'no_setevents_addrmap', 'TorState did not subscribe to ADDRMAP; wrote %r' % (s.transport.value()[:80],))
        return viol, info
    tz = h['tz']
    live = {}                       # ghost: name -> [addr, expiry | None(NEVER)]
    dead = set()                    # (name, addr) pairs of mappings that expired / were dropped
    trans = dict((n, 'unmapped') for n in NAMES)
    gone = dict((n, 'unmapped') for n in NAMES)      # why a name is not live
    err_trans = {}                  # name -> the transition of its latest <error> event
    marks = [0 for _ in s.listeners]
    emark = 0

    for idx, st in enumerate(h['steps']):
        now = s.clock.seconds()
        where = 'step %d %r at t0%+d' % (idx, st, now - h['t0'])
        expect = {}                 # name -> ('exact', added, expired) | ('past_new',) | ('error_live',)
        if st[0] == 'map':
            _, ni, ai, kind, off, form, via = st
            name, addr, exp = NAMES[ni], ADDRS[ai], now + off
            old = live.get(name)
            oldkind = 'none' if old is None else ('never' if old[1] is None else 'timed')
            if kind == 'error':
                newkind = 'error'
            elif kind == 'never':
                newkind = 'never'
            elif exp <= now:
                newkind = 'past'
            else:
                newkind = 'timed' + ('>=24h' if off >= DAY else '<24h')
                if oldkind == 'timed':
                    newkind += '_earlier' if exp < old[1] else ('_later' if exp > old[1] else '_same')
            trans[name] = '%s->%s' % (oldkind, newkind)
            info['transitions'].add(trans[name])
            if kind == 'error':
                err_trans[name] = trans[name]
            if newkind in ('error', 'past'):
                if old is not None:
                    dead.add((name, old[0]))
                    del live[name]
                    expect[name] = ('error_live',) if kind == 'error' else ('exact', 0, 1)
                else:
                    expect[name] = ('exact', 0, 0) if kind == 'error' else ('past_new',)
                dead.add((name, ERR if kind == 'error' else addr))
                gone[name] = newkind
            else:
                expect[name] = ('exact', 0, 0) if old is not None else ('exact', 1, 0)
                live[name] = [addr, None if kind == 'never' else exp]
                dead.discard((name, addr))
            ctx = 'on_event'
            try:
                s.deliver(payload(name, addr, kind, exp, form, tz), via)
            except Exception as e:      # noqa
                bad('event_handled_without_error', trans[name], '%s: the ADDRMAP handler raised %r' % (where, e))
            s.clock.advance(0)          # one reactor turn
        else:
            dt = st[1]
            ctx = 'on_clock'
            s.clock.advance(dt)
            now = now + dt
            for n in list(live):
                if live[n][1] is not None and live[n][1] <= now:
                    dead.add((n, live[n][0]))
                    del live[n]
                    gone[n] = 'expired'
                    expect[n] = ('exact', 0, 1)

        # ---- listeners: exactly one 'added' per new name, one 'expired' per expiry, nothing else
        for li, l in enumerate(s.listeners):
            new = l.log[marks[li]:]
            marks[li] = len(l.log)
            for n in sorted(set(NAMES) | set(r[1] for r in new if isinstance(r[1], str))):
                kinds = [r[0] for r in new if r[1] == n]
                a, e = kinds.count('added'), kinds.count('expired')
                ex = expect.get(n, ('exact', 0, 0))
                tr = trans.get(n, 'unknown_name')
                if ex[0] == 'exact':
                    a_ok, e_ok = a == ex[1], e == ex[2]
                    want = "%d 'added' and %d 'expired'" % (ex[1], ex[2])
                elif ex[0] == 'error_live':
                    a_ok, e_ok = a == 0, e in (0, 1)
                    want = "no 'added' and at most one 'expired'"
                else:   # a new name whose mapping is already expired: nothing, or added then expired
                    a_ok = a in (0, 1)
                    e_ok = e == a and (a == 0 or kinds == ['added', 'expired'])
                    want = "nothing, or one 'added' followed by one 'expired'"
                if not a_ok:
                    bad('one_added_per_new_name', '%s:%s:got%d' % (tr, ctx, a),
                        "%s: listener %d heard %r for %s; expected %s" % (where, li, kinds, n, want))
                if not e_ok:
                    bad('one_expired_per_expiry', '%s:%s:got%d' % (tr, ctx, e),
                        "%s: listener %d heard %r for %s; expected %s" % (where, li, kinds, n, want))

        # ---- delayed calls must not blow up (a stale expiry timer firing for a mapping that is gone)
        for er in s.clock.errors[emark:]:
            who = [n for n in NAMES if n in er]
            bad('no_stale_expiry_timer', '%s:%s' % (trans[who[0]] if who else 'unknown', er.split('(')[0]),
                '%s: a delayed call raised %s; expected every scheduled expiry to correspond to a held mapping' % (where, er))
        emark = len(s.clock.errors)

        # ---- lookup by name succeeds exactly when the latest mapping has not expired
        for n in NAMES:
            r, err = s.lookup(n)
            if err:
                bad('lookup_raises_only_lookup_errors', trans[n], '%s: find(%r) raised %s' % (where, n, err))
                continue
            if n in live:
                a, e = live[n]
                if r is None:
                    if e is None:
                        bad('never_expiring_mapping_persists', trans[n],
                            '%s: find(%r) failed; expected the NEVER mapping to %s' % (where, n, a))
                    else:
                        bad('lookup_succeeds_until_latest_expiry', trans[n],
                            '%s: find(%r) failed; expected %s, which expires in %d s' % (where, n, a, e - now))
                elif getattr(r, 'name', None) != n or str(getattr(r, 'ip', None)) != a:
                    bad('later_event_replaces_address', trans[n],
                        '%s: find(%r) returned %r -> %s; expected %s -> %s' % (where, n, getattr(r, 'name', None), getattr(r, 'ip', None), n, a))
            elif r is not None:
                if gone[n] == 'error':
                    bad('error_mapping_dropped_at_once', trans[n] + ':name_key',
                        '%s: find(%r) returned %s after an <error> mapping; expected the lookup to fail' % (where, n, getattr(r, 'ip', None)))
                else:
                    bad('lookup_fails_once_latest_mapping_expired', '%s:%s' % (trans[n], gone[n]),
                        '%s: find(%r) returned %s although the latest mapping is %s; expected the lookup to fail' % (where, n, getattr(r, 'ip', None), gone[n]))

        # ---- an expired / dropped mapping is not returned under the address either
        for k in ADDRS + [ERR]:
            r, err = s.lookup(k)
            if err:
                bad('lookup_raises_only_lookup_errors', 'address_key', '%s: find(%r) raised %s' % (where, k, err))
                continue
            if r is None:
                continue
            rn, rip = getattr(r, 'name', None), str(getattr(r, 'ip', None))
            stale = rn not in live or ((rn, rip) in dead and live[rn][0] != rip)
            if not stale:
                continue
            tr = trans.get(rn, 'unknown_name')
            if k == ERR or gone.get(rn) == 'error' and rn not in live:
                bad('error_mapping_dropped_at_once', '%s:%s' % (err_trans.get(rn, tr), 'error_key' if k == ERR else 'addr_key'),
                    '%s: find(%r) returned the mapping %s -> %s, which was dropped as an <error> mapping; expected the lookup to fail' % (where, k, rn, rip))
            else:
                bad('expired_mapping_not_returned_under_address', '%s:%s' % (tr, gone.get(rn, 'unknown') if rn not in live else 'expired_earlier'),
                    '%s: find(%r) returned the mapping %s -> %s, which has expired; expected it to be unreachable' % (where, k, rn, rip))
    return viol, info


# ------------------------------------------------------------------------------------------
# generators

class _Gen(object):
    """builds a history and keeps the instants worth probing"""
    def __init__(self, t0, tz):
        self.h = {'t0': t0, 'tz': tz, 'steps': []}
        self.now = 0            # relative to t0
        self.instants = set()

    def map(self, ni, ai, kind, off, form, via):
        self.h['steps'].append(['map', ni, ai, kind, off, form, via])
        if kind != 'never':
            e = self.now + off
            self.instants.update((e - 1, e, e + 1))
            m = self.now + (off % DAY)          # where day/second arithmetic slips would land
            self.instants.update((m - 1, m, m + 1, m + DAY))
        self.instants.update((self.now + 10, self.now + DAY + 1))

    def adv(self, dt):
        self.h['steps'].append(['adv', dt])
        self.now += dt

    def adv_to(self, t):
        if t > self.now:
            self.adv(t - self.now)

    def upcoming(self):
        return sorted(t for t in self.instants if t > self.now)

    def finish(self, far=400 * DAY, limit=40):
        pts = self.upcoming()
        if len(pts) > limit:
            pts = pts[:limit // 2] + pts[-limit // 2:]
        for t in pts:
            self.adv_to(t)
        self.adv(far)           # never-expiring mappings persist; nothing comes back
        return self.h


F1 = [9, 3600, DAY + 9, 2 * DAY + 9, 3 * DAY]
O2 = [-3 * DAY, -DAY - 5, -3600, -1, 0, 1, 9, 59, 3600, DAY - 1, DAY, DAY + 1, DAY + 9, 2 * DAY + 9, 3 * DAY, 400 * DAY + 7]
O2_THOROUGH = O2 + [7, 3599, 12 * 3600, 2 * DAY, 2 * DAY - 1, 3650 * DAY]


def systematic(tier):
    """old in {none, timed, NEVER} x new in {timed earlier/later/past, > 24 h, NEVER, <error>} x forms, then a third event"""
    o2 = O2 if tier == 'quick' else O2_THOROUGH
    ev1s = [None] + [('timed', o) for o in F1] + [('never', 0)]
    ev2s = [('timed', o) for o in o2] + [('never', 0), ('error', 60), ('error', -60)]
    t0s = T0S[:1] if tier == 'quick' else T0S
    tzs = TZS[:1] if tier == 'quick' else TZS[:3]
    i = 0
    for t0 in t0s:
        for tz in tzs:
            for ev1 in ev1s:
                for gap in ((0,) if ev1 is None else (0, 5)):
                    for ev2 in ev2s:
                        for form in (0, 1, 2, 3):
                            i += 1
                            g = _Gen(t0, tz)
                            via = ('wire', 'direct')[i % 2]
                            if i % 4 < 2:       # a bystander that must be left alone, on the address the name ends up with
                                g.map(1, 1, 'never', 0, (i // 4) % 4, via)
                            if ev1 is not None:
                                g.map(0, 0, ev1[0], ev1[1], (form + i // 8) % 4, ('direct', 'wire')[i % 2])
                                if gap:
                                    g.adv(gap)
                            g.map(0, (i // 2) % 2, ev2[0], ev2[1], form, via)
                            yield g.finish()
    # three events on one name: stale timers meeting a newer mapping
    e1s = [('timed', 9), ('timed', 3600), ('never', 0)]
    e2s = [('error', 30), ('never', 0), ('timed', DAY + 9), ('timed', -1), ('timed', 5)]
    e3s = [('timed', 9), ('timed', 3600), ('never', 0), ('error', 30), ('timed', 2 * DAY)]
    for t0 in t0s:
        for e1 in e1s:
            for e2 in e2s:
                for gap in (0, 3, 10):
                    for e3 in e3s:
                        i += 1
                        g = _Gen(t0, TZS[i % 3])
                        g.map(0, 0, e1[0], e1[1], i % 4, ('wire', 'direct')[i % 2])
                        g.adv(1)
                        g.map(0, i % 3, e2[0], e2[1], (i // 4) % 4, ('direct', 'wire')[i % 2])
                        if gap:
                            g.adv(gap)
                        g.map(0, (i // 3) % 3, e3[0], e3[1], (i // 16) % 4, ('wire', 'direct')[(i // 2) % 2])
                        yield g.finish()


R_OFFS = [-3 * DAY, -DAY, -3600, -60, -1, 0, 1, 2, 9, 30, 59, 600, 3600, 7200, 43200, DAY - 1, DAY, DAY + 1, DAY + 9,
          DAY + 3600, 2 * DAY, 2 * DAY + 9, 3 * DAY - 1, 3 * DAY]


def random_history(rnd, max_events=6, wide=False):
    g = _Gen(rnd.choice(T0S), rnd.choice(TZS))
    for _ in range(rnd.randint(1, max_events)):
        k = rnd.random()
        if k < 0.62:
            kind = 'timed'
            off = rnd.choice(R_OFFS) if rnd.random() < 0.8 else rnd.randint(-3 * DAY, 3 * DAY)
            if wide and rnd.random() < 0.05:
                off = rnd.choice([30 * DAY + 3, 400 * DAY, 3650 * DAY + 11])
        elif k < 0.80:
            kind, off = 'never', 0
        else:
            kind, off = 'error', rnd.choice([-60, 60, DAY + 60])
        g.map(rnd.randrange(len(NAMES)), rnd.randrange(len(ADDRS)), kind, off, rnd.randrange(4), rnd.choice(['wire', 'direct']))
        k = rnd.random()
        if k < 0.35:
            pass
        elif k < 0.55:
            g.adv(rnd.choice([1, 2, 5, 10, 60]))
        elif k < 0.85:
            up = g.upcoming()
            if up:
                g.adv_to(rnd.choice(up[:9]))
        else:
            g.adv(rnd.choice([3600, DAY, DAY + 1, 2 * DAY, 3 * DAY + 1]))
    return g.finish(limit=24)


# ------------------------------------------------------------------------------------------
# interface

def _nontrivial(info):
    """a history is non-trivial when some name is re-mapped, dropped, or mapped beyond a day"""
    return any(not t.startswith('none->timed<24h') and not t.startswith('none->never') for t in info['transitions'])


def twin(tier, seed):
    rnd = random.Random(seed)
    t_start = time.time()
    budget = 14.0 if tier == 'quick' else 480.0
    n_random = 1500 if tier == 'quick' else 150000
    violations, per_key, evaluations, distinct, samples = [], {}, 0, set(), []
    total_by_key = {}

    def run(h):
        v, info = _run_history(h)
        sig = (h['t0'], h['tz'], tuple(tuple(s) for s in h['steps']))
        if _nontrivial(info):
            distinct.add(hash(sig))
        for x in v:
            total_by_key[x['key']] = total_by_key.get(x['key'], 0) + 1
            lst = per_key.setdefault(x['key'], [])
            lst.append(x)
            if len(lst) > 12:       # keep the shortest few per key
                lst.sort(key=lambda y: len(y['history']['steps']))
                del lst[4:]
        return info

    n_sys = 0
    with _pinned():
        for h in systematic(tier):
            run(h)
            evaluations += 1
            n_sys += 1
            if len(samples) < 2 and evaluations in (200, 900):
                samples.append(h)
        n_rand = 0
        for j in range(n_random):
            if time.time() - t_start > budget:
                break
            h = random_history(rnd, wide=(tier != 'quick'))
            run(h)
            evaluations += 1
            n_rand += 1
            if len(samples) < 3 and j == 7:
                samples.append(h)
    for k in sorted(per_key):
        lst = sorted(per_key[k], key=lambda y: len(y['history']['steps']))[:4]
        for x in lst:
            x = dict(x)
            x['occurrences_of_key'] = total_by_key[k]
            violations.append(x)
    return {'evaluations': evaluations, 'distinct_nontrivial': len(distinct), 'samples': samples[:3], 'violations': violations,
            'rule': 'one evaluation = one history on a fresh TorState: up to 6 ADDRMAP events (name, address, timed offset / NEVER / <error>, '
                    'one of 4 encodings: Expiry only, +EXPIRES=, +CACHED="YES"/"NO", delivered on the wire or to the registered handler) '
                    'interleaved with clock advances, then the clock is walked through every instant around each stated expiry (and the '
                    'same offsets modulo one day) and 400 days beyond; after every step both names and all address keys are looked up and the '
                    'listeners\' logs compared with the ghost map. Non-trivial = some name is re-mapped, dropped (<error> / already expired) '
                    'or mapped for 24 h or more; distinct by the full (t0, tz, steps) tuple. At most 4 violations (shortest histories) are '
                    'kept per key; occurrences_of_key has the total.',
            'bounds': '%d systematic histories (old in {none, 9 s, 1 h, 1 d+9 s, 2 d+9 s, 3 d, NEVER} x gap {0, 5 s} x new in {%d offsets from -3 d to +3 d and +%s, '
                      'NEVER, <error>} x 4 encodings, with/without a NEVER bystander on the same address; plus 3-event chains) and %d seeded random '
                      'histories (1..6 events over 2 names x 3 addresses, offsets -3 d..+3 d%s); %d start instants, Tor local-time offsets %s'
                      % (n_sys, len(O2 if tier == 'quick' else O2_THOROUGH), '400 d' if tier == 'quick' else '400 d / 10 y', n_rand,
                         '' if tier == 'quick' else ', occasionally 30 d / 400 d / 10 y', 1 if tier == 'quick' else 3, TZS)}


def replay_history(history):
    h = {'t0': history['t0'], 'tz': history['tz'], 'steps': [list(s) for s in history['steps']]}
    return run_history(h)
